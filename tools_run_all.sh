#!/bin/sh
# Runs every claimed check (quick tier) against /repo and reports exit codes; used before committing evidence.
cd "$(dirname "$0")"
rc=0
for c in $(python3 -c "import json; print(' '.join(x['property_id'] for x in json.load(open('MANIFEST.json'))['checks']))"); do
  if [ -n "$1" ] && ! echo " $* " | grep -q " $c "; then continue; fi
  s=$(date +%s)
  ./check $c --tier quick > /tmp/verif_run_$c.log 2>&1; e=$?
  echo "$c exit $e  $(( $(date +%s) - s ))s  $(grep -c '^KNOWN-FINDING' /tmp/verif_run_$c.log) known  $(grep -c '^VIOLATION' /tmp/verif_run_$c.log) violations  $(grep -c '^UNDECIDED' /tmp/verif_run_$c.log) undecided"
  [ $e -ne 0 ] && rc=1
done
exit $rc
