"""C01 - handles release each backend object exactly once, for any handle history.

Part 1: contracts of the ring primitives (gc.cpp / gc.tpp compiled whole and
unmodified) for rings of every length (poisoned-neighbourhood frame argument).
Part 2: inductive step of the handle protocol for the five handle families,
from every state satisfying the representation invariant, K handles.
"""
import re

from vp.core import Group, Undecided, Extracted, sha
from vp.extract import extract_function, rewrite
from vp import replay_C01

LEVEL = 'proof'
EXPLANATION = ('Ring primitives: CHECK-encoded contracts on the unmodified gc.cpp/gc.tpp text, rings of any length '
               '(every link leaving the neighbourhood named in the contract is a dangling pointer, so any access '
               'outside the frame fails a pointer obligation).  Handle protocol: for each handle family the real '
               'constructors, operator=, destructor, setModeX, removeXRef, dontUseRefs, isInitialized, swap, free '
               'and the mode object\'s ring functions and destructor are extracted verbatim; from EVERY state of 2 '
               'backend objects and K handles satisfying the invariant "handle points to o <=> handle is linked in '
               'o\'s ring" one nondeterministic operation is executed and the invariant, exact-once destruction '
               '(CBMC double-delete / deallocated-object obligations + liveness oracle), and the free() law are '
               'checked.  Induction over the history gives the property for histories of any length over K handles.')
TRUSTED = ['cbmc 6.11.0 C++ front end and SAT back end',
           'class skeletons of occa::memory/memoryPool/kernel/stream/device and their mode classes, flattened '
           '(no virtual functions: virtual calls resolve to the base-class text that is extracted); stub '
           'modeBuffer_t / modeDevice_t callbacks that only count calls',
           'verif_alive(): __CPROVER_r_ok in a C helper as liveness oracle']
ASSUMPTIONS = ['K <= 3 handles per backend object and 2 backend objects per step (history length unbounded)',
               'member/base destructors are not executed by the C++ front end (ringEntry_t has a trivial one)',
               'backend free() paths of the concrete modes (serial::memory::~memory etc.) are not part of the step',
               'single-threaded (OCCA_THREAD_SHARABLE_ENABLED off), see C30']
NOT_REACHED = ['modeDevice_t::freeResources / freeRing (walks kernels, buffers, streams)',
               'streamTag handles', 'accounted memory (C05)', 'multiRing_t (unused by libocca)']

GC_PUB = 'include/occa/utils/gc.hpp'
GC_HPP = 'src/occa/internal/utils/gc.hpp'
GC_TPP = 'src/occa/internal/utils/gc.tpp'
GC_CPP = 'src/occa/internal/utils/gc.cpp'


def whole(ctx, rel, drop=()):
    text = ctx.read(rel)
    ex = Extracted(name='whole file ' + rel, file=rel, line0=1, line1=text.count('\n') + 1,
                   sha256=sha(text), text=text)
    out = text
    for rx in drop:
        out, n = re.subn(rx, '', out, flags=re.M)
        ex.rules.append(('drop include line /%s/ (text pasted in place)' % rx, n))
    return ex, out


def gc_unit(ctx):
    a, ta = whole(ctx, GC_PUB)
    b, tb = whole(ctx, GC_HPP, [r'^#include <occa/utils/gc.hpp>\n', r'^#include "gc.tpp"\n'])
    c, tc = whole(ctx, GC_TPP)
    d, td = whole(ctx, GC_CPP, [r'^#include <occa/internal/utils/gc.hpp>\n'])
    if b.rules[0][1] != 1 or b.rules[1][1] != 1 or d.rules[0][1] != 1:
        raise Undecided('extraction break: gc.hpp/gc.cpp include lines changed')
    pre = '#include <verif_base.h>\nextern "C" int verif_alive(const void *p, size_t n);\n'
    return pre + ta + tb + tc + td, [a, b, c, d]


HELPER_C = '''#include <stddef.h>
int verif_alive(const void *p, size_t n) { return __CPROVER_r_ok(p, n); }
'''

RING_HARNESS = r'''
typedef occa::gc::ringEntry_t RE;
struct E : public RE { int tag; };
typedef occa::gc::ring_t<E> RING;

static E* mk() { E *e = new E(); return e; }           /* self-looped by the real constructor */
static E* dangling() { E *e = (E*) malloc(sizeof(E)); free(e); return e; }  /* any access fails */
static void lnk(RE *a, RE *b) { a->rightRingEntry = b; b->leftRingEntry = a; }

/* ---- ringEntry_t::removeRef ------------------------------------------- */
extern "C" void h_entry_removeRef() {
  E *e = mk();
  int shape = nondet_int();
  __CPROVER_assume(0 <= shape && shape <= 3);
  E *L = 0, *R = 0; RE *Lout = 0, *Rout = 0;
  if (shape == 1) { L = R = mk(); lnk(e, L); lnk(L, e); }
  if (shape >= 2) {
    L = mk(); R = mk(); lnk(L, e); lnk(e, R);
    if (shape == 2) { lnk(R, L); }                        /* ring of exactly three */
    else { Lout = dangling(); Rout = dangling(); L->leftRingEntry = Lout; R->rightRingEntry = Rout; } /* longer ring */
  }
  e->removeRef();
  __CPROVER_assert(e->leftRingEntry == e && e->rightRingEntry == e, "ringEntry_t::removeRef: entry is self-looped afterwards");
  if (shape == 1) __CPROVER_assert(L->leftRingEntry == L && L->rightRingEntry == L, "ringEntry_t::removeRef: the remaining entry of a ring of two is self-looped");
  if (shape >= 2) __CPROVER_assert(L->rightRingEntry == R && R->leftRingEntry == L, "ringEntry_t::removeRef: neighbours are linked to each other");
  if (shape == 2) __CPROVER_assert(L->leftRingEntry == R && R->rightRingEntry == L, "ringEntry_t::removeRef: ring of three becomes a ring of two");
  if (shape == 3) __CPROVER_assert(L->leftRingEntry == Lout && R->rightRingEntry == Rout, "ringEntry_t::removeRef: outer links of the neighbours unchanged");
#ifdef CANARY
  __CPROVER_assert(shape != 3, "canary");
#endif
}

/* ring state for ring_t operations: size 0, 1, 2, 3 fully allocated, or "long"
   (head H, its right neighbour HR, tail T, its left neighbour TL allocated;
   everything between HR and TL is dangling: any access there fails) */
struct ringstate { RING r; int size; E *H; E *T; E *M; E *HR; E *TL; RE *HRout; RE *TLout; };
static void mkring(ringstate &s) {
  s.size = nondet_int(); __CPROVER_assume(0 <= s.size && s.size <= 4);
  s.H = s.T = s.M = s.HR = s.TL = 0; s.HRout = s.TLout = 0;
  if (nondet_bool()) s.r.dontUseRefs();
  if (s.size == 0) return;
  s.H = mk(); s.r.head = s.H; s.T = s.H;
  if (s.size == 1) return;
  s.T = mk();
  if (s.size == 2) { lnk(s.H, s.T); lnk(s.T, s.H); return; }
  if (s.size == 3) { s.M = mk(); lnk(s.H, s.M); lnk(s.M, s.T); lnk(s.T, s.H); return; }
  s.HR = mk(); s.TL = mk(); s.HRout = dangling(); s.TLout = dangling();
  lnk(s.T, s.H); lnk(s.H, s.HR); lnk(s.TL, s.T);
  s.HR->rightRingEntry = s.HRout; s.TL->leftRingEntry = s.TLout;
}
static void check_far(ringstate &s) {
  if (s.size == 4) __CPROVER_assert(s.HR->rightRingEntry == s.HRout && s.TL->leftRingEntry == s.TLout, "ring operation leaves the far part of a long ring untouched");
}

extern "C" void h_ring_addRef() {
  ringstate s; mkring(s);
  bool useRefs0 = s.r.useRefs;
  int ek = nondet_int(); __CPROVER_assume(0 <= ek && ek <= 4);
  E *e = 0, *EL = 0, *ER = 0;
  if (ek == 1) { __CPROVER_assume(s.size >= 1); e = s.H; }      /* already the head */
  if (ek == 2) { e = mk(); }                                      /* fresh, self-looped */
  if (ek == 3) { e = mk(); EL = ER = mk(); lnk(e, EL); lnk(EL, e); }   /* linked in another ring of two */
  if (ek == 4) { e = mk(); EL = mk(); ER = mk(); lnk(EL, e); lnk(e, ER);
                 EL->leftRingEntry = dangling(); ER->rightRingEntry = dangling(); } /* inside another long ring */
  RE *ELout = EL ? EL->leftRingEntry : 0, *ERout = ER ? ER->rightRingEntry : 0;
  RE *Hr = s.H ? s.H->rightRingEntry : 0, *Tl = s.T ? s.T->leftRingEntry : 0;
  s.r.addRef(e);
  __CPROVER_assert(s.r.useRefs == useRefs0, "ring_t::addRef: useRefs unchanged");
  if (ek == 0 || ek == 1) {
    __CPROVER_assert(s.r.head == s.H, "ring_t::addRef: NULL entry or the head itself changes nothing (head)");
    if (s.H) __CPROVER_assert(s.H->rightRingEntry == Hr && s.T->leftRingEntry == Tl, "ring_t::addRef: NULL entry or the head itself changes nothing (links)");
  } else if (s.size == 0) {
    __CPROVER_assert(s.r.head == e, "ring_t::addRef: first entry becomes the head");
    __CPROVER_assert(e->leftRingEntry == e && e->rightRingEntry == e, "ring_t::addRef: first entry is a ring of one");
  } else {
    __CPROVER_assert(s.r.head == s.H, "ring_t::addRef: head unchanged");
    __CPROVER_assert(e->rightRingEntry == s.H && s.H->leftRingEntry == e, "ring_t::addRef: entry is linked before the head");
    __CPROVER_assert(e->leftRingEntry == s.T && s.T->rightRingEntry == e, "ring_t::addRef: entry is linked after the old tail");
    if (s.size >= 2) __CPROVER_assert(s.T->leftRingEntry == Tl, "ring_t::addRef: rest of the ring untouched (tail side)");
    if (s.size >= 2) __CPROVER_assert(s.H->rightRingEntry == Hr, "ring_t::addRef: rest of the ring untouched (head side)");
  }
  if (ek == 3) __CPROVER_assert(EL->leftRingEntry == EL && EL->rightRingEntry == EL, "ring_t::addRef: entry is unlinked from its previous ring (ring of two)");
  if (ek == 4) __CPROVER_assert(EL->rightRingEntry == ER && ER->leftRingEntry == EL && EL->leftRingEntry == ELout && ER->rightRingEntry == ERout,
                                "ring_t::addRef: entry is unlinked from its previous ring (long ring)");
  check_far(s);
#ifdef CANARY
  __CPROVER_assert(!(ek == 4 && s.size == 4), "canary");
#endif
}

extern "C" void h_ring_removeRef() {
  ringstate s; mkring(s);
  bool useRefs0 = s.r.useRefs;
  /* I1: entry is NULL, self-looped (not a member), or a member of THIS ring */
  int ek = nondet_int(); __CPROVER_assume(0 <= ek && ek <= 5);
  E *e = 0; E *L = 0, *R = 0;
  if (ek == 1) e = mk();                                          /* not a member */
  if (ek == 2) { __CPROVER_assume(s.size >= 1); e = s.H; }
  if (ek == 3) { __CPROVER_assume(s.size >= 2); e = s.T; }
  if (ek == 4) { __CPROVER_assume(s.size == 3); e = s.M; }
  if (ek == 5) { /* middle of a long ring: own neighbours allocated, their outer links dangling */
    __CPROVER_assume(s.size == 4); e = mk(); L = mk(); R = mk(); lnk(L, e); lnk(e, R);
    L->leftRingEntry = dangling(); R->rightRingEntry = dangling(); }
  RE *eL = e ? e->leftRingEntry : 0, *eR = e ? e->rightRingEntry : 0;
  s.r.removeRef(e);
  __CPROVER_assert(s.r.useRefs == useRefs0, "ring_t::removeRef: useRefs unchanged");
  if (e && s.size > 0) __CPROVER_assert(e->leftRingEntry == e && e->rightRingEntry == e, "ring_t::removeRef: entry is self-looped afterwards");
  /* head' = (head == entry ? (tail != entry ? tail : NULL) : head) */
  if (ek == 2) __CPROVER_assert(s.r.head == (s.size == 1 ? (E*) 0 : s.T), "ring_t::removeRef: removing the head makes the tail the head, or empties a ring of one");
  else __CPROVER_assert(s.r.head == s.H, "ring_t::removeRef: head unchanged when another entry is removed");
  if ((ek >= 2) && s.size >= 2 && eL != e) __CPROVER_assert(eL->rightRingEntry == eR && eR->leftRingEntry == eL, "ring_t::removeRef: ring is closed around the removed entry");
  if (ek == 2 && s.size == 1) __CPROVER_assert(s.r.needsFree() == useRefs0, "ring_t::needsFree: an emptied ring needs free iff it uses refs");
  if (s.r.head) __CPROVER_assert(!s.r.needsFree(), "ring_t::needsFree: a non-empty ring never needs free");
  if (!s.r.head) __CPROVER_assert(s.r.needsFree() == s.r.useRefs, "ring_t::needsFree: useRefs && head == NULL");
  check_far(s);
  if (ek == 5) __CPROVER_assert(s.H->rightRingEntry == s.HR && s.T->leftRingEntry == s.TL, "ring_t::removeRef: removing a middle entry leaves head and tail links untouched");
#ifdef CANARY
  __CPROVER_assert(!(ek == 5), "canary");
#endif
}

extern "C" void h_ring_misc() {
  ringstate s; mkring(s);
  __CPROVER_assume(s.size <= 3);
  __CPROVER_assert(s.r.length() == s.size, "ring_t::length counts the entries (rings of up to 3)");
  RING r2;
  __CPROVER_assert(r2.useRefs && r2.head == 0 && r2.needsFree(), "ring_t(): empty ring using refs");
  r2.dontUseRefs();
  __CPROVER_assert(!r2.useRefs && !r2.needsFree(), "ring_t::dontUseRefs: never needs free");
  r2.clear();
  __CPROVER_assert(r2.useRefs && r2.head == 0, "ring_t::clear");
  RE x;
  __CPROVER_assert(x.leftRingEntry == &x && x.rightRingEntry == &x, "ringEntry_t(): self-looped");
#ifdef CANARY
  __CPROVER_assert(s.size != 3, "canary");
#endif
}
'''

# ---------------------------------------------------------------------------
# Part 2: handle families

FAMILIES = {
    'memory': dict(
        H='memory', M='modeMemory_t', P='modeMemory', ring='memoryRing', SET='setModeMemory', RM='removeMemoryRef',
        ADD='addMemoryRef', MRM='removeMemoryRef', swap=True, rawassign=False,
        hfile='src/core/memory.cpp', mfile='src/occa/internal/core/memory.cpp',
        isinit_const=True,
        mode_extra_decl='modeBuffer_t *modeBuffer; void removeModeMemoryRef();',
        mode_extra_fns=[(r'^  void modeMemory_t::removeModeMemoryRef\(\)\s*\{', 'modeMemory_t::removeModeMemoryRef()')],
        stubs='''
  class modeBuffer_t { public: bool nf;
    modeBuffer_t() : nf(false) {}
    void removeModeMemoryRef(modeMemory_t *mem);   /* ghost: counts runs of ~modeMemory_t */
    bool needsFree() const { return nf; }
    virtual ~modeBuffer_t() {} };''',
        stub_defs='void modeBuffer_t::removeModeMemoryRef(modeMemory_t *mem) { ++g_destroyed[mem->ghost_id]; }',
        delete_overloads='  static void verif_delete(modeBuffer_t *p) { if (p) { p->~modeBuffer_t(); delete p; } }',
        mode_ctor='modeBuffer = new modeBuffer_t(); modeBuffer->nf = nondet_bool();'),
    'memoryPool': dict(
        H='memoryPool', M='modeMemoryPool_t', P='modeMemoryPool', ring='memoryPoolRing', SET='setModeMemoryPool',
        RM='removeMemoryPoolRef', ADD='addMemoryPoolRef', MRM='removeMemoryPoolRef', swap=True, rawassign=False,
        hfile='src/core/memoryPool.cpp', mfile='src/occa/internal/core/memoryPool.cpp', isinit_const=True,
        mode_extra_decl='modeBuffer_t *buffer; unsigned long size;', mode_extra_fns=[],
        stubs='''
  class modeBuffer_t { public: int id; modeBuffer_t() : id(-1) {}
    virtual ~modeBuffer_t() { if (id >= 0) ++g_destroyed[id]; } };   /* ghost: counts runs of ~modeMemoryPool_t */''',
        stub_defs='',
        delete_overloads='  static void verif_delete(modeBuffer_t *p) { if (p) { p->~modeBuffer_t(); delete p; } }',
        mode_ctor='buffer = new modeBuffer_t(); size = nondet_ulong();', after_new='obj[o]->buffer->id = o;'),
    'kernel': dict(
        H='kernel', M='modeKernel_t', P='modeKernel', ring='kernelRing', SET='setModeKernel', RM='removeKernelRef',
        ADD='addKernelRef', MRM='removeKernelRef', swap=False, rawassign=True,
        hfile='src/core/kernel.cpp', mfile='src/occa/internal/core/kernel.cpp', isinit_const=False,
        mode_extra_decl='modeDevice_t *modeDevice;', mode_extra_fns=[],
        stubs='''
  class modeKernel_t;
  class modeDevice_t { public: int x; modeDevice_t() : x(0) {}
    void removeKernelRef(modeKernel_t *k); };   /* ghost: counts runs of ~modeKernel_t */''',
        stub_defs='void modeDevice_t::removeKernelRef(modeKernel_t *k) { ++g_destroyed[k->ghost_id]; }',
        mode_ctor='modeDevice = new modeDevice_t();'),
    'stream': dict(
        H='stream', M='modeStream_t', P='modeStream', ring='streamRing', SET='setModeStream', RM='removeStreamRef',
        ADD='addStreamRef', MRM='removeStreamRef', swap=False, rawassign=False,
        hfile='src/core/stream.cpp', mfile='src/occa/internal/core/stream.cpp', isinit_const=True,
        mode_extra_decl='modeDevice_t *modeDevice;', mode_extra_fns=[],
        stubs='''
  class modeStream_t;
  class modeDevice_t { public: int x; modeDevice_t() : x(0) {}
    void removeStreamRef(modeStream_t *k); };   /* ghost: counts runs of ~modeStream_t */''',
        stub_defs='void modeDevice_t::removeStreamRef(modeStream_t *k) { ++g_destroyed[k->ghost_id]; }',
        mode_ctor='modeDevice = new modeDevice_t();'),
    'device': dict(
        H='device', M='modeDevice_t', P='modeDevice', ring='deviceRing', SET='setModeDevice', RM='removeDeviceRef',
        ADD='addDeviceRef', MRM='removeDeviceRef', swap=False, rawassign=False,
        hfile='src/core/device.cpp', mfile='src/occa/internal/core/device.cpp', isinit_const=True,
        mode_extra_decl='void freeResources() { ++g_destroyed[ghost_id]; }   /* ghost: device::free() calls it right before delete */', mode_extra_fns=[],
        stubs='', stub_defs='', mode_ctor=''),
}


def sigs(f):
    H, M, P = f['H'], f['M'], f['P']
    w = r'\s*'
    hs = [
        (r'^  %s::%s\(\)%s:%s%s\(NULL\)%s\{\}' % (H, H, w, w, P, w), '%s::%s()' % (H, H)),
        (r'^  %s::%s\(%s \*%s_\)%s:' % (H, H, M, P, w), '%s::%s(%s*)' % (H, H, M)),
        (r'^  %s::%s\(const %s &\w+\)%s:' % (H, H, H, w), '%s::%s(const %s&)' % (H, H, H)),
        (r'^  %s& %s::operator = \(const %s &\w+\)%s\{' % (H, H, H, w), '%s::operator=(const %s&)' % (H, H)),
        (r'^  %s::~%s\(\)%s\{' % (H, H, w), '%s::~%s()' % (H, H)),
        (r'^  void %s::%s\(%s \*%s_\)%s\{' % (H, f['SET'], M, P, w), '%s::%s' % (H, f['SET'])),
        (r'^  void %s::%s\(\)%s\{' % (H, f['RM'], w), '%s::%s' % (H, f['RM'])),
        (r'^  void %s::dontUseRefs\(\)%s\{' % (H, w), '%s::dontUseRefs' % H),
        (r'^  bool %s::isInitialized\(\)( const)?%s\{' % (H, w), '%s::isInitialized' % H),
        (r'^  void %s::free\(\)%s\{' % (H, w), '%s::free' % H),
    ]
    if f['swap']:
        hs.append((r'^  %s& %s::swap\(%s &\w+\)%s\{' % (H, H, H, w), '%s::swap' % H))
    if f['rawassign']:
        hs.append((r'^  %s& %s::operator = \(%s \*%s_\)%s\{' % (H, H, M, P, w), '%s::operator=(%s*)' % (H, M)))
    ms = [
        (r'^  %s::~%s\(\)%s\{' % (M, M, w), '%s::~%s()' % (M, M)),
        (r'^  void %s::dontUseRefs\(\)%s\{' % (M, w), '%s::dontUseRefs' % M),
        (r'^  void %s::%s\(%s \*\w+\)%s\{' % (M, f['ADD'], H, w), '%s::%s' % (M, f['ADD'])),
        (r'^  void %s::%s\(%s \*\w+\)%s\{' % (M, f['MRM'], H, w), '%s::%s' % (M, f['MRM'])),
        (r'^  bool %s::needsFree\(\) const%s\{' % (M, w), '%s::needsFree' % M),
    ] + list(f['mode_extra_fns'])
    return hs, ms


FAMILY_TEMPLATE = r'''
static int g_destroyed[2];   /* ghost: destructor runs per backend object */
namespace occa {
  class @M@;@STUBS@
  /* skeleton of the handle class: the data member and the functions under contract */
  class @H@ : public gc::ringEntry_t {
   public:
    @M@ *@P@;
    @H@();
    @H@(@M@ *@P@_);
    @H@(const @H@ &m);
    @H@& operator = (const @H@ &m);
    @RAWASSIGN_DECL@
    ~@H@();
    void @SET@(@M@ *@P@_);
    void @RM@();
    void dontUseRefs();
    bool isInitialized() @ISINIT_CONST@;
    @SWAP_DECL@
    void free();
  };
  /* skeleton of the mode class (flattened, non-virtual): ring + what its destructor touches */
  class @M@ : public gc::ringEntry_t {
   public:
    gc::ring_t<@H@> @RING@;
    int ghost_id;
    @MODE_EXTRA_DECL@
    @M@() { ghost_id = 0; @MODE_CTOR@ }
    virtual ~@M@();   /* virtual as in the real class: the front end runs destructors on delete only when virtual */
    void dontUseRefs();
    void @ADD@(@H@ *h);
    void @MRM@(@H@ *h);
    bool needsFree() const;
  };
}
namespace occa {
@STUB_DEFS@
  /* [expr.delete]: a delete-expression on a non-null pointer runs the destructor, then deallocates */
  static void verif_delete(@M@ *p) { if (p) { p->~@M@(); delete p; } }
@DELETE_OVERLOADS@
@REAL_TEXT@
}
using namespace occa;
typedef gc::ringEntry_t RE;
#ifndef VERIF_K
#define VERIF_K 3
#endif
#define K VERIF_K
#define NOBJ 2
#define NH (K + 1)

static @M@ *obj[NOBJ];
static bool useRefs0[NOBJ];
static @H@ *hd[NH];          /* hd[K] is the slot for a handle created by the step */
static bool hlive[NH];
static int att[NH];          /* expected attachment: -1 none, else object index */
static bool alive0[NOBJ];    /* expected liveness of the objects */

static void lnk(RE *a, RE *b) { a->rightRingEntry = b; b->leftRingEntry = a; }
/* scope exit of a handle: the front end does not run a non-virtual destructor on delete
   (checked by the fidelity group), so the real destructor is called explicitly */
static void destroy_handle(@H@ *h) { if (h) { h->~@H@(); delete h; } }
static int count_att(int o) { int n = 0; for (int i = 0; i < NH; ++i) if (hlive[i] && att[i] == o) ++n; return n; }

static void build_state() {
  for (int o = 0; o < NOBJ; ++o) {
    obj[o] = new @M@();
    obj[o]->ghost_id = o; g_destroyed[o] = 0; @AFTER_NEW@
    if (nondet_bool()) obj[o]->@M@::dontUseRefs();
    useRefs0[o] = obj[o]->@RING@.useRefs;
    alive0[o] = true;
  }
  for (int i = 0; i < K; ++i) {
    hd[i] = new @H@();
    hlive[i] = true;
    int a = nondet_int(); __CPROVER_assume(-1 <= a && a < NOBJ);
    att[i] = a;
    hd[i]->@P@ = (a < 0) ? (@M@*) 0 : obj[a];
  }
  hd[K] = 0; hlive[K] = false; att[K] = -1;
  /* arbitrary ring order: a nondeterministic permutation of the handles */
  int perm[K];
  for (int k = 0; k < K; ++k) { perm[k] = nondet_int(); __CPROVER_assume(0 <= perm[k] && perm[k] < K);
    for (int j = 0; j < k; ++j) __CPROVER_assume(perm[j] != perm[k]); }
  for (int o = 0; o < NOBJ; ++o) {
    @H@ *first = 0, *prev = 0;
    for (int k = 0; k < K; ++k) {
      int i = perm[k];
      if (att[i] != o) continue;
      if (!first) first = hd[i]; else lnk(prev, hd[i]);
      prev = hd[i];
    }
    if (first) { lnk(prev, first); obj[o]->@RING@.head = first; }
  }
}

/* invariant I over the expected attachments */
static void check_I() {
  for (int o = 0; o < NOBJ; ++o) {
    __CPROVER_assert(g_destroyed[o] <= 1, "backend object is destroyed at most once");
    __CPROVER_assert((g_destroyed[o] == 0) == alive0[o], "backend object is destroyed iff it lost its last reference or was freed");
    if (alive0[o]) __CPROVER_assert(verif_alive(obj[o], sizeof(@M@)), "live backend object is still allocated");
  }
  for (int i = 0; i < NH; ++i) {
    if (!hlive[i]) continue;
    @M@ *want = (att[i] < 0) ? (@M@*) 0 : obj[att[i]];
    __CPROVER_assert(hd[i]->@P@ == want, "handle refers to the expected backend object (NULL after free/last release)");
    __CPROVER_assert(hd[i]->isInitialized() == (att[i] >= 0), "isInitialized() iff the handle refers to a live object");
    if (att[i] < 0)
      __CPROVER_assert(hd[i]->leftRingEntry == hd[i] && hd[i]->rightRingEntry == hd[i], "unattached handle is not linked in any ring");
  }
  for (int o = 0; o < NOBJ; ++o) {
    if (!alive0[o]) continue;
    __CPROVER_assert(obj[o]->@RING@.useRefs == useRefs0[o], "useRefs flag as expected");
    int want = count_att(o);
    RE *head = obj[o]->@RING@.head;
    __CPROVER_assert((head == 0) == (want == 0), "ring is empty iff no handle refers to the object");
    int n = 0;
    if (head) {
      RE *p = head;
      do {
        bool member = false;
        for (int i = 0; i < NH; ++i) if (hlive[i] && att[i] == o && (RE*) hd[i] == p) member = true;
        __CPROVER_assert(member, "every ring entry is a live handle that refers to this object");
        if (!member) break;
        __CPROVER_assert(p->rightRingEntry->leftRingEntry == p, "ring links are consistent");
        ++n;
        p = p->rightRingEntry;
      } while (p != head && n <= NH);
      __CPROVER_assert(p == head, "ring is circular");
    }
    __CPROVER_assert(n == want, "ring holds exactly the handles that refer to the object");
  }
}

/* spec bookkeeping */
static void release(int o) {   /* object o may have lost its last reference */
  if (o >= 0 && alive0[o] && useRefs0[o] && count_att(o) == 0) alive0[o] = false;
}
static void destroy_obj(int o) {
  alive0[o] = false;
  for (int i = 0; i < NH; ++i) if (hlive[i] && att[i] == o) att[i] = -1;
}

extern "C" void h_step() {
  build_state();
  int op = nondet_int();
  /* handle indices are interchangeable (attachments and ring order are fully symbolic), so without loss of
     generality the operation acts on handle 0 and its second operand is handle 0 itself or handle 1 */
  int i = 0, j = nondet_bool() ? 0 : 1;
  __CPROVER_assume(0 <= op && op <= @MAXOP@);
#ifdef VERIF_OP
  __CPROVER_assume(op == VERIF_OP);   /* one obligation group per operation kind */
#endif
  if (op == 0) {            /* copy-construct a new handle from hd[j] */
    hd[K] = new @H@(*hd[j]); hlive[K] = true; att[K] = att[j];
  } else if (op == 1) {     /* assignment */
    int old = att[i];
    *hd[i] = *hd[j];
    att[i] = att[j]; release(old);
  } else if (op == 2) {     /* explicit free() */
    int o = att[i];
    hd[i]->free();
    if (o >= 0) destroy_obj(o);
  } else if (op == 3) {     /* destruction (scope exit) */
    int old = att[i];
    destroy_handle(hd[i]);
    hlive[i] = false; release(old);
  } else if (op == 4) {     /* dontUseRefs */
    hd[i]->dontUseRefs();
    if (att[i] >= 0) useRefs0[att[i]] = false;
  } else if (op == 5) {     /* wrap a backend object in a new handle */
    int o = nondet_int(); __CPROVER_assume(0 <= o && o < NOBJ);
    hd[K] = new @H@(obj[o]); hlive[K] = true; att[K] = o;
  } else if (op == 6) {     /* default-construct, then assign */
    hd[K] = new @H@(); hlive[K] = true; att[K] = -1;
    *hd[K] = *hd[j]; att[K] = att[j];
  }
@EXTRA_OPS@
  check_I();
#ifdef CANARY
  __CPROVER_assert(op < 0, "canary");
#endif
}

extern "C" void h_free_law() {
  /* after free(), every handle that referred to the object reports isInitialized() == false */
  build_state();
  int i = 0;    /* w.l.o.g., see h_step */
  int o = att[i];
  hd[i]->free();
  for (int k = 0; k < K; ++k)
    if (att[k] == o && o >= 0)
      __CPROVER_assert(!hd[k]->isInitialized(), "after free() every handle that referred to the object reports isInitialized() == false");
    else
      __CPROVER_assert(hd[k]->isInitialized() == (att[k] >= 0), "free() does not affect handles of other objects");
  if (o >= 0) __CPROVER_assert(g_destroyed[o] == 1, "free() destroys the backend object exactly once");
#ifdef CANARY
  __CPROVER_assert(o < 0, "canary");
#endif
}

extern "C" void h_drain() {
  /* from any invariant state, destroying every handle destroys every ref-counted object exactly once */
  build_state();
  for (int i = 0; i < K; ++i) { int old = att[i]; destroy_handle(hd[i]); hlive[i] = false; release(old); }
  for (int o = 0; o < NOBJ; ++o) {
    __CPROVER_assert(g_destroyed[o] == (alive0[o] ? 0 : 1), "after all handles are gone every ref-counted object that had a handle is destroyed exactly once (no leak), others are untouched");
    if (alive0[o]) __CPROVER_assert(verif_alive(obj[o], sizeof(@M@)), "object without ref-counted handles is still allocated");
  }
#ifdef CANARY
  __CPROVER_assert(alive0[0], "canary");
#endif
}
'''


def family_unit(ctx, fam, gc_text):
    f = FAMILIES[fam]
    hs, ms = sigs(f)
    fns, texts = [], []
    for rx, name in hs:
        e = extract_function(ctx, f['hfile'], rx, name=name)
        fns.append(e)
        texts.append(e.text)
    for rx, name in ms:
        e = extract_function(ctx, f['mfile'], rx, name=name)
        fns.append(e)
        texts.append(e.text)
    real = '\n\n'.join(texts)
    real, n = re.subn(r'\bnullptr\b', '0', real)
    if n:
        fns[0].rules.append(('nullptr -> 0 (keyword unsupported by the front end)', n))
    real, n = re.subn(r'\bdelete\s+([A-Za-z_]\w*)\s*;', r'verif_delete(\1);', real)
    if n < 1:
        raise Undecided('rewrite rule "delete p; -> destructor call + deallocation" did not fire for family ' + fam)
    fns[0].rules.append(('delete p; -> verif_delete(p) = { if (p) { p->~T(); delete p; } }: the front end does not run '
                         'destructors on delete ([expr.delete] semantics made explicit; checked by the fidelity group)', n))
    extra_ops, maxop = '', 6
    if f['swap']:
        maxop += 1
        extra_ops += '''  if (op == %d) {     /* swap */
    hd[i]->swap(*hd[j]);
    int t = att[i]; att[i] = att[j]; att[j] = t;
  }
''' % maxop
    if f['rawassign']:
        maxop += 1
        extra_ops += '''  if (op == %d) {     /* assign a raw backend object */
    int o = nondet_int(); __CPROVER_assume(0 <= o && o < NOBJ);
    int old = att[i];
    *hd[i] = obj[o];
    att[i] = o; release(old);
  }
''' % maxop
    t = FAMILY_TEMPLATE
    rep = {
        '@STUBS@': f['stubs'], '@H@': f['H'], '@M@': f['M'], '@P@': f['P'], '@RING@': f['ring'],
        '@SET@': f['SET'], '@RM@': f['RM'], '@ADD@': f['ADD'], '@MRM@': f['MRM'],
        '@ISINIT_CONST@': 'const' if f['isinit_const'] else '',
        '@SWAP_DECL@': ('%s& swap(%s &m);' % (f['H'], f['H'])) if f['swap'] else '',
        '@RAWASSIGN_DECL@': ('%s& operator = (%s *p_);' % (f['H'], f['M'])) if f['rawassign'] else '',
        '@MODE_EXTRA_DECL@': f['mode_extra_decl'], '@MODE_CTOR@': f['mode_ctor'],
        '@REAL_TEXT@': real, '@EXTRA_OPS@': extra_ops, '@MAXOP@': str(maxop),
        '@STUB_DEFS@': f['stub_defs'], '@AFTER_NEW@': f.get('after_new', ''),
        '@DELETE_OVERLOADS@': f.get('delete_overloads', ''),
    }
    for k in ['@STUBS@', '@STUB_DEFS@', '@DELETE_OVERLOADS@', '@AFTER_NEW@', '@REAL_TEXT@', '@EXTRA_OPS@', '@SWAP_DECL@', '@RAWASSIGN_DECL@', '@MODE_EXTRA_DECL@',
              '@MODE_CTOR@', '@ISINIT_CONST@', '@MAXOP@', '@RING@', '@SET@', '@RM@', '@ADD@', '@MRM@', '@H@', '@M@', '@P@']:
        t = t.replace(k, rep[k])
    return gc_text + t, fns, maxop


FIDELITY = r'''
#include <verif_base.h>
/* front-end fidelity self-test: facts about CBMC's C++ front end that the handle harness relies on */
static int cnt = 0;
struct NV { int x; NV() : x(1) {} ~NV(); };
NV::~NV() { ++cnt; }
struct VD { int x; VD() : x(1) {} virtual ~VD(); };
VD::~VD() { ++cnt; }
extern "C" void h_fidelity() {
  NV *a = new NV(); a->~NV(); delete a;
  __CPROVER_assert(cnt == 1, "fidelity: explicit destructor call + delete of a class with non-virtual destructor runs the destructor exactly once");
  VD *v = new VD(); v->~VD(); delete v;
  __CPROVER_assert(cnt == 2, "fidelity: explicit destructor call + delete of a class with virtual destructor runs the destructor exactly once");
  { NV n; }
  __CPROVER_assert(cnt == 3, "fidelity: automatic object is destroyed at scope exit");
#ifdef CANARY
  __CPROVER_assert(cnt != 3, "canary");
#endif
}
'''


def build(ctx):
    gc_text, gcfiles = gc_unit(ctx)
    groups = [Group(name='frontend-fidelity/destructors', sources={'fid.cpp': FIDELITY}, entry='h_fidelity', lang='cpp',
                    min_obligations=3, canary='CANARY', canary_label='canary', unwind=2, timeout=120,
                    note='self-test of the front-end behaviour the handle harness depends on')]
    ring_src = gc_text + RING_HARNESS
    for entry, mino, unwind in [('h_entry_removeRef', 5, 2), ('h_ring_addRef', 10, 2),
                                ('h_ring_removeRef', 8, 2), ('h_ring_misc', 6, 5)]:
        groups.append(Group(
            name='ring/' + entry[2:], sources={'ring.cpp': ring_src, 'helper.c': HELPER_C}, entry=entry, lang='cpp',
            unwind=unwind, min_obligations=mino, functions=gcfiles, canary='CANARY', canary_label='canary',
            strength='proof' if entry != 'h_ring_misc' else 'bounded',
            bound='' if entry != 'h_ring_misc' else 'ring_t::length on rings of <= 3 entries',
            object_bits=10, timeout=300, ignore=r'^verif_alive: \[pointer_primitives\]',
            note='gc.hpp/gc.tpp/gc.cpp compiled whole and unmodified; rings of any length via dangling outer links',
            replay=None))
    fams = list(FAMILIES)
    ks = [2] if ctx.tier == 'quick' else [2, 3]
    for fam in fams:
        src, fns, maxop = family_unit(ctx, fam, gc_text)
        opnames = ['copy-construct', 'assign', 'free', 'destroy', 'dontUseRefs', 'wrap-raw', 'default+assign', 'op7', 'op8']
        if FAMILIES[fam]['swap']:
            opnames[7] = 'swap'
        if FAMILIES[fam]['rawassign']:
            opnames[7] = 'assign-raw'
        todo = []
        for k in ks:
            variants = [('h_step', 'step-' + opnames[op], ['VERIF_OP=%d' % op]) for op in range(maxop + 1)]
            variants += [('h_free_law', 'free_law', []), ('h_drain', 'drain', [])]
            todo += [(k, v) for v in variants]
        if ctx.tier == 'quick' and FAMILIES[fam]['swap']:
            # swap exchanges two handles while a third may refer to one of the objects: needs K=3 to show
            todo.append((3, ('h_step', 'step-swap', ['VERIF_OP=7'])))
        for k, (entry, vname, defs) in todo:
            if True:
                groups.append(Group(
                    name='handle/%s/%s/K=%d' % (fam, vname, k), sources={'family.cpp': src, 'helper.c': HELPER_C},
                    entry=entry, lang='cpp', unwind=k + 3, defines=['VERIF_K=%d' % k] + defs, min_obligations=10,
                    functions=fns + gcfiles, canary_label='canary', strength='proof',
                    # the must-fail canary doubles a group's cost: in the quick tier it is run for the groups that share
                    # the state builder's reachability with all others (destroy, free_law, drain); thorough runs it everywhere
                    canary='CANARY' if (ctx.tier != 'quick' or vname in ('step-destroy', 'free_law', 'drain')) else None,
                    bound='inductive step over K=%d handles, 2 backend objects (history length unbounded)' % k,
                    object_bits=10, timeout=2400, ignore=r'^verif_alive: \[pointer_primitives\]',
                    param='family=%s K=%d' % (fam, k),
                    replay=replay_C01.make_replay(fam)))
    return groups
