"""C24 - JSON dump and parse round-trip every value: the string / object-key escaping codec.

The `case string_` block and the key emission of json::dumpToString, json::loadString and the quoted-key
branch of json::loadObjectField are cut out of src/types/json.cpp by anchored markers and compiled by CBMC's
C++ front end against the fixed-capacity std::string stub.  Contract: for every byte string s without NUL up
to a length bound, loading the dumped text yields s and consumes exactly the dumped text; same for keys.
"""
import os
import re

from vp.core import Group, Undecided
from vp.extract import extract_function, extract_block, extract_span, rewrite
from vp import replay_C24

LEVEL = 'other'
EXPLANATION = ('The string escaping codec of occa::json is checked on its real text: the `case string_` block of '
               'json::dumpToString (pasted back into a switch over the real enumerators), the object-key emission of '
               'the `case object_` block, json::loadString and the quoted-key branch of json::loadObjectField.  For '
               'every byte string s without NUL up to the length bound, loadString(dump(s)) yields s, ends exactly '
               'at the end of the dumped text, raises nothing, and the dumped text is one well-formed string token; '
               'the same for object keys (the loaded key equals the original, the cursor stops at the colon).  '
               'Bounded by the string length; every loop is unwound with unwinding assertions.')
TRUSTED = ['cbmc 6.11.0 C++ front end, SAT back end',
           'stubs/string: fixed-capacity std::string (capacity asserted on every append); stubs/c24_json.h: '
           'OCCA_ERROR / OCCA_FORCE_ERROR as assert-then-stop',
           'class skeleton of occa::json: the real enum type_t, members type and value_.string, the string '
           'constructor; dumpToString reduced to a switch around the real `case string_` block']
ASSUMPTIONS = ['strings and keys contain no NUL byte (c_str()-based loader) and have length <= bound',
               'indentation strings are empty in the key harness (indentation is emitted outside the extracted span)',
               'char is signed 8-bit (bytes >= 0x80 are negative chars), as on the supported targets']
NOT_REACHED = ['numbers (primitive::toString / primitive::load)', 'nesting of arrays and objects, indentation',
               'unquoted keys (lex::skipTo path of loadObjectField)', 'json::hash, operator ==',
               'determinism of dump is by construction (no state besides the value is read by the extracted text)']

JSON_CPP = 'src/types/json.cpp'
JSON_HPP = 'include/occa/types/json.hpp'


def unit(ctx):
    fns = []
    enum = extract_block(ctx, JSON_HPP, r'^\s*enum type_t \{', name='json::type_t')
    ctor = extract_function(ctx, JSON_HPP, r'^\s*inline json\(const std::string &value\) :', name='json::json(const std::string&)')
    case = extract_block(ctx, JSON_CPP, r'^\s*case string_: \{(?=\n\s*out \+= )', name='json::dumpToString case string_')
    # key emission: from the indentation of the entry to the test that starts the value emission
    keyspan = extract_span(ctx, JSON_CPP, r'^\s*const std::string &key = it->first;\n\s*const json &value = it->second;\n', r'(?=^\s*if \(value\.type != none_\) \{)',
                           name='json::dumpToString object key emission')
    load = extract_function(ctx, JSON_CPP, r'^  void json::loadString\(const char \*&c\) \{', name='json::loadString')
    qkey = extract_block(ctx, JSON_CPP, r'^\s*if \(\*c == \'"\'\) \{(?=\n\s*json jKey;)', name='json::loadObjectField quoted-key branch')
    fns = [enum, ctor, case, keyspan, load, qkey]
    # other cases of the two switches that the key span may reach through json(key).dumpToString are not needed:
    # the skeleton's dumpToString is the real string_ case inside a switch over the real enumerators
    helpers = ''
    src = '''#include <c24_json.h>
int verif_raised = 0;
bool verif_raise_allowed = false;
namespace occa {
  /* skeleton of jsonValue_t / json: only what the extracted text mentions */
  typedef struct { std::string string; } jsonValue_t;
  class json {
  public:
%(enum)s;
    type_t type;
    jsonValue_t value_;
    json() { type = none_; }
%(ctor)s
    void dumpToString(std::string &out, const std::string &indent = "", const std::string &currentIndent = "") const;
    void verif_dumpKey(std::string &out, const std::string &key) const;
    void loadString(const char *&c);
    void verif_loadQuotedKey(const char *&c, std::string &key);
  };
%(helpers)s
  /* the real `case string_` block in a switch over the real enumerators */
  void json::dumpToString(std::string &out, const std::string &indent, const std::string &currentIndent) const {
    switch (type) {
%(case)s
    default: break;
    }
  }
  /* the real key emission of the `case object_` block; indentation strings empty */
  struct verif_jsonEntry { std::string first; json second; };      /* what the map iterator points to */
  void json::verif_dumpKey(std::string &out, const std::string &key_) const {
    const std::string indent, newIndent;
    verif_jsonEntry entry_; entry_.first = key_;
    const verif_jsonEntry *it = &entry_;
%(keyspan)s
  }
%(load)s
  /* the real quoted-key branch of loadObjectField */
  void json::verif_loadQuotedKey(const char *&c, std::string &key) {
%(qkey)s
  }
}
''' % {'enum': enum.text, 'ctor': ctor.text, 'helpers': helpers, 'case': case.text, 'keyspan': keyspan.text,
       'load': load.text, 'qkey': qkey.text}
    return src, fns


HARNESS = r'''
using namespace occa;
#define N @N@

static std::string any_string() {
  std::string s;
  size_t n = nondet_ulong();
  __CPROVER_assume(n <= N);
  for (size_t i = 0; i < N; ++i) {
    char ch = nondet_char();
    __CPROVER_assume(ch != 0);
    if (i < n) s += ch;
  }
  return s;
}

extern "C" void h_value_roundtrip() {
  std::string s = any_string();
  json j(s);
  std::string t;
  j.dumpToString(t);
  __CPROVER_assert(t.size() >= 2 && t[0] == '"' && t[t.size() - 1] == '"', "a dumped string value is enclosed in double quotes");
  const char *c = t.c_str();
  json k;
  k.loadString(c);
  __CPROVER_assert(k.type == json::string_, "loadString yields a string value");
  __CPROVER_assert(k.value_.string == s, "loading a dumped string value yields the original string");
  __CPROVER_assert(c == t.c_str() + t.size(), "loading a dumped string value consumes exactly the dumped text");
#ifdef CANARY
  __CPROVER_assert(t.size() != 5, "canary");
#endif
}

extern "C" void h_key_roundtrip() {
  std::string s = any_string();
  __CPROVER_assume(s.size() > 0);                       /* keys of size 0 are rejected by loadObjectField */
  json obj;
  std::string t;
  obj.verif_dumpKey(t, s);
  __CPROVER_assert(t.size() >= 4 && t[0] == '"' && t[t.size() - 2] == ':' && t[t.size() - 1] == ' ' && t[t.size() - 3] == '"',
                   "a dumped key is a double-quoted token followed by a colon and a space");
  const char *c = t.c_str();
  json k;
  std::string key;
  __CPROVER_assert(*c == '"', "a dumped key takes the quoted-key branch of loadObjectField");
  k.verif_loadQuotedKey(c, key);
  __CPROVER_assert(key == s, "loading a dumped object key yields the original key");
  __CPROVER_assert(c == t.c_str() + t.size() - 2, "loading a dumped object key stops exactly at the colon");
#ifdef CANARY
  __CPROVER_assert(t.size() != 6, "canary");
#endif
}

static bool is_hex(char c) { return ('0' <= c && c <= '9') || ('a' <= c && c <= 'f') || ('A' <= c && c <= 'F'); }
extern "C" void h_unicode_escape_kept() {
  /* helper contract taken from the code (dump never emits \u): "\uXXXX" is kept verbatim as six characters, so
     that dumping the loaded value (backslash escaped) and loading it again is stable; a non-hex digit raises */
  char t[10];
  t[0] = '"'; t[1] = '\\'; t[2] = 'u';
  for (int i = 3; i < 7; ++i) { t[i] = nondet_char(); __CPROVER_assume(t[i] != 0); }
  t[7] = '"'; t[8] = nondet_char(); t[9] = 0;
  bool hex = is_hex(t[3]) && is_hex(t[4]) && is_hex(t[5]) && is_hex(t[6]);
  verif_raise_allowed = !hex;
  const char *c = t;
  json k;
  k.loadString(c);
  __CPROVER_assert(hex, "loadString raises on a \\u escape with a non-hex digit");
  __CPROVER_assert(c == t + 8, "loadString consumes exactly the string token containing a \\u escape");
  __CPROVER_assert(k.value_.string.size() == 6 && k.value_.string[0] == '\\' && k.value_.string[1] == 'u' &&
                   k.value_.string[2] == t[3] && k.value_.string[3] == t[4] && k.value_.string[4] == t[5] && k.value_.string[5] == t[6],
                   "loadString keeps a \\uXXXX escape verbatim");
  std::string d;
  k.dumpToString(d);
  const char *c2 = d.c_str();
  json k2;
  verif_raise_allowed = false;
  k2.loadString(c2);
  __CPROVER_assert(k2.value_.string == k.value_.string, "a value loaded from a \\u escape round-trips through dump and load");
#ifdef CANARY
  __CPROVER_assert(t[3] != 'a', "canary");
#endif
}

extern "C" void h_dump_injective() {
  /* equal text only for equal values (with determinism: equal values <=> equal text) */
  std::string a = any_string(), b = any_string();
  json ja(a), jb(b);
  std::string ta, tb;
  ja.dumpToString(ta); jb.dumpToString(tb);
  if (ta == tb) __CPROVER_assert(a == b, "different string values never dump to the same text");
  if (a == b) __CPROVER_assert(ta == tb, "equal string values dump to equal text");
#ifdef CANARY
  __CPROVER_assert(!(ta == tb), "canary");
#endif
}
'''


def build(ctx):
    n = 6 if ctx.tier == 'thorough' else 4
    src, fns = unit(ctx)
    text = src + HARNESS.replace('@N@', str(n))
    groups = []
    for entry, mino in [('h_value_roundtrip', 5), ('h_key_roundtrip', 5), ('h_dump_injective', 2), ('h_unicode_escape_kept', 4)]:
        groups.append(Group(
            name='codec/' + entry[2:], sources={'json_codec.cpp': text}, entry=entry, lang='cpp',
            unwind=2 * n + 6, min_obligations=mino, functions=fns, canary='CANARY', canary_label='canary',
            strength='bounded', bound='byte strings without NUL of length <= %d' % n,
            timeout=(3600 if ctx.tier == 'thorough' else 300), object_bits=10,
            replay=replay_C24.replay_codec))
    only = os.environ.get('VERIF_GROUPS')          # development aid: regex on group names
    if only:
        groups = [g for g in groups if re.search(only, g.name)]
    return groups
