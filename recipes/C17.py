"""C17 - every backend visits exactly the iterations of each OKL loop.

Translation validation with a deductive back end (Engine B, DESIGN 3.2/5):
each enumerated loop header is written into an OKL kernel, translated by the
real `occa translate` built from the tree under verification, and the emitted
launch-size statements / index maps / kept loop headers are pasted verbatim
into C harnesses whose postcondition is the property's own statement.
"""
import functools
import os
import random
import re

from vp.core import Group, Undecided
from vp import engine_b as eb

LEVEL = 'translation_validation'
EXPLANATION = ('Every loop header of an enumerated family (initializer x comparison x operand order x bound '
               'expression class x update x @outer/@inner position, plus two-level nests) is translated by the real '
               'translator for CUDA, HIP, OpenCL, Metal, DPC++ (launcher and device source) and Serial/OpenMP. '
               'The emitted `outer[k] = E;` / `inner[k] = E;` statements and the emitted `int it = init +- (step * idx);` '
               'declarations are pasted verbatim into C harnesses; CBMC proves for all run-time operand values in the stated '
               'box, with a ghost index j instead of a quantifier, that index j is launched iff the j-th iterate of the '
               'sequential loop satisfies the source check (empty loops: nothing launched) and that launched index j '
               'computes exactly the j-th iterate, reading the index register that carries that launcher dimension. '
               'For Serial/OpenMP the kept header is proved equivalent part by part (init, check, update) to the source header.')
TRUSTED = ['cbmc 6.11.0 C front end, SAT back end (cadical)',
           'the harness generator (recipes/C17.py, vp/engine_b.py): parsing of the emitted text into statements, '
           'the meaning of the source header (written out as C by the generator from the same strings that form the OKL text)',
           'index-register model per back end (vp/engine_b.py INDEX_PRELUDE): CUDA/HIP blockIdx/threadIdx are unsigned int, '
           'OpenCL get_group_id/get_local_id and SYCL get_group/get_local_id return a 64-bit size_t, Metal positions are uint; '
           'launcher dimension k is carried by .x/.y/.z, get_*_id(k), resp. SYCL dimension 2-k (as in src/occa/internal/modes/*/kernel.cpp)',
           'occa::dim elements are udim_t = unsigned long (include/occa/types/dim.hpp); a dimension of 0 makes the launch a no-op '
           '(modeKernel_t::isNoop)']
ASSUMPTIONS = ['run-time operands N, a, b, c are ints with |v| <= 2^28 (so that neither the sequential loop nor a correctly '
               'parenthesised launch-size formula overflows int); run-time steps are case-split over 1..16',
               'direction-consistent headers only (< / <= with an increasing update, > / >= with a decreasing one)',
               'loop bounds do not depend on other loop iterators',
               'unsigned -> int conversion of the emitted index expression is modular (gcc/clang/nvcc); --conversion-check is off',
               'the enumerated family is checked program by program; nothing is claimed for headers outside it']
NOT_REACHED = ['direction-inconsistent headers (e.g. `i > N; ++i`), which the translator accepts and which are empty or overflow',
               'bounds that depend on an enclosing iterator; iterator types other than int',
               'multiple kernels / several outer-most @outer loops per kernel; @tile-generated loops (see C18)',
               'the run-time half of a launch (occa::kernel::run, back-end launch calls)']

PARAMS = ['N', 'a', 'b', 'c', 's']
SIG = ', '.join('const int ' + p for p in PARAMS)
ARGS = ', '.join(PARAMS)
V = '(1 << 28)'

INITS = {'0': '0', 'a': 'a', 'a+b': 'a + b', 'c?a:b': 'c ? a : b', 'a>>1': 'a >> 1'}
BOUNDS = {'N': 'N', '-N': '-N', 'N*2': 'N * 2', 'N+b': 'N + b', 'N-b': 'N - b', 'N>>1': 'N >> 1',
          '(c?N:b)': '(c ? N : b)', '(N&7)': '(N & 7)', '(N+b)': '(N + b)'}
FAMILY_BOUNDS = list(BOUNDS)
BOUNDS['4'] = '4'                 # constant partner loop only
OPS = {'lt': '<', 'le': '<=', 'gt': '>', 'ge': '>='}
# (comparison, iterator side) -> direction
CMPS = {'ltL': ('lt', 'L', +1), 'leL': ('le', 'L', +1), 'gtR': ('gt', 'R', +1), 'geR': ('ge', 'R', +1),
        'gtL': ('gt', 'L', -1), 'geL': ('ge', 'L', -1), 'ltR': ('lt', 'R', -1), 'leR': ('le', 'R', -1)}
LIT_UPDATES = {+1: {'pre++': ('++{i}', '1'), 'post++': ('{i}++', '1'), '+=1': ('{i} += 1', '1'), '+=2': ('{i} += 2', '2'),
                    '+=3': ('{i} += 3', '3'), '+=7': ('{i} += 7', '7')},
               -1: {'pre--': ('--{i}', '1'), 'post--': ('{i}--', '1'), '-=1': ('{i} -= 1', '1'), '-=2': ('{i} -= 2', '2'),
                    '-=3': ('{i} -= 3', '3'), '-=7': ('{i} -= 7', '7')}}
RT_UPDATES = {+1: {'+=s': ('{i} += s', 's'), '+=s+1': ('{i} += s + 1', 's + 1')},
              -1: {'-=s': ('{i} -= s', 's'), '-=s+1': ('{i} -= s + 1', 's + 1')}}
RT_CASES = {'s': list(range(1, 17)), 's + 1': list(range(0, 16))}      # values of s; the step is 1..16


class Header:
    """One loop header of the family."""

    def __init__(self, it, init, cmp, upd, bound):
        self.it, self.init, self.cmp, self.upd, self.bound = it, init, cmp, upd, bound
        self.op, self.side, self.dir = CMPS[cmp]
        table = dict(LIT_UPDATES[self.dir])
        table.update(RT_UPDATES[self.dir])
        self.upd_text, self.step = table[upd]
        self.upd_text = self.upd_text.format(i=it)
        self.runtime_step = upd in RT_UPDATES[self.dir]

    def check_text(self, it=None):
        it = it or self.it
        return ('%s %s %s' % (it, OPS[self.op], BOUNDS[self.bound]) if self.side == 'L'
                else '%s %s %s' % (BOUNDS[self.bound], OPS[self.op], it))

    def okl(self, attr):
        return 'for (int %s = %s; %s; %s; @%s)' % (self.it, INITS[self.init], self.check_text(), self.upd_text, attr)

    def c_loop(self):
        return 'for (int %s = %s; %s; %s)' % (self.it, INITS[self.init], self.check_text(), self.upd_text)

    def shape(self):
        return '%s/i%s/init=%s/bound=%s' % (self.cmp, self.upd, self.init, self.bound)

    def cases(self):
        return RT_CASES[self.step] if self.runtime_step else None


class Program:
    def __init__(self, loops, tested, tag):
        """loops: [(attr, Header)] in nesting order; tested: iterator names."""
        self.loops, self.tested, self.tag = loops, tested, tag
        body = '    out[0] = %s;\n' % ' + '.join(h.it for _, h in loops)
        text = ''
        for d, (attr, h) in enumerate(loops):
            text += '  ' * (d + 1) + h.okl(attr) + ' {\n'
        text += '  ' * (len(loops) + 1) + body.strip() + '\n'
        for d in reversed(range(len(loops))):
            text += '  ' * (d + 1) + '}\n'
        self.okl = '@kernel void %s(%s, int *out) {\n%s}\n' % (eb.KNAME, SIG, text)

    def header(self, it):
        for attr, h in self.loops:
            if h.it == it:
                return attr, h
        raise KeyError(it)


def partner():
    # constant partner loop `for (int t = 0; t < 4; ++t)`
    return Header('t', '0', 'ltL', 'pre++', '4')


def base_program(pos, h):
    if pos == 'outer':
        return Program([('outer', h), ('inner', partner())], ['i'], 'base')
    return Program([('outer', partner()), ('inner', h)], ['i'], 'base')


def family(tier, seed):
    """[(pos, Header)] of the base family + nest programs."""
    full = []
    for pos in ('outer', 'inner'):
        for cmp, (op, side, d) in CMPS.items():
            for init in INITS:
                for bound in FAMILY_BOUNDS:
                    for upd in LIT_UPDATES[d]:
                        full.append((pos, Header('i', init, cmp, upd, bound)))
            for init in ('a',):
                for bound in ('N', 'N+b', 'N>>1'):
                    for upd in RT_UPDATES[d]:
                        full.append((pos, Header('i', init, cmp, upd, bound)))
    return full


# shapes behind the defects listed in DESIGN 7 / known findings: always in the quick tier
FINDING_SHAPES = [
    ('outer', 'gtL', '-=2', 'N', 'N+b'),      # `o > a + b; o -= 2`  -> (N - a + b + 2 - 1) / 2
    ('outer', 'gtL', 'pre--', 'a', 'N-b'),
    ('inner', 'geL', '-=3', 'a+b', 'N+b'),
    ('outer', 'ltR', 'post--', 'a', 'N+b'),
    ('inner', 'leL', '+=s', 'a', 'N>>1'),     # `i <= N >> 1; i += s` -> (1 + N >> 1 - a + s - 1) / s
    ('outer', 'ltL', 'pre++', 'a', 'N>>1'),
    ('outer', 'geR', '+=2', '0', 'N>>1'),
    ('inner', 'gtL', '-=7', 'c?a:b', 'N>>1'),
    ('outer', 'ltL', '+=3', 'a', 'N'),        # empty range: N=0, a=5 -> (0 - 5 + 3 - 1) / 3 = -1
    ('inner', 'ltL', 'pre++', '0', 'N'),
    ('outer', 'leL', '+=s+1', 'a', 'N+b'),
    ('outer', 'gtL', '-=s', 'a', 'N+b'),
]


def nest_programs(n, seed):
    rnd = random.Random(seed * 7919 + 17)
    out = []
    for _ in range(n):
        loops = []
        for it, attr in (('p', 'outer'), ('q', 'outer'), ('u', 'inner'), ('v', 'inner')):
            cmp = rnd.choice(list(CMPS))
            d = CMPS[cmp][2]
            upd = rnd.choice(list(LIT_UPDATES[d]))
            loops.append((attr, Header(it, rnd.choice(list(INITS)), cmp, upd,
                                       rnd.choice(['N', '-N', 'N*2', '(c?N:b)', '(N&7)', '(N+b)', 'N+b', 'N>>1']))))
        out.append(Program(loops, ['p', 'q', 'u', 'v'], 'nest'))
    return out


# ------------------------------------------------------------------ harnesses

IPARAMS = ', '.join('int ' + p for p in PARAMS)

HELPERS = '''/* harness-side helpers; their arithmetic cannot overflow by construction (|init| < 2^30, j <= 2^33, step <= 2^28) */
#pragma CPROVER check push
#pragma CPROVER check disable "signed-overflow"
static long verif_iterate(long init, unsigned long j, long step, int dir) { return dir > 0 ? init + (long) j * step : init - (long) j * step; }
#pragma CPROVER check pop
/* a value the simplifier cannot fold (keeps every obligation a real solver goal) */
static int verif_opaque(int x) { int y = nondet_int(); __CPROVER_assume(y == x); return y; }
'''


def src_functions(h, with_bound=True):
    t = '/* meaning of the source loop header (from the OKL text)%s */\n' % (': `%s`' % h.c_loop() if with_bound else '')
    t += 'static int src_init(%s) { return %s; }\n' % (IPARAMS, INITS[h.init])
    if with_bound:
        t += 'static int src_bound(%s) { return %s; }\n' % (IPARAMS, BOUNDS[h.bound])
    t += 'static int src_step(%s) { return %s; }\n' % (IPARAMS, h.step)
    if with_bound:
        cond = ('((it) %s verif_bound)' if h.side == 'L' else '(verif_bound %s (it))') % OPS[h.op]
        t += '#define SRC_CHECK(it) %s\n' % cond
    t += '#define ITERATE(j) verif_iterate(verif_init, (j), verif_step, %d)\n' % h.dir
    return t


def operands(h):
    """run-time operands in the box; a run-time step is fixed per case (-DVERIF_S=k)"""
    decl = eb.int_params(PARAMS, '-' + V, V)
    if h.runtime_step:
        decl += '\n  __CPROVER_assume(s == VERIF_S);             /* case split of the run-time step */'
    return decl


def count_harness(prog, h, attr, L):
    kind, k, E, stmt = L['dims'][h.it]
    n_outer = sum(1 for a, _ in prog.loops if a == 'outer')
    n_inner = len(prog.loops) - n_outer
    emitted = '\n'.join('  %s;' % s for s in L['stmts'])
    return '''typedef unsigned long udim_t;
%s%s%s
void h(void) {
%s
  const long verif_init = src_init(%s), verif_bound = src_bound(%s), verif_step = src_step(%s);
  /* occa::dim elements (udim_t), any prior content */
  udim_t outer[3] = { nondet_ulong(), nondet_ulong(), nondet_ulong() }, inner[3] = { nondet_ulong(), nondet_ulong(), nondet_ulong() };
  /* ---- launch block emitted by `occa translate --launcher`, verbatim ---- */
%s
  /* ---- contract (property C17) ---- */
  __CPROVER_assert(verif_opaque(%d) == %d && verif_opaque(%d) == %d,
                   "launcher declares one dimension per @outer loop and one per @inner loop");
  __CPROVER_assert(verif_opaque(%d), "the count of an @%s loop is assigned to %s[]");
  const udim_t verif_dim = %s[%d];           /* launch size computed for loop `%s` */
  const udim_t verif_j = nondet_ulong();      /* ghost index instead of a quantifier */
  __CPROVER_assume(verif_j <= (1ul << 33));   /* beyond: see the second assertion */
  const long verif_xj = ITERATE(verif_j);     /* j-th iterate of the sequential loop */
#ifndef CANARY
  if (SRC_CHECK(verif_init)) {
    __CPROVER_assert((verif_j < verif_dim) == (SRC_CHECK(verif_xj) ? 1 : 0),
                     "launch count (non-empty source loop): index j is launched iff the j-th iterate of the sequential loop satisfies its check");
    __CPROVER_assert(verif_dim <= (1ul << 33),
                     "launch count (non-empty source loop): no index beyond the int range of iterates is launched");
  } else {
    __CPROVER_assert(verif_dim == 0,
                     "launch count (empty source loop): nothing is launched when the run-time bounds make the loop empty");
  }
#else
  __CPROVER_assert(!(SRC_CHECK(verif_xj) && verif_j >= 2), "canary: a loop with three iterations is reachable");
#endif
}
''' % (eb.NONDET_DECLS, HELPERS, src_functions(h),
       operands(h), ARGS, ARGS, ARGS,
       emitted,
       L['outer_dims'], n_outer, L['inner_dims'], n_inner,
       1 if kind == attr else 0, attr, attr,
       kind, k, h.it)


INDEX_PRELUDE_ALL = ('struct verif_uint3 { unsigned int x, y, z; };\n'
                     'static struct verif_uint3 blockIdx, threadIdx;   /* CUDA, HIP: uint3 built-ins */\n'
                     'static struct verif_uint3 _occa_group_position, _occa_thread_position;   /* Metal: uint3 kernel arguments */\n'
                     + eb.INDEX_PRELUDE['OpenCL'] + eb.INDEX_PRELUDE['dpcpp'].split('\n', 1)[1])


def index_check(h, mode, kind, k, decl_stmt, ishape):
    reg, rtype = eb.index_register(mode, kind, k)
    havoc = '\n'.join('  %s = nondet_u%s();' % (r, 'int' if t == 'unsigned int' else 'long')
                      for r, t in eb.index_registers(mode))
    return '''static void check_%s(%s, unsigned long verif_j) {
  const long verif_init = src_init(%s), verif_step = src_step(%s);
  const long verif_xj = ITERATE(verif_j);     /* j-th iterate of the sequential loop */
  __CPROVER_assume(-2147483648l <= verif_xj && verif_xj <= 2147483647l);   /* the sequential loop does not overflow */
  /* every index register arbitrary, except the one that carries launcher dimension %s[%d]
     (the emitted launcher assigns the size of loop `%s` to %s[%d]) */
%s
  %s = (%s) verif_j;
  {
    /* ---- declaration emitted by `occa translate --mode %s` for the iterator, verbatim ---- */
    %s;
    /* ---- contract (property C17) ---- */
#ifndef CANARY
    __CPROVER_assert((long) %s == verif_xj,
                     "index map [%s, %s]: launched index j gets the iterator value of the j-th sequential iteration");
#else
    __CPROVER_assert(!(verif_j == 2), "canary: index 2 is reachable");
#endif
  }
}
''' % (mode, IPARAMS, ARGS, ARGS, kind, k, h.it, kind, k, havoc, reg, rtype, mode, decl_stmt, h.it, ishape, mode)


def index_unit(h, per_mode, ishape, case):
    """One unit of an index-map batch: all launcher back ends of one (position, update, init) shape.
    per_mode: [(mode, kind, k, verbatim declaration)].  Names get the unit suffix @U@."""
    # back ends that emit the same declaration over the same register (CUDA and HIP) share one check
    merged = []
    for m, kind, k, d in per_mode:
        key = (d, eb.index_register(m, kind, k))
        for e in merged:
            if e[0] == key:
                e[1].append(m)
                break
        else:
            merged.append((key, [m], kind, k, d))
    checks = ''.join(index_check(h, ms[0], kind, k, d, ishape).replace('check_%s(' % ms[0], 'check_%s(' % '_'.join(ms))
                     .replace('[%s, %s]' % (ishape, ms[0]), '[%s, %s]' % (ishape, '+'.join(ms)))
                     for _, ms, kind, k, d in merged)
    calls = '\n'.join('  check_%s(%s, verif_j);' % ('_'.join(ms), ARGS) for _, ms, _, _, _ in merged)
    decl = eb.int_params(PARAMS, '-' + V, V)
    if case is not None:
        decl += '\n  __CPROVER_assume(s == %d);             /* case split of the run-time step */' % case
    text = '''%s
%s
static void unit(void) {
%s
  const unsigned long verif_j = nondet_ulong();      /* ghost index */
  __CPROVER_assume(verif_j <= (1ul << 31));
%s
}
''' % (src_functions(h, with_bound=False), checks, decl, calls)
    return re.sub(r'\b(src_init|src_step|ITERATE|unit|check_[A-Za-z_]+)\b', r'\1_@U@', text)


def index_batch(units):
    body = ''.join(u.replace('@U@', str(i)) for i, u in enumerate(units))
    return '''typedef unsigned long udim_t;
%s%s/* index registers of the back ends */
%s
%s
void h(void) {
%s}
''' % (eb.NONDET_DECLS, HELPERS, INDEX_PRELUDE_ALL, body, ''.join('  unit_%d();\n' % i for i in range(len(units))))


def kept_case(n, tag, h, f):
    """Equivalence of the kept `for` header (Serial/OpenMP) with the source header, part by part."""
    it = h.it
    return '''static void kept_%d(void) {
%s
  int verif_x = nondet_int(); __CPROVER_assume(-(1 << 30) <= verif_x && verif_x <= (1 << 30));
  { int verif_s = verif_opaque(%s); int verif_e = (%s);
    __CPROVER_assert(verif_s == verif_e, "kept loop %s: emitted initial value equals the source's"); }
  { int %s = verif_x; int verif_s = verif_opaque((%s) ? 1 : 0); int verif_e = (%s) ? 1 : 0;
    __CPROVER_assert(verif_s == verif_e, "kept loop %s: emitted check agrees with the source's for every iterator value"); }
  { int %s = verif_x; %s; int verif_s = verif_opaque(%s); %s = verif_x; %s; int verif_e = %s;
    __CPROVER_assert(verif_s == verif_e, "kept loop %s: emitted update steps like the source's"); }
#ifdef CANARY
  __CPROVER_assert(verif_x != 5, "canary: kept-loop case reachable");
#endif
}
''' % (n, eb.int_params(PARAMS, '-' + V, V, {'s': ('0', '16')}),
       INITS[h.init], f['init'], tag,
       it, h.check_text(), f['check'], tag,
       it, h.upd_text, it, it, f['update'], it, tag)


# -------------------------------------------------------------------- replay

def replay_index_batch(units, ctx, g, o, inputs):
    m = re.search(r'_(\d+)$', o.function or '')
    if not m or int(m.group(1)) >= len(units):
        return {'reproduced': False, 'error': 'failing unit not identified from %r' % o.function}
    prog, h, attr, per_mode, L, case = units[int(m.group(1))]
    return replay_launch(prog, h, attr, per_mode, L, case, ctx, g, o, inputs)


def replay_launch(prog, h, attr, per_mode, L, case, ctx, g, o, inputs):
    """Original loop and emitted launcher formula + index map, compiled by g++,
    run on the counterexample's operand values."""
    vals = dict((p, eb.trace_int(inputs, p)) for p in PARAMS)
    if case is not None:
        vals['s'] = case
    kind, k, E, stmt = L['dims'][h.it]
    mode = per_mode[0][0]
    m = re.match(r'check_([A-Za-z]+)', o.function or '')
    if m:
        for pm in per_mode:
            if pm[0] == m.group(1):
                mode = pm[0]
    decl_stmt = [pm[3] for pm in per_mode if pm[0] == mode][0]
    reg, rtype = eb.index_register(mode, kind, k)
    src = r'''#include <cstdio>
#include <cstdlib>
#include <vector>
typedef unsigned long udim_t;
%s
int main(int argc, char **argv) {
  const int N = atoi(argv[1]), a = atoi(argv[2]), b = atoi(argv[3]), c = atoi(argv[4]), s = atoi(argv[5]);
  const unsigned long CAP = 100000;
  std::vector<long> seq, par;
  unsigned long nseq = 0;
  /* the original sequential loop */
  %s { if (nseq < CAP) seq.push_back(%s); ++nseq; }
  /* the emitted launch block (mode %s) */
  udim_t outer[3] = {1, 1, 1}, inner[3] = {1, 1, 1};
%s
  const udim_t dim = %s[%d];
  /* the emitted index map, for every launched index (first CAP) */
  for (udim_t j = 0; j < dim && j < CAP; ++j) {
%s
    %s = (%s) j;
    { %s; par.push_back(%s); }
  }
  printf("N=%%d a=%%d b=%%d c=%%d s=%%d\n", N, a, b, c, s);
  printf("source loop `%s`: %%lu iterations:", nseq);
  for (size_t q = 0; q < seq.size() && q < 8; ++q) printf(" %%ld", seq[q]);
  printf("\nemitted `%s` and `%s`: %%lu launched:", (unsigned long) dim);
  for (size_t q = 0; q < par.size() && q < 8; ++q) printf(" %%ld", par[q]);
  printf("\n");
  bool same = (nseq == dim) && seq == par;
  printf(same ? "SAME\n" : "DIFFERENT\n");
  return same ? 0 : 1;
}
''' % (eb.INDEX_PRELUDE[mode], h.c_loop(), h.it, mode,
       '\n'.join('  %s;' % s for s in L['stmts']), kind, k,
       '\n'.join('    %s = 12345;   /* every other index register: arbitrary */' % r for r, _ in eb.index_registers(mode)),
       reg, rtype, decl_stmt, h.it,
       h.c_loop().replace('%', '%%'), stmt.replace('%', '%%').replace('\n', ' '),
       decl_stmt.replace('%', '%%').replace('\n', ' '))
    # the counterexample first; if CBMC's values do not show it natively (e.g. the failure is UB in the
    # emitted formula), a few fixed operand vectors from DESIGN 7
    cand = [vals] + [dict(vals, **d) for d in (
        {'N': 0, 'a': 5, 'b': 0}, {'N': 10, 'a': 2, 'b': 3, 'c': 1}, {'N': -10, 'a': -2, 'b': 3, 'c': 1},
        {'N': 100, 'a': 3, 'b': 20, 'c': 0}, {'N': -100, 'a': -3, 'b': 20, 'c': 0})]
    last = None
    for v in cand:
        rc, out = eb.native_run(ctx, 'replay_c17', src, args=[v[p] for p in PARAMS], timeout=60)
        last = (v, rc, out)
        if rc == 1 and 'DIFFERENT' in out:
            from vp import replaylib
            p = replaylib.keep_replay_source(ctx, g, src)
            return {'reproduced': True, 'input': v, 'from_counterexample': v is vals, 'program': p,
                    'okl': prog.okl, 'mode': mode,
                    'how': 'original loop and emitted launcher statements + index declaration compiled with g++ -O0',
                    'output': out[-800:]}
    return {'reproduced': False, 'input': last[0] if last else vals, 'output': (last[2] if last else '')[-800:]}


# --------------------------------------------------------------------- build

def PROGRAMS():
    return eb.programs_translated()


QUICK_RT_CASES = [1, 3, 16]


def select(ctx):
    fam = family(ctx.tier, ctx.seed)
    if ctx.tier == 'thorough':
        progs = [base_program(pos, h) for pos, h in fam]
        nests = nest_programs(24, ctx.seed)
    else:
        want = {(p, c, u, i, b) for p, c, u, i, b in FINDING_SHAPES}
        fixed = [(pos, h) for pos, h in fam if (pos, h.cmp, h.upd, h.init, h.bound) in want]
        rest = [(pos, h) for pos, h in fam if (pos, h.cmp, h.upd, h.init, h.bound) not in want and not h.runtime_step]
        progs = [base_program(pos, h) for pos, h in fixed + eb.sample(rest, int(os.environ.get('VERIF_SAMPLE', '60')), ctx.seed)]
        nests = nest_programs(2, ctx.seed)
    return progs + nests


def build(ctx):
    progs = select(ctx)
    modes = [(m, True) for m in eb.LAUNCHER_MODES] + [(m, False) for m in eb.LAUNCHER_MODES] + \
            [(m, False) for m in eb.KEPT_MODES]
    res = eb.translate(ctx, [p.okl for p in progs], modes)
    groups = []
    count_h, index_h = {}, {}
    kept = {}

    def cases_of(h):
        if not h.runtime_step:
            return [None]
        cs = h.cases()
        if ctx.tier == 'quick':
            cs = [c for c in cs if (c if h.step == 's' else c + 1) in QUICK_RT_CASES]
        return cs

    for n, prog in enumerate(progs):
        for it in prog.tested:
            attr, h = prog.header(it)
            shape = ('%s/%s' % (attr, h.shape())) if prog.tag == 'base' else \
                    ('nest/%s/%s/%s' % (it, attr, h.shape()))
            per_mode, Ls = [], {}
            for mode in eb.LAUNCHER_MODES:
                try:
                    lfn = eb.need(res, n, mode, True, shape)
                    if len(lfn) != 1:
                        raise Undecided('launcher source has %d functions for the kernel' % len(lfn))
                    L = eb.launcher_pieces(lfn[0][1])
                    if it not in L['dims']:
                        raise Undecided('launcher: no dimension assignment follows the declaration of `%s`' % it)
                    dfn = eb.need(res, n, mode, False, shape)
                    if len(dfn) != 1:
                        raise Undecided('device source has %d kernels' % len(dfn))
                    dtype, dE, dstmt = eb.find_decl(eb.function_body(dfn[0][1]), it)
                    if len(eb.uses_index(mode, dE)) != 1:
                        raise Undecided('emitted declaration `%s` does not use exactly one %s index register' % (dstmt, mode))
                except Undecided as e:
                    groups.append(eb.undecided_group('C17/locate/%s/%s' % (mode, shape), str(e), shape))
                    continue
                Ls[mode] = L
                per_mode.append((mode, L['dims'][it][0], L['dims'][it][1], dstmt))
            if per_mode:
                for mode in Ls:
                    ch = count_harness(prog, h, attr, Ls[mode])
                    count_h.setdefault((ch, shape), []).append((mode, prog, h, attr, Ls[mode], per_mode))
                ishape = ('%s/i%s/init=%s' % (attr, h.upd, h.init)) if prog.tag == 'base' else shape
                for case in cases_of(h):
                    iu = index_unit(h, per_mode, ishape + ('' if case is None else '/s=%d' % case), case)
                    index_h.setdefault(iu, []).append((prog, h, attr, per_mode, Ls[per_mode[0][0]], case))
            for mode in eb.KEPT_MODES:
                try:
                    kfn = eb.need(res, n, mode, False, shape)
                    if len(kfn) != 1:
                        raise Undecided('%s source has %d functions for the kernel' % (mode, len(kfn)))
                    body = eb.function_body(kfn[0][1])
                    f = eb.find_for(body, it)
                    # nest structure kept: every loop nested deeper in the source is inside this loop's body
                    deeper = False
                    for a2, h2 in prog.loops:
                        if deeper:
                            eb.find_for(f['body'], h2.it)
                        if h2.it == it:
                            deeper = True
                    if 'out[0] =' not in f['body']:
                        raise Undecided('%s: loop body statement not found inside the kept loop' % mode)
                except Undecided as e:
                    groups.append(eb.undecided_group('C17/locate/%s/%s' % (mode, shape), str(e), shape))
                    continue
                key = (h.c_loop(), f['init'], f['check'], f['update'])
                kept.setdefault(key, [shape, h, f, set()])[3].add(mode)

    # launch-size groups: one per distinct harness (back ends emitting the same launch block share it)
    for (text, shape), infos in count_h.items():
        modes_ = '+'.join(m for m in eb.LAUNCHER_MODES if any(i[0] == m for i in infos))
        mode, prog, h, attr, L, per_mode = infos[0]
        for case in cases_of(h):
            groups.append(Group(
                name='C17/count/%s/%s%s' % (modes_, shape, '' if case is None else '/s=%d' % case),
                sources={'count.c': text}, entry='h', defines=[] if case is None else ['VERIF_S=%d' % case],
                extra_cbmc=['--sat-solver', 'cadical'], min_obligations=4, timeout=900,
                strength='proof' if case is None else 'bounded',
                bound='' if case is None else 'run-time step case-split over 1..16 (one group per value)',
                canary='CANARY', canary_label='canary',
                param=shape + ' :: ' + L['dims'][h.it][3].replace('\n', ' '),
                replay=functools.partial(replay_launch, prog, h, attr, per_mode, L, case),
                note='|operands| <= 2^28'))
    # index-map groups: the emitted declaration does not depend on the check, so many programs share one unit;
    # units are batched (they are not expected to fail; the label names the shape)
    units = list(index_h.items())
    IB = 8
    for b in range(0, len(units), IB):
        chunk = units[b:b + IB]
        rt = any(infos[0][5] is not None for _, infos in chunk)
        groups.append(Group(
            name='C17/index/%s/batch-%03d' % ('+'.join(eb.LAUNCHER_MODES), b // IB),
            sources={'index.c': index_batch([u for u, _ in chunk])}, entry='h',
            extra_cbmc=['--sat-solver', 'cadical'], min_obligations=3 * len(chunk), timeout=900,
            strength='bounded' if rt else 'proof',
            bound='run-time step case-split over 1..16' if rt else '',
            canary='CANARY', canary_label='canary',
            param='%d (position, update, init) shapes covering %d programs' % (len(chunk), sum(len(i) for _, i in chunk)),
            replay=functools.partial(replay_index_batch, [infos[0] for _, infos in chunk])))
    # kept loops (Serial / OpenMP): batches of part-by-part equivalences
    items = list(kept.values())
    B = 40
    for b in range(0, len(items), B):
        chunk = items[b:b + B]
        text = eb.NONDET_DECLS + HELPERS + ''.join(
            kept_case(i, shape + ' [' + '+'.join(sorted(ms)) + ']', h, f) for i, (shape, h, f, ms) in enumerate(chunk))
        text += 'void h(void) {\n%s}\n' % ''.join('  kept_%d();\n' % i for i in range(len(chunk)))
        identical = sum(1 for shape, h, f, ms in chunk if eb.squash(f['header']) == eb.squash(h.c_loop()))
        groups.append(Group(
            name='C17/kept/Serial+OpenMP/batch-%02d' % (b // B), sources={'kept.c': text}, entry='h',
            min_obligations=3 * len(chunk), timeout=900, canary='CANARY', canary_label='canary',
            param='%d kept headers (%d textually identical to the source up to whitespace)' % (len(chunk), identical)))
    only = os.environ.get('VERIF_ONLY')          # development aid: restrict to groups matching a regex
    if only:
        groups = [g for g in groups if re.search(only, g.name)]
    return groups
