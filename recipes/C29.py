"""C29 - C API scalar values keep their value and type through conversions.

Everything under contract is C-extracted by script from the real sources
(the C14 extraction of occa::primitive is reused: real tag constants, real
value union, real scalar constructors, real to<T>() instantiated per T):

  src/occa/internal/c/types.cpp   newOccaType<T> (11), newOccaType(primitive),
                                  newOccaType(primitive,int), c::primitive(occaType),
                                  c::primitive(occaType,int), c::kernelArg(occaType),
                                  c::inferJson(occaType), undefinedOccaType, occaIsUndefined,
                                  newOccaIntType<TM>, the 20 public occa<T>() constructors
  include/occa/c/types.h          the occaType struct (already C, verbatim)
  src/occa/internal/c/types.hpp   typeType constants
  include/occa/c/defines.h        magic headers

Proof level: no loops, every obligation is checked for all bit patterns.
"""
import os
import re

from vp.core import Group, Undecided
from vp.extract import extract_function, extract_block, extract_span, rewrite
from recipes import C14 as c14
from recipes.C14 import WS, ALL_TYPES

LEVEL = 'proof'
EXPLANATION = (
    'The eleven newOccaType<T> specialisations, newOccaType(primitive), newOccaType(primitive,int), '
    'c::primitive(occaType), c::primitive(occaType,int), c::kernelArg(occaType), c::inferJson(occaType), '
    'newOccaIntType<TM> and the 20 public scalar constructors occaBool ... occaDouble are C-extracted by script from '
    'src/occa/internal/c/types.cpp and verified together with the real occaType struct (include/occa/c/types.h, '
    'verbatim), the real typeType/primitiveType constants, the real primitive value union, scalar constructors and '
    'to<T>() (C14 extraction).  For every scalar C type T and ALL bit patterns v CBMC proves: newOccaType<T>(v) and '
    'the public constructor carry T\'s tag, bytes == sizeof(T), needsFree == false, a defined header and the bits of v; '
    'c::primitive of it does not raise and has T\'s primitive tag and the bits of v; newOccaType(primitive(v)) has the '
    'tag of the primitive (every primitive tag) and value v; the kernel argument made from it is exactly one by-value '
    'primitive of tag T and value v; inferJson gives the JSON number v of tag T; c::primitive(o,U) and '
    'newOccaType(p,U) equal the C conversion (U) v for every pair (T,U) where C defines it.  Decision contracts state '
    'exactly which tags raise / give occaUndefined.  No loops: complete proofs.')
TRUSTED = ['cbmc 6.11.0 C front end, SAT back end (cvc5 for floating <-> integer conversions)',
           'C extraction rules (must-fire, listed per function in the evidence): template specialisation -> one C function per T, '
           'const-reference parameters by value, namespaces -> prefixes, implicit primitive::operator T() -> the real to<T>() '
           '(operator bodies checked to be `return to<T>();`), implicit T -> primitive conversion -> _Generic selection of the '
           'real constructor on the static type, occaUndefined -> undefinedOccaType() (its initialiser, checked)',
           'C models of std::vector<kernelArgData> (capacity 2, asserted) and of the members of kernelArgData / kernelArg / json '
           'that the extracted text touches (member lists checked against the real headers); the overload set of '
           'occa::kernelArg(scalar) is generated from the real OCCA_GENERIC_CLASS_CONSTRUCTORS macro text (exact-match _Generic: '
           'an argument type without an exact constructor does not compile -> undecided)',
           'ghost stubs for the non-scalar paths of kernelArg/inferJson (addPointer, memory, null, string, json handle)',
           'contracts/C29/spec.h: bit-exact comparison and the definedness precondition of floating -> integer conversion']
ASSUMPTIONS = ['LP64, two\'s complement, IEC 60559; plain char is signed (x86-64 ABI, CBMC default); bool stores 0/1',
               'out-of-range integer -> narrower signed integer conversion is modular (implementation-defined, gcc/clang/CBMC); '
               'double -> float out of range follows IEC 60559 (infinity); floating -> integer is required only where the truncated '
               'value is representable (otherwise undefined in C and C++)',
               'a NaN is matched bit for bit when merely copied, by any NaN after a float <-> double conversion',
               'exception model: OCCA_ERROR / OCCA_FORCE_ERROR set a ghost flag and execution continues; nothing is asserted about '
               'the state after a raise except that the raise was (not) expected']
NOT_REACHED = ['handles (device, kernel, memory, ... : occaFree, needsFree of dtype/scope/json objects)',
               'occaJson object/array set/get (std::map/std::vector of json, strings)', 'occaString / occaStruct / occaPtr values',
               'getDtype(occaType) (dtype globals)', 'occaPrintTypeInfo',
               'run-time use of the kernel argument by a backend launcher']

TYPES_CPP = 'src/occa/internal/c/types.cpp'
TYPES_HPP = 'src/occa/internal/c/types.hpp'
TYPES_H = 'include/occa/c/types.h'
DEFINES_H = 'include/occa/c/defines.h'
PRIM_HPP = 'include/occa/types/primitive.hpp'
KARG_HPP = 'include/occa/core/kernelArg.hpp'
KARG_CPP = 'src/core/kernelArg.cpp'
GENERIC_HPP = 'include/occa/types/generic.hpp'
JSON_HPP = 'include/occa/types/json.hpp'

# the eleven scalar types: (label, C type, tag enumerator (same name in primitiveType and typeType), occaType union member)
SCALARS = [(s, c, t, 'int8_' if s == 'bool' else t) for s, c, t in ALL_TYPES]
NUMERIC_TAGS = [t for s, c, t, m in SCALARS if s != 'bool']
PUBLIC = [('occaBool', 'bool'), ('occaInt8', 'int8_t'), ('occaUInt8', 'uint8_t'), ('occaInt16', 'int16_t'),
          ('occaUInt16', 'uint16_t'), ('occaInt32', 'int32_t'), ('occaUInt32', 'uint32_t'), ('occaInt64', 'int64_t'),
          ('occaUInt64', 'uint64_t'), ('occaFloat', 'float'), ('occaDouble', 'double')]
# (public name, parameter type, TM of newOccaIntType<TM>, unsigned?, expected fixed-width type)
AMBIGUOUS = [('occaChar', 'char', 'char', False, 'int8_t'), ('occaUChar', 'unsigned char', 'char', True, 'uint8_t'),
             ('occaShort', 'short', 'short', False, 'int16_t'), ('occaUShort', 'unsigned short', 'short', True, 'uint16_t'),
             ('occaInt', 'int', 'int', False, 'int32_t'), ('occaUInt', 'unsigned int', 'int', True, 'uint32_t'),
             ('occaLong', 'long', 'long', False, 'int64_t'), ('occaULong', 'unsigned long', 'long', True, 'uint64_t')]

TT = ('C: (occa::c::)typeType::N -> typeType_N (no namespaces in C)', r'(?:occa::c::)?typeType::', 'typeType_', None)
PT = ('C: occa::primitiveType::N -> primitiveType_N', r'(?:occa::)?primitiveType::', 'primitiveType_', None)
UNDEF = ('global `const occaType occaUndefined = occa::c::undefinedOccaType();` (initialiser checked) -> the call itself; '
         'C has no dynamic initialisation of globals', r'\boccaUndefined\b(?!\.)', 'undefinedOccaType()', None)


def typetype_enum(ctx):
    ns = extract_block(ctx, TYPES_HPP, r'^\s*namespace typeType \{', name='namespace occa::c::typeType')
    names = re.findall(r'static const int (\w+)\s*=', ns.text)
    need = {'undefined', 'default_', 'null_', 'ptr', 'struct_', 'string', 'memory', 'json'} | {t for _, _, t, _ in SCALARS}
    if not need <= set(names):
        raise Undecided('extraction break: typeType lacks %s' % sorted(need - set(names)))
    text = rewrite(ns, [
        ('C: namespace of integer constants -> enum', r'^\s*namespace typeType \{', 'enum {', 1),
        ('C: static const int N = e; -> enumerator typeType_N = e,', r'static const int (\w+)(\s*)=([^;]*);',
         r'typeType_\1\2=\3,', len(names)),
    ])
    return text + ';', ns, names


def c_header(ctx):
    d = extract_span(ctx, DEFINES_H, r'^#define OCCA_C_TYPE_MAGIC_HEADER', r'^#define OCCA_C_TYPE_UNDEFINED_HEADER[^\n]*\n',
                     name='OCCA_C_TYPE_*_HEADER')
    dims = extract_span(ctx, TYPES_H, r'^typedef int64_t\s+occaDim_t;', r'^typedef uint64_t\s+occaUDim_t;', name='occaDim_t/occaUDim_t')
    st = extract_span(ctx, TYPES_H, r'^typedef struct \{\n\s*int magicHeader;', r'^\} occaType;', name='occaType (struct)')
    for _, cty, _, mem in SCALARS:
        if cty != 'bool' and not re.search(r'\b%s\s+%s;' % (re.escape(cty), mem), st.text):
            raise Undecided('extraction break: occaType.value lacks %s %s' % (cty, mem))
    return '\n'.join([d.text, dims.text, st.text]) + '\n', [d, dims, st]


def check_conversion_operators(ctx):
    """`newOccaType<T>(value)` with a primitive argument goes through primitive::operator T(): every one of the
    eleven operators must be the one-liner `return to<T>();` (this is what the rewrite rule relies on)."""
    src = ctx.read(PRIM_HPP)
    for _, cty, _, _ in SCALARS:
        if not re.search(r'inline operator %s \(\) const \{\s*return to<%s>\(\);\s*\}' % (re.escape(cty), re.escape(cty)), src):
            raise Undecided('extraction break: primitive::operator %s() is no longer `return to<%s>();`' % (cty, cty))
    if not re.search(r'const occaType occaUndefined\s*=\s*occa::c::undefinedOccaType\(\);', ctx.read(TYPES_CPP)):
        raise Undecided('extraction break: occaUndefined is no longer initialised by occa::c::undefinedOccaType()')


def types_functions(ctx):
    """C text of every function of types.cpp under contract."""
    out, exs = [], []

    def fn(sig, name, rules, rel=TYPES_CPP):
        f = extract_function(ctx, rel, sig, name=name)
        exs.append(f)
        out.append(rewrite(f, rules))
        return f

    fn(WS('occaType undefinedOccaType() {'), 'c::undefinedOccaType',
       [('C: signature', WS('occaType undefinedOccaType() {'), 'occaType undefinedOccaType(void) {', 1), TT])
    fn(WS('occaType nullOccaType() {'), 'c::nullOccaType',
       [('C: signature', WS('occaType nullOccaType() {'), 'occaType nullOccaType(void) {', 1), TT])
    fn(WS('bool occaIsUndefined(occaType value) {'), 'occaIsUndefined', [])
    for short, cty, tag, mem in SCALARS:
        sig = r'^\s*template <>\s*occaType newOccaType\(const %s &value\) \{' % re.escape(cty)
        fn(sig, 'c::newOccaType<%s>' % cty,
           [('C: explicit specialisation with const-reference parameter -> C function with by-value parameter '
             '(the body only reads it)', sig, 'occaType newOccaType_%s(const %s value) {' % (cty, cty), 1), TT])
    to_inst = ('C: newOccaType<T>(value), value a primitive -> newOccaType_T(primitive_to_T(value)): the implicit '
               'primitive::operator T() is `return to<T>();`', r'newOccaType<(\w+)>\(value\)', r'newOccaType_\1(primitive_to_\1(value))', None)
    sig = r'^\s*template <>\s*occaType newOccaType\(const occa::primitive &value\) \{'
    fn(sig, 'c::newOccaType(const primitive&)',
       [('C: signature', sig, 'occaType newOccaType_primitive(const primitive value) {', 1), to_inst, PT, UNDEF])
    sig = r'^\s*occaType newOccaType\(const occa::primitive &value,\s*const int type\) \{'
    fn(sig, 'c::newOccaType(const primitive&, int)',
       [('C: signature', sig, 'occaType newOccaType_primitive_as(const primitive value, const int type) {', 1), to_inst, TT, UNDEF])
    sig = r'^\s*occa::primitive primitive\(occaType value\) \{'
    fn(sig, 'c::primitive(occaType)',
       [('C: signature', sig, 'primitive c_primitive(occaType value) {', 1),
        ('C: default construction made explicit', r'occa::primitive p;', 'primitive p = primitive_ctor_none();', 1),
        ('C: p = e; (converting constructor primitive(T) chosen by the static type of e, then copy assignment) -> p = PRIM(e);',
         r'^(\s*)p = ([^;]+);', r'\1p = PRIM(\2);', None), TT])
    sig = r'^\s*occa::primitive primitive\(occaType value,\s*const int type\) \{'
    fn(sig, 'c::primitive(occaType, int)',
       [('C: signature', sig, 'primitive c_primitive_as(occaType value, const int type) {', 1),
        ('C: overload primitive(occaType) by name', r'occa::primitive p = primitive\(value\);', 'primitive p = c_primitive(value);', 1),
        ('C: return p.to<T>(); (real to<T> instance, then converting constructor primitive(T)) -> return PRIM(primitive_to_T(p));',
         r'return p\.to<(\w+)>\(\);', r'return PRIM(primitive_to_\1(p));', None), TT])
    return '\n'.join(out) + '\n', exs


def kernel_arg_unit(ctx):
    exs, out = [], []
    hdr = ctx.read(KARG_HPP)
    if not re.search(r'class kernelArgData \{\s*public:\s*primitive value;\s*udim_t ptrSize;\s*occa::modeMemory_t \*modeMemory;', hdr):
        raise Undecided('extraction break: kernelArgData member list changed')
    if not re.search(r'class kernelArg : public generic \{\s*public:\s*kernelArgDataVector args;', hdr) or \
       not re.search(r'typedef std::vector<kernelArgData> kernelArgDataVector;', hdr):
        raise Undecided('extraction break: kernelArg::args is no longer a std::vector<kernelArgData>')
    out.append('''typedef uint64_t udim_t;
/* members of the real kernelArgData (list checked against the header) */
typedef struct kernelArgData { primitive value; udim_t ptrSize; void *modeMemory; } kernelArgData;
/* std::vector<kernelArgData> stub: fixed capacity, asserted */
#define VERIF_KARG_CAP 2
typedef struct kernelArgDataVector { int n; kernelArgData a[VERIF_KARG_CAP]; } kernelArgDataVector;
/* kernelArg: the real member `args` plus a ghost record of the non-scalar paths */
typedef struct kernelArg { kernelArgDataVector args; int ghost_kind; const void *ghost_ptr; udim_t ghost_bytes; } kernelArg;
enum { KARG_NONE = 0, KARG_POINTER = 1, KARG_MEMORY = 2, KARG_NULL = 3 };
static kernelArg kernelArg_ctor(void) { kernelArg k; k.args.n = 0; k.ghost_kind = KARG_NONE; k.ghost_ptr = 0; k.ghost_bytes = 0; return k; }
static void kernelArgDataVector_push_back(kernelArgDataVector *v, kernelArgData d) {
  __CPROVER_assert(v->n < VERIF_KARG_CAP, "stub: std::vector<kernelArgData> capacity");
  v->a[v->n] = d; v->n = v->n + 1;
}
/* ghost stubs of the non-scalar paths (not under contract) */
static void kernelArg_addPointer(kernelArg *k, char *p, udim_t bytes) { k->ghost_kind = KARG_POINTER; k->ghost_ptr = p; k->ghost_bytes = bytes; }
''')
    f = extract_function(ctx, KARG_CPP, r'^\s*kernelArgData::kernelArgData\(const primitive &value_\) :', name='kernelArgData::kernelArgData(const primitive&)')
    exs.append(f)
    out.append(rewrite(f, [
        ('C: constructor with mem-initialisers -> function returning the object',
         r'^\s*kernelArgData::kernelArgData\(const primitive &value_\) :\s*value\(value_\),\s*ptrSize\(0\),\s*modeMemory\(NULL\) \{\}',
         'static kernelArgData kernelArgData_ctor_primitive(const primitive value_) {\n  kernelArgData this_;\n'
         '  this_.value = value_;\n  this_.ptrSize = 0;\n  this_.modeMemory = NULL;\n  return this_;\n}', 1)]))
    f = extract_function(ctx, KARG_HPP, r'^\s*inline virtual void primitiveConstructor\(const primitive &value\) \{', name='kernelArg::primitiveConstructor')
    exs.append(f)
    out.append(rewrite(f, [
        ('C: member function -> function on explicit this', r'^\s*inline virtual void primitiveConstructor\(const primitive &value\) \{',
         'static void kernelArg_primitiveConstructor(kernelArg *this_, const primitive value) {', 1),
        ('C: args.push_back(value) (implicit kernelArgData(const primitive&)) -> vector stub + the real constructor',
         r'args\.push_back\(value\);', 'kernelArgDataVector_push_back(&this_->args, kernelArgData_ctor_primitive(value));', 1)]))
    f = extract_function(ctx, KARG_CPP, r'^\s*kernelArg::kernelArg\(const kernelArgData &arg\) \{', name='kernelArg::kernelArg(const kernelArgData&)')
    exs.append(f)
    out.append(rewrite(f, [
        ('C: constructor -> function returning the object', r'^\s*kernelArg::kernelArg\(const kernelArgData &arg\) \{',
         'static kernelArg kernelArg_ctor_data(const kernelArgData arg) {\n  kernelArg this_ = kernelArg_ctor();', 1),
        ('C: args.push_back(arg)', r'args\.push_back\(arg\);', 'kernelArgDataVector_push_back(&this_.args, arg);', 1),
        ('C: constructor returns the object', r'\}\s*\Z', '  return this_;\n}', 1)]))
    m = extract_span(ctx, GENERIC_HPP, r'^#define OCCA_GENERIC_CLASS_CONSTRUCTORS\(CLASS_NAME\)', r'ignore_this_function_only_for_semicolon\(\)',
                     name='OCCA_GENERIC_CLASS_CONSTRUCTORS')
    exs.append(m)
    ctors = re.findall(r'inline CLASS_NAME\(const (\w+) arg\) \{\s*\\\s*primitiveConstructor\(arg\);\s*\\\s*\}', m.text)
    if len(ctors) < 10:
        raise Undecided('extraction break: OCCA_GENERIC_CLASS_CONSTRUCTORS has %d scalar constructors' % len(ctors))
    if not re.search(r'OCCA_GENERIC_CLASS_CONSTRUCTORS\(kernelArg\);', hdr):
        raise Undecided('extraction break: kernelArg no longer uses OCCA_GENERIC_CLASS_CONSTRUCTORS')
    for cty in ctors:
        out.append('/* instance of `inline CLASS_NAME(const %s arg) { primitiveConstructor(arg); }` for CLASS_NAME = kernelArg */\n'
                   'static kernelArg kernelArg_ctor_%s(const %s arg) { kernelArg this_ = kernelArg_ctor(); '
                   'kernelArg_primitiveConstructor(&this_, PRIM(arg)); return this_; }' % (cty, cty, cty))
    m.rules.append(('C: one function per scalar constructor of the macro (%s)' % ', '.join(ctors), len(ctors)))
    out.append('/* overload resolution of occa::kernelArg(e) for a scalar e: exact match among the constructors above */\n'
               '#define KARG(e) _Generic((e), %s)(e)\n' % ', '.join('%s: kernelArg_ctor_%s' % (c, c) for c in ctors))
    out.append('static kernelArg kernelArg_of_memory(occaType v) { kernelArg k = kernelArg_ctor(); k.ghost_kind = KARG_MEMORY; k.ghost_ptr = v.value.ptr; return k; }\n'
               'static kernelArg kernelArg_of_null(void) { kernelArg k = kernelArg_ctor(); k.ghost_kind = KARG_NULL; return k; }\n')
    sig = r'^\s*occa::kernelArg kernelArg\(occaType value\) \{'
    f = extract_function(ctx, TYPES_CPP, sig, name='c::kernelArg(occaType)')
    exs.append(f)
    out.append(rewrite(f, [
        ('C: signature', sig, 'kernelArg c_kernelArg(occaType value) {', 1),
        ('C: default construction made explicit', r'occa::kernelArg arg;', 'kernelArg arg = kernelArg_ctor();', 1),
        ('non-scalar path -> ghost stub: arg.addPointer(p, bytes)', r'arg\.addPointer\(', 'kernelArg_addPointer(&arg, ', 3),
        ('non-scalar path -> ghost stub: occa::kernelArg(occa::c::memory(value))', r'occa::kernelArg\(occa::c::memory\(value\)\)', 'kernelArg_of_memory(value)', 1),
        ('non-scalar path -> ghost stub: occa::kernelArg(occa::null)', r'occa::kernelArg\(occa::null\)', 'kernelArg_of_null()', 1),
        ('C: occa::kernelArg(occa::kernelArgData(x)) -> the real kernelArg(const kernelArgData&) and kernelArgData(const primitive&)',
         r'occa::kernelArg\(\s*occa::kernelArgData\(\s*', 'kernelArg_ctor_data(kernelArgData_ctor_primitive(', '*'),
        ('C: explicit occa::primitive(e) -> constructor selected on the static type of e', r'occa::primitive\(', 'PRIM(', '*'),
        ('C: occa::kernelArg(e), e a scalar union member -> constructor of OCCA_GENERIC_CLASS_CONSTRUCTORS selected on the static type',
         r'occa::kernelArg\((value\.value\.\w+)\)', r'KARG(\1)', None),
        TT]))
    return '\n'.join(out) + '\n', exs


def json_unit(ctx):
    exs, out = [], []
    hdr = ctx.read(JSON_HPP)
    if not re.search(r'typedef struct \{\s*primitive number;', hdr) or not re.search(r'type_t type;\s*jsonValue_t value_;', hdr):
        raise Undecided('extraction break: json::type / json::value_.number changed')
    if not re.search(r'inline json\(type_t type_ = none_\) \{', hdr):
        raise Undecided('extraction break: json() no longer defaults to none_')
    en = extract_block(ctx, JSON_HPP, r'^\s*enum type_t \{', name='json::type_t')
    exs.append(en)
    out.append(rewrite(en, [('C: enum in class scope -> prefixed enumerators', r'enum type_t \{', 'enum json_type_t {', 1),
                            ('C: enumerator N -> json_N', r'^(\s*)(\w+_)(\s*=)', r'\1json_\2\3', None)]) + ';')
    out.append('''/* members of the real json that the scalar paths touch (type, value_.number) plus a ghost record of the others */
typedef struct json { int type; struct { primitive number; } value_; int ghost_kind; const void *ghost_ptr; } json;
enum { JSON_SCALAR = 0, JSON_STRING = 1, JSON_HANDLE = 2, JSON_OFTYPE = 3 };
static json json_stub_string(const char *s) { json j; j.type = json_string_; j.value_.number = primitive_ctor_none(); j.ghost_kind = JSON_STRING; j.ghost_ptr = s; return j; }
static json json_stub_handle(occaType v) { json j; j.type = json_none_; j.value_.number = primitive_ctor_none(); j.ghost_kind = JSON_HANDLE; j.ghost_ptr = v.value.ptr; return j; }
static json json_stub_type(int t) { json j; j.type = t; j.value_.number = primitive_ctor_none(); j.ghost_kind = JSON_OFTYPE; j.ghost_ptr = 0; return j; }
''')
    for cty, conv in (('bool', 'PRIM(value)'), ('primitive', 'value')):
        ref = ' &' if cty == 'primitive' else ' '
        sig = r'^\s*inline json\(const %s%svalue\) :' % (cty, ref)
        f = extract_function(ctx, JSON_HPP, sig, name='json::json(const %s%s)' % (cty, ref.strip()))
        exs.append(f)
        out.append(rewrite(f, [
            ('C: constructor with mem-initialiser -> function returning the object',
             sig + r'\s*type\(number_\) \{', 'static json json_ctor_%s(const %s value) {\n  json this_; this_.ghost_kind = JSON_SCALAR; '
             'this_.ghost_ptr = 0;\n  this_.type = json_number_;' % (cty, cty), 1),
            ('C: value_.number = value; (converting constructor on the static type where value is not a primitive)',
             r'value_\.number = value;', 'this_.value_.number = %s;' % conv, 1),
            ('C: constructor returns the object', r'\}\s*\Z', '  return this_;\n}', 1)]))
    sig = r'^\s*occa::json inferJson\(occaType value\) \{'
    f = extract_function(ctx, TYPES_CPP, sig, name='c::inferJson(occaType)')
    exs.append(f)
    out.append(rewrite(f, [
        ('C: signature', sig, 'json c_inferJson(occaType value) {', 1),
        ('C: occa::json((bool) e) -> the real json(const bool)', r'occa::json\(\(bool\) ', 'json_ctor_bool((bool) ', 1),
        ('C: occa::json(occa::c::primitive(value)) -> the real json(const primitive&) on the real c::primitive',
         r'occa::json\(occa::c::primitive\(value\)\)', 'json_ctor_primitive(c_primitive(value))', 1),
        ('non-scalar path -> ghost stub: occa::json((char*) p)', r'occa::json\(\(char\*\) ', 'json_stub_string((char*) ', 1),
        ('non-scalar path -> ghost stub: occa::c::json(value)', r'occa::c::json\(value\)', 'json_stub_handle(value)', 1),
        ('non-scalar path -> ghost stub: occa::json(occa::json::null_)', r'occa::json\(occa::json::null_\)', 'json_stub_type(json_null_)', 2),
        ('non-scalar path -> ghost stub: occa::json() (type_ defaults to none_, checked)', r'occa::json\(\)', 'json_stub_type(json_none_)', 1),
        TT]))
    return '\n'.join(out) + '\n', exs


def public_unit(ctx):
    exs, out = [], []
    decl = ['occaType %s(%s value);' % (n, c) for n, c in PUBLIC]
    out.append('\n'.join(decl))
    sig = r'^\s*template <class TM>\s*inline occaType newOccaIntType\(bool isUnsigned,\s*TM value\) \{'
    f = extract_function(ctx, TYPES_CPP, sig, name='c::newOccaIntType<TM>')
    exs.append(f)
    base = rewrite(f, [('C: function template -> one function per TM (textual instantiation)', sig,
                        'static occaType newOccaIntType___TM__(bool isUnsigned, __TMT__ value) {', 1)])
    for tm in ('char', 'short', 'int', 'long'):
        out.append(base.replace('__TM__', tm).replace('__TMT__', tm))
    f.rules.append(('instantiated for TM in char, short, int, long (the explicit template arguments at its call sites)', 4))
    for n, cty in PUBLIC:
        sig = WS('occaType %s(%s value) {' % (n, cty))
        f = extract_function(ctx, TYPES_CPP, sig, name=n)
        exs.append(f)
        out.append(rewrite(f, [('C: occa::c::newOccaType(value) -> the specialisation deduced from the declared type of value (%s)' % cty,
                                r'occa::c::newOccaType\(value\)', 'newOccaType_%s(value)' % cty, 1)]))
    for n, pty, tm, uns, _ in AMBIGUOUS:
        sig = WS('occaType %s(%s value) {' % (n, pty))
        f = extract_function(ctx, TYPES_CPP, sig, name=n)
        exs.append(f)
        out.append(rewrite(f, [('C: occa::c::newOccaIntType<TM>(...) -> textual instance',
                                r'occa::c::newOccaIntType<%s>\(' % tm, 'newOccaIntType_%s(' % tm, 1)]))
    return '\n'.join(out) + '\n', exs


class Unit:
    def __init__(self, ctx):
        check_conversion_operators(ctx)
        enum, e1 = c14.tags_enum(ctx)
        struct, e2 = c14.value_union(ctx)
        ctors, e3 = c14.constructors(ctx)
        tos, e4 = c14.to_T(ctx)
        hdr, e5 = c_header(ctx)
        tt, e6, self.typetype_names = typetype_enum(ctx)
        fns, e7 = types_functions(ctx)
        ka, e8 = kernel_arg_unit(ctx)
        js, e9 = json_unit(ctx)
        pub, e10 = public_unit(ctx)
        self.text = '\n'.join([
            c14.PRELUDE,
            '#define OCCA_ERROR(message, expr) do { if (!(expr)) verif_raised = 1; } while (0)',
            '/* ---- extracted from %s ---- */' % PRIM_HPP, enum, struct, ctors, tos,
            '/* ---- extracted from %s, %s, %s ---- */' % (DEFINES_H, TYPES_H, TYPES_HPP), hdr, tt,
            '/* ---- extracted from %s ---- */' % TYPES_CPP, fns,
            '/* ---- kernelArg: %s, %s, %s, %s ---- */' % (KARG_HPP, KARG_CPP, GENERIC_HPP, TYPES_CPP), ka,
            '/* ---- json: %s, %s ---- */' % (JSON_HPP, TYPES_CPP), js,
            '/* ---- public constructors: %s ---- */' % TYPES_CPP, pub,
            '#include "C29/spec.h"'])
        self.exs = [e1, e2] + e3 + [e4] + e5 + [e6] + e7 + e8 + e9 + e10


# ------------------------------------------------------------------ harnesses

def _decl(short, cty):
    return '  %s v = nondet_%s();' % (cty, short)


def h_construct(short, cty, tag, mem):
    pub = [n for n, c in PUBLIC if c == cty][0]
    return '''static void h_construct(void) {
%(decl)s
  verif_raised = 0;
  occaType o = newOccaType_%(cty)s(v);
  occaType w = %(pub)s(v);
  ++c29_reached;
#ifndef CANARY
  __CPROVER_assert(!verif_raised, "%(s)s: constructing the occaType raises nothing");
  __CPROVER_assert(o.magicHeader == OCCA_C_TYPE_MAGIC_HEADER && !occaIsUndefined(o), "%(s)s: newOccaType<T>(v) is a defined occaType");
  __CPROVER_assert(o.type == typeType_%(tag)s, "%(s)s: newOccaType<T>(v) has T's type tag");
  __CPROVER_assert(o.bytes == sizeof(%(cty)s), "%(s)s: newOccaType<T>(v).bytes == sizeof(T)");
  __CPROVER_assert(o.needsFree == false, "%(s)s: newOccaType<T>(v).needsFree == false");
  __CPROVER_assert(C29_BITS_EQ(o.value.%(mem)s, v), "%(s)s: newOccaType<T>(v) holds the value v");
  __CPROVER_assert(w.magicHeader == o.magicHeader && w.type == o.type && w.bytes == o.bytes && w.needsFree == o.needsFree &&
                   C29_BITS_EQ(w.value.%(mem)s, v), "%(s)s: public constructor %(pub)s(v) has T's tag, sizeof(T) bytes, needsFree false and the value v");
#endif
}
''' % dict(decl=_decl(short, cty), s=short, cty=cty, tag=tag, mem=mem, pub=pub)


def h_primitive(short, cty, tag, mem):
    return '''static void h_primitive(void) {
%(decl)s
  occaType o = newOccaType_%(cty)s(v);
  verif_raised = 0;
  primitive p = c_primitive(o);
  ++c29_reached;
#ifndef CANARY
  __CPROVER_assert(!verif_raised, "%(s)s: c::primitive(occaType) does not raise for a scalar occaType");
  if (!verif_raised) {
    __CPROVER_assert(p.type == primitiveType_%(tag)s, "%(s)s: c::primitive(newOccaType<T>(v)) has T's primitive tag");
    __CPROVER_assert(p.type == primitiveType_%(tag)s && C29_BITS_EQ(p.value.%(tag)s, v), "%(s)s: c::primitive(newOccaType<T>(v)) has the value v");
  }
#endif
}
''' % dict(decl=_decl(short, cty), s=short, cty=cty, tag=tag, mem=mem)


def h_from_primitive(short, cty, tag, mem):
    return '''static void h_from_primitive(void) {
%(decl)s
  primitive p = PRIM(v);
  verif_raised = 0;
  occaType q = newOccaType_primitive(p);
  ++c29_reached;
#ifndef CANARY
  __CPROVER_assert(!verif_raised, "%(s)s: newOccaType(primitive) raises nothing");
  __CPROVER_assert(!occaIsUndefined(q) && q.type == typeType_%(tag)s, "%(s)s: newOccaType(primitive p) has the tag of p");
  if (q.type == typeType_%(tag)s) {
    __CPROVER_assert(C29_BITS_EQ(q.value.%(mem)s, v), "%(s)s: newOccaType(primitive p) has the value of p");
    __CPROVER_assert(q.bytes == sizeof(%(cty)s) && q.needsFree == false, "%(s)s: newOccaType(primitive p) has sizeof(T) bytes and needsFree false");
  }
#endif
}
''' % dict(decl=_decl(short, cty), s=short, cty=cty, tag=tag, mem=mem)


def h_kernel_arg(short, cty, tag, mem):
    return '''static void h_kernel_arg(void) {
%(decl)s
  occaType o = newOccaType_%(cty)s(v);
  verif_raised = 0;
  kernelArg a = c_kernelArg(o);
  ++c29_reached;
#ifndef CANARY
  __CPROVER_assert(!verif_raised, "%(s)s: c::kernelArg(occaType) does not raise for a scalar occaType");
  if (!verif_raised) {
    __CPROVER_assert(a.args.n == 1 && a.ghost_kind == KARG_NONE, "%(s)s: the kernel argument is exactly one by-value entry");
    if (a.args.n == 1) {
      __CPROVER_assert(a.args.a[0].value.type == primitiveType_%(tag)s, "%(s)s: the kernel argument has T's primitive tag");
      __CPROVER_assert(a.args.a[0].value.type == primitiveType_%(tag)s && C29_BITS_EQ(a.args.a[0].value.value.%(tag)s, v), "%(s)s: the kernel argument has the value v");
      __CPROVER_assert(a.args.a[0].ptrSize == 0 && a.args.a[0].modeMemory == NULL, "%(s)s: the kernel argument is not a pointer or memory");
    }
  }
#endif
}
''' % dict(decl=_decl(short, cty), s=short, cty=cty, tag=tag, mem=mem)


def h_infer_json(short, cty, tag, mem):
    return '''static void h_infer_json(void) {
%(decl)s
  occaType o = newOccaType_%(cty)s(v);
  verif_raised = 0;
  json j = c_inferJson(o);
  ++c29_reached;
#ifndef CANARY
  __CPROVER_assert(!verif_raised, "%(s)s: inferJson(occaType) does not raise for a scalar occaType");
  if (!verif_raised) {
    __CPROVER_assert(j.type == json_number_ && j.ghost_kind == JSON_SCALAR, "%(s)s: inferJson gives a JSON number");
    __CPROVER_assert(j.value_.number.type == primitiveType_%(tag)s, "%(s)s: the JSON number has T's primitive tag");
    __CPROVER_assert(j.value_.number.type == primitiveType_%(tag)s && C29_BITS_EQ(j.value_.number.value.%(tag)s, v), "%(s)s: the JSON number has the value v");
  }
#endif
}
''' % dict(decl=_decl(short, cty), s=short, cty=cty, tag=tag, mem=mem)


def h_convert(src, targets):
    short, cty, tag, mem = src
    body = []
    for us, ucty, utag, umem in targets:
        body.append('''  if (C29_CONV_DEFINED(%(ucty)s, v)) {
    %(ucty)s e = (%(ucty)s) v;   /* the C conversion, by CBMC's own semantics */
    verif_raised = 0;
    primitive r = c_primitive_as(o, typeType_%(utag)s);
    occaType q = newOccaType_primitive_as(p, typeType_%(utag)s);
    ++c29_reached;
#ifndef CANARY
    __CPROVER_assert(!verif_raised, "%(s)s->%(us)s: c::primitive(o, U) and newOccaType(p, U) raise nothing for scalar tags");
    if (!verif_raised) {
      __CPROVER_assert(r.type == primitiveType_%(utag)s, "%(s)s->%(us)s: c::primitive(o, U) has U's primitive tag");
      __CPROVER_assert(r.type == primitiveType_%(utag)s && C29_CONV_EQ(r.value.%(utag)s, e), "%(s)s->%(us)s: c::primitive(o, U) equals the C conversion (U) v");
      __CPROVER_assert(!occaIsUndefined(q) && q.type == typeType_%(utag)s, "%(s)s->%(us)s: newOccaType(p, U) has U's type tag");
      __CPROVER_assert(q.type == typeType_%(utag)s && C29_CONV_EQ(q.value.%(umem)s, e) && q.bytes == sizeof(%(ucty)s) && q.needsFree == false,
                       "%(s)s->%(us)s: newOccaType(p, U) equals the C conversion (U) v, sizeof(U) bytes, needsFree false");
    }
#endif
  }
''' % dict(s=short, us=us, ucty=ucty, utag=utag, umem=umem))
    return '''static void h_convert(void) {
%(decl)s
  occaType o = newOccaType_%(cty)s(v);
  primitive p = PRIM(v);
%(body)s}
''' % dict(decl=_decl(short, cty), cty=cty, body=''.join(body))


def h_ambiguous(n, pty, tm, uns, fixed):
    tag = [t for s, c, t, m in SCALARS if c == fixed][0]
    nd = {'char': '(char) nondet_int8()', 'unsigned char': 'nondet_uint8()', 'short': 'nondet_int16()',
          'unsigned short': 'nondet_uint16()', 'int': 'nondet_int32()', 'unsigned int': 'nondet_uint32()',
          'long': 'nondet_int64()', 'unsigned long': 'nondet_uint64()'}[pty]
    return '''static void h_%(n)s(void) {
  %(pty)s v = %(nd)s;
  verif_raised = 0;
  occaType o = %(n)s(v);
  ++c29_reached;
#ifndef CANARY
  __CPROVER_assert(!verif_raised, "%(n)s: raises nothing");
  __CPROVER_assert(!occaIsUndefined(o) && o.type == typeType_%(tag)s, "%(n)s(v) has the tag of the fixed-width type of the same size and signedness");
  __CPROVER_assert(o.bytes == sizeof(%(pty)s) && o.needsFree == false, "%(n)s(v).bytes == sizeof(T), needsFree false");
  __CPROVER_assert(o.value.%(tag)s == v && (%(pty)s) o.value.%(tag)s == v, "%(n)s(v) holds the value v");
  primitive p = c_primitive(o);
  __CPROVER_assert(!verif_raised && p.type == primitiveType_%(tag)s && p.value.%(tag)s == v, "%(n)s(v) reads back through c::primitive as v with the same type");
#endif
}
''' % dict(n=n, pty=pty, nd=nd, tag=tag)


def h_decision(kind, scalar_tags):
    """Which tags raise / give occaUndefined.  `scalar` is written from the property (the eleven scalar C types)."""
    is_scalar_tt = ' || '.join('t == typeType_%s' % t for t in scalar_tags)
    is_scalar_pt = ' || '.join('t == primitiveType_%s' % t for t in scalar_tags)
    pre = '''static _Bool scalar_tt(int t) { return %s; }
static _Bool scalar_pt(int t) { return %s; }
static occaType any_occaType(void) { occaType o; o.magicHeader = nondet_int32(); o.type = nondet_int32(); o.bytes = nondet_uint64();
  o.needsFree = nondet_bool(); o.value.uint64_ = nondet_uint64(); return o; }
static primitive any_primitive(void) { primitive p; p.type = nondet_int32(); p.value.uint64_ = nondet_uint64(); return p; }
''' % (is_scalar_tt, is_scalar_pt)
    if kind == 'primitive':
        body = '''  occaType o = any_occaType(); int t = nondet_int32();
  verif_raised = 0; primitive p = c_primitive(o);
  ++c29_reached;
#ifndef CANARY
  __CPROVER_assert(verif_raised == !scalar_tt(o.type), "decision: c::primitive(occaType) raises exactly for the non-scalar tags");
  verif_raised = 0; primitive r = c_primitive_as(o, t);
  __CPROVER_assert(verif_raised == !(scalar_tt(o.type) && scalar_tt(t)), "decision: c::primitive(occaType, type) raises exactly when a tag is not scalar");
#endif
'''
    elif kind == 'newOccaType':
        body = '''  primitive p = any_primitive(); int t = nondet_int32();
  verif_raised = 0; occaType q = newOccaType_primitive(p);
  ++c29_reached;
#ifndef CANARY
  __CPROVER_assert(!verif_raised, "decision: newOccaType(primitive) never raises");
  __CPROVER_assert(occaIsUndefined(q) == !scalar_pt(p.type), "decision: newOccaType(primitive) is occaUndefined exactly for the non-arithmetic primitive tags");
  verif_raised = 0; occaType q2 = newOccaType_primitive_as(p, t);
  __CPROVER_assert(verif_raised == (scalar_tt(t) && !scalar_pt(p.type)), "decision: newOccaType(primitive, type) raises exactly for a scalar tag requested of a non-arithmetic primitive");
  if (!verif_raised) __CPROVER_assert(occaIsUndefined(q2) == !scalar_tt(t), "decision: newOccaType(primitive, type) is occaUndefined exactly for the non-scalar type tags");
#endif
'''
    else:
        body = '''  occaType o = any_occaType();
  _Bool defined = (o.magicHeader == OCCA_C_TYPE_MAGIC_HEADER);
  verif_raised = 0; kernelArg a = c_kernelArg(o);
  ++c29_reached;
#ifndef CANARY
  __CPROVER_assert(verif_raised == !(defined && (scalar_tt(o.type) || o.type == typeType_ptr || o.type == typeType_struct_ ||
                   o.type == typeType_string || o.type == typeType_memory || o.type == typeType_null_)),
                   "decision: c::kernelArg raises exactly for undefined values and tags that are neither scalar, ptr, struct, string, memory nor null");
  if (!verif_raised) __CPROVER_assert((a.args.n == 1 && a.ghost_kind == KARG_NONE) == scalar_tt(o.type), "decision: c::kernelArg passes exactly the scalars by value");
  verif_raised = 0; json j = c_inferJson(o);
  __CPROVER_assert(verif_raised == !(scalar_tt(o.type) || o.type == typeType_string || o.type == typeType_json || o.type == typeType_null_ ||
                   (o.type == typeType_ptr && o.value.ptr == NULL)),
                   "decision: inferJson raises exactly for tags that are neither scalar, string, json, null nor a NULL ptr");
  if (!verif_raised) __CPROVER_assert((j.type == json_number_ && j.ghost_kind == JSON_SCALAR) == scalar_tt(o.type), "decision: inferJson makes a JSON number exactly of the scalars");
#endif
'''
    return pre + 'static void h_decision(void) {\n' + body + '}\n'


def build(ctx):
    from vp import replay_C29
    unit = Unit(ctx)
    groups = []
    scalar_tags = [t for _, _, t, _ in SCALARS]

    def add(name, harnesses, mino, param='', solver=None, timeout=300):
        """harnesses: [(function name, text, number of reach points)]"""
        n = sum(h[2] for h in harnesses)
        src = (unit.text + '\nstatic int c29_reached;\n' + '\n'.join(h[1] for h in harnesses) +
               '\nvoid h_entry(void) {\n  c29_reached = 0;\n' + ''.join('  %s();\n' % h[0] for h in harnesses) +
               '#ifdef CANARY\n  __CPROVER_assert(c29_reached != %d, "canary: every harness body and every conversion case is reachable");\n#endif\n}\n' % n)
        groups.append(Group(name=name, sources={'c29.c': src}, entry='h_entry', lang='c', solver=solver,
                            checks=c14.ARITH_CHECKS + c14.PTR_CHECKS, min_obligations=mino, timeout=timeout,
                            functions=unit.exs, canary='CANARY', canary_label='canary', strength='proof', param=param,
                            note='loop-free', replay=None if os.environ.get('C29_NO_REPLAY') else replay_C29.replay))

    ints = [u for u in SCALARS if u[0] not in c14.FLOATS]
    flts = [u for u in SCALARS if u[0] in c14.FLOATS]
    for sc in SCALARS:
        s = sc[0]
        add('scalar/%s' % s, [('h_construct', h_construct(*sc), 1), ('h_primitive', h_primitive(*sc), 1),
                              ('h_from_primitive', h_from_primitive(*sc), 1), ('h_kernel_arg', h_kernel_arg(*sc), 1),
                              ('h_infer_json', h_infer_json(*sc), 1)], 20, s)
    for sc in SCALARS:
        s = sc[0]
        # floating <-> integer conversions need the floating-point theory of cvc5; integer -> integer stays on SAT
        add('convert/%s-to-int' % s, [('h_convert', h_convert(sc, ints), len(ints))], 5 * len(ints), '%s -> bool and integers' % s,
            solver='cvc5' if s in c14.FLOATS else None, timeout=600)
        add('convert/%s-to-float' % s, [('h_convert', h_convert(sc, flts), len(flts))], 5 * len(flts), '%s -> float, double' % s,
            solver='cvc5', timeout=600)
    add('ambiguous', [('h_' + a[0], h_ambiguous(*a), 1) for a in AMBIGUOUS], 5 * len(AMBIGUOUS), 'occaChar ... occaULong')
    for kind in ('primitive', 'newOccaType', 'kernelArg+inferJson'):
        add('decision/%s' % kind, [('h_decision', h_decision(kind, scalar_tags), 1)], 2, 'all tags')
    only = os.environ.get('C29_ONLY')
    if only:
        groups = [g for g in groups if re.search(only, g.name)]
    return groups
