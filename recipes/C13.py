"""C13 - conditional inclusion: the #if/#ifdef/#ifndef/#elif/#else/#endif state machine of
preprocessor_t keeps exactly the lines C keeps, for every directive sequence and nesting depth,
and never evaluates a condition C does not evaluate.

Inductive step on the real text: from EVERY state related by R to a C view
(parentActive, taken, active, seenElse) one directive is executed and R, the C update of the
view, the stack depth change, the evaluation counter and the error reports are checked.
"""
import re

from vp.core import Group, Undecided
from vp.extract import extract_function, extract_span, rewrite
from vp import replay_C13

LEVEL = 'proof'
EXPLANATION = ('processIf/Ifdef/Ifndef/Elif/Else/Endif, pushStatus/popStatus/swapReadingStatus, lineIsTrue, getIfdef, '
               'errorOn, token_t::safeType and the first statement of init() are extracted verbatim each run and compiled '
               "by CBMC's C++ front end under a class skeleton; the ppStatus and tokenType constants are the real "
               'ones.  Representation relation R: the chain statusStack ++ [status] is a sequence of group statuses '
               '(foundIf, exactly one of reading/ignoring, finishedIf forced inside skipped regions, ...) over a base '
               'status `reading`; the C view of a group is a function of (status, saved parent status).  For each '
               'directive and each class of R-related pre-states (classes cover R) one step of the real code is run '
               'from an ARBITRARY such state: R holds afterwards with the view updated as C prescribes, depth changes '
               'by +1/0/0/-1, saved parent statuses are untouched, conditions C never evaluates are not evaluated '
               '(ghost counters on the opaque token-level helpers), misplaced directives are reported without '
               'corrupting the state, and exactly the directive line is consumed.  The stack is a window model: an '
               'arbitrary number (< 2^62) of elements beneath the top two, so the step holds at every nesting depth; '
               'with the base case (init()) induction gives every directive sequence.  No loop is left in the '
               'verified text, nothing is unwound.')
TRUSTED = ['cbmc 6.11.0 C++ front end and SAT back end',
           'contracts/C13/model.hpp: window model of std::vector (push_back/back/pop_back/size/operator[]/clear), opaque std::string',
           'contracts/C13/skeleton.hpp: class skeleton of preprocessor_t (statusStack, status, errors), token_t/identifierToken/'
           'exprNode/expressionParser/macro_t carriers; opaque helpers getExpandedLineTokens, removeNewline, expressionParser::parse, '
           'exprNode::type/canEvaluate/evaluate, skipToNewline, warnOnNonEmptyLine, getSourceToken, getMacro, incrementNewline, '
           'pushOutput, token_t::printError: they return symbolic results and bump ghost counters, they do not touch status/statusStack',
           'the identifier->0 replacement loop of lineIsTrue is replaced by an opaque call (its text is checked mechanically '
           'not to mention status, statusStack, this, return or goto)']
ASSUMPTIONS = ['equal condition values: the value of a controlling expression / defined-ness of a macro is a symbolic input '
               '(expression evaluation is C14, macro tables are not modelled)',
               'the opaque token-level helpers do not write status/statusStack (getExpandedLineTokens saves and restores '
               'status around its reads: by inspection)',
               'the token reader drops a line iff status & ppStatus::ignoring (processToken/processIdentifier: by inspection)',
               'directive lines are dispatched to the six process* functions also while ignoring (processHashOperator: by inspection)',
               'fewer than 2^62 nested groups; error counter below 10^6 before the step (no int overflow of ++errors)',
               'single preprocessor instance, single thread']
NOT_REACHED = ['macro expansion, # and ##, function-like/variadic macros, #undef, token output (the rest of the C13 statement)',
               'value of the controlling expression incl. short-circuit of && || ?: (C14)',
               'crashes inside expressionParser::parse on malformed but legitimately evaluated conditions (e.g. "#if 0 / #elif )" segfaults natively)',
               '@directive bodies (push a fresh base status; OKL extension without C counterpart)',
               '#include, #define, #pragma, #error dispatch while skipping (processHashOperator)']

PP_CPP = 'src/occa/internal/lang/preprocessor.cpp'
PP_HPP = 'src/occa/internal/lang/preprocessor.hpp'
TOK_CPP = 'src/occa/internal/lang/token/token.cpp'

W = r'\s*'
ENUM_RULES = [
    ('namespace body -> anonymous enum (the front end gives namespace-scope `const int` wrong values / rejects them as '
     'constant expressions; an enumerator has the value of its initialiser, [dcl.enum])',
     r'^(\s*namespace \w+ \{)', r'\1 enum {', 1),
]


def consts_as_enum(ctx, rel, start, end, name, n, names):
    ex = extract_span(ctx, rel, start, end, name=name)
    text = rewrite(ex, ENUM_RULES + [
        ('`const int N = e;` -> enumerator `N = e,`', r'const int (\w+)\s*=\s*([^;]*);', r'\1 = \2,', n)])
    for nm in names:
        if not re.search(r'\b%s\s*=' % nm, text):
            raise Undecided('extraction break: constant %s not found in %s' % (nm, name))
    return ex, text + ' }; }'


def header_checks(ctx):
    """The skeleton mirrors two members and the constant names of the real header."""
    hpp = ctx.read(PP_HPP)
    for rx, what in [(r'std::vector<int>\s+statusStack;', 'std::vector<int> statusStack'),
                     (r'\bint\s+status;', 'int status'),
                     (r'\bint\s+warnings,\s*errors;', 'int warnings, errors'),
                     (r'typedef\s+std::vector<token_t\*>\s+tokenVector;', 'typedef std::vector<token_t*> tokenVector')]:
        if not re.search(rx, hpp):
            raise Undecided('extraction break: %s: member /%s/ not found (skeleton out of date)' % (PP_HPP, what))
    for nm in ['reading', 'ignoring', 'foundIf', 'foundElse', 'finishedIf']:
        if not re.search(r'extern const int %s;' % nm, hpp):
            raise Undecided('extraction break: ppStatus::%s not declared in %s' % (nm, PP_HPP))


def real_unit(ctx):
    header_checks(ctx)
    fns = []
    pps, pps_text = consts_as_enum(ctx, PP_CPP, r'^\s*namespace ppStatus \{', r'const int finishedIf[^;]*;',
                                   'namespace ppStatus (constants)', 5,
                                   ['reading', 'ignoring', 'foundIf', 'foundElse', 'finishedIf'])
    tts, tts_text = consts_as_enum(ctx, TOK_CPP, r'^\s*namespace tokenType \{', r'const int withUDF[^;]*;',
                                   'namespace tokenType (constants none .. withUDF)', 19,
                                   ['none', 'newline', 'identifier'])
    fns += [pps, tts]

    def get(rel, sig, name, rules=()):
        f = extract_function(ctx, rel, sig, name=name)
        fns.append(f)
        return rewrite(f, list(rules)) if rules else f.text

    parts = []
    parts.append(get(TOK_CPP, r'^\s*int token_t::safeType\(token_t \*token\)' + W + r'\{', 'token_t::safeType'))
    parts.append(get(PP_CPP, r'^\s*void preprocessor_t::errorOn\(token_t \*token,' + W + r'const std::string &message\)' + W + r'\{',
                     'preprocessor_t::errorOn'))
    # init(): only its first statement concerns the status; the remainder (special macros, newline
    # state) is cut, after checking that it does not mention the status
    init = extract_function(ctx, PP_CPP, r'^\s*void preprocessor_t::init\(\)' + W + r'\{', name='preprocessor_t::init (first statement)')
    m = re.match(r'\s*void preprocessor_t::init\(\)\s*\{\s*pushStatus\(ppStatus::reading\);(.*)\}\s*$', init.text, re.S)
    if not m:
        raise Undecided('extraction break: init() no longer starts with pushStatus(ppStatus::reading)')
    if re.search(r'\bstatus\b|statusStack|Status\(', m.group(1)):
        raise Undecided('extraction break: the remainder of init() touches the status; base case must be revisited')
    fns.append(init)
    parts.append(rewrite(init, [
        ('init(): text after the first statement dropped (special macros, newline state; checked not to mention status/statusStack)',
         r'(pushStatus\(ppStatus::reading\);).*\}\s*$', r'\1\n    }', 1)]))
    parts.append(get(PP_CPP, r'^\s*void preprocessor_t::pushStatus\(const int status_\)' + W + r'\{', 'preprocessor_t::pushStatus'))
    parts.append(get(PP_CPP, r'^\s*int preprocessor_t::popStatus\(\)' + W + r'\{', 'preprocessor_t::popStatus'))
    parts.append(get(PP_CPP, r'^\s*void preprocessor_t::swapReadingStatus\(\)' + W + r'\{', 'preprocessor_t::swapReadingStatus'))
    # lineIsTrue: the identifier -> 0 loop works on tokens only
    lit = extract_function(ctx, PP_CPP, r'^\s*bool preprocessor_t::lineIsTrue\(identifierToken &directive,' + W + r'bool &isTrue\)' + W + r'\{',
                           name='preprocessor_t::lineIsTrue')
    lm = re.search(r'const int tokenCount = \(int\) lineTokens\.size\(\);\s*for \(int i = 0; i < tokenCount; \+\+i\) \{(.*?)\n      \}\n',
                   lit.text, re.S)
    if not lm:
        raise Undecided('extraction break: token replacement loop of lineIsTrue not found')
    if re.search(r'status|Status|\bthis\b|\breturn\b|\bgoto\b|errorOn|isTrue', lm.group(1)):
        raise Undecided('extraction break: the token replacement loop of lineIsTrue is no longer token-only')
    fns.append(lit)
    parts.append(rewrite(lit, [
        ('lineIsTrue: identifier -> 0 replacement loop over the line tokens -> opaque call (loop body is token-only: '
         'mechanically checked not to mention status/statusStack/this/return/goto/errorOn/isTrue)',
         r'const int tokenCount = \(int\) lineTokens\.size\(\);\s*for \(int i = 0; i < tokenCount; \+\+i\) \{.*?\n      \}\n',
         'verif_replaceIdentifiers(lineTokens);\n', 1)]))
    parts.append(get(PP_CPP, r'^\s*bool preprocessor_t::getIfdef\(identifierToken &directive,' + W + r'bool &isTrue\)' + W + r'\{',
                     'preprocessor_t::getIfdef', [
        ('getIfdef: local variable `tokenType` renamed (it shadows namespace tokenType; the front end does not implement '
         '[basic.lookup.qual]: a name before :: ignores variables); pure renaming of a local',
         r'\btokenType\b(?!\s*::)', 'tokenTypeBits', 4),
        ('x->to<identifierToken>() -> x->to_identifierToken() (member templates with explicit arguments are not '
         'instantiated by the front end; textual instantiation, DESIGN 4.2)',
         r'->to<identifierToken>\(\)', '->to_identifierToken()', 1)]))
    for d in ['If', 'Ifdef', 'Ifndef', 'Elif', 'Else', 'Endif']:
        parts.append(get(PP_CPP, r'^\s*void preprocessor_t::process%s\(identifierToken &directive\)' % d + W + r'\{',
                         'preprocessor_t::process' + d))
    model = ctx.contract('C13/model.hpp')
    skel = ctx.contract('C13/skeleton.hpp')
    harness = ctx.contract('C13/harness.cpp')
    for ph, val in [('@PPSTATUS@', pps_text), ('@TOKENTYPE@', tts_text), ('@REAL@', '\n\n'.join(parts))]:
        if skel.count(ph) != 1:
            raise Undecided('skeleton placeholder %s missing' % ph)
        skel = skel.replace(ph, val)
    return model + skel + harness, fns


DIRS = ['if', 'ifdef', 'ifndef', 'elif', 'else', 'endif']
CASES = {
    'if': ['active-region', 'skipped-region'],
    'ifdef': ['active-region', 'skipped-region'],
    'ifndef': ['active-region', 'skipped-region'],
    'elif': ['without-if', 'after-else', 'skipped(taken-or-parent-inactive)', 'evaluated(nothing-taken-yet)'],
    'else': ['without-if', 'after-else', 'first-else'],
    'endif': ['without-if', 'closes-group'],
}
MIN_OBL = {'if': 10, 'ifdef': 10, 'ifndef': 10, 'elif': 8, 'else': 8, 'endif': 6}


def build(ctx):
    src, fns = real_unit(ctx)
    groups = []
    for d, dname in enumerate(DIRS):
        for c, cname in enumerate(CASES[dname]):
            groups.append(Group(
                name='step/%s/%s' % (dname, cname), sources={'pp.cpp': src}, entry='h_step', lang='cpp',
                defines=['VERIF_DIR=%d' % d, 'VERIF_CASE=%d' % c], min_obligations=MIN_OBL[dname],
                functions=fns, canary='CANARY', canary_label='canary', strength='proof', timeout=300,
                object_bits=10, param='directive=#%s pre-state class=%s' % (dname, cname),
                note='inductive step from every R-related state; stack = window of 2 over < 2^62 untouched elements',
                replay=replay_C13.replay))
    groups.append(Group(
        name='base/init', sources={'pp.cpp': src}, entry='h_init', lang='cpp', defines=['VERIF_DIR=6'],
        min_obligations=4, functions=fns, canary='CANARY', canary_label='canary', strength='proof', timeout=300, unwind=6,
        object_bits=10, param='initial state', note='clear_() + first statement of init()', replay=None))
    return groups
