"""C05 - device memory accounting returns to zero and tracks live allocations."""
from vp.core import Group
from vp import memunit
from recipes import C01, C03
from vp import replay_C05

LEVEL = 'proof'
EXPLANATION = ('Ghost definition accounted(b) = b.isWrapped ? 0 : b.size.  The invariant bytesAllocated == sum of '
               'accounted(b) over live buffers (and maxBytesAllocated == running maximum) is maintained iff every '
               'function that creates or destroys a buffer changes bytesAllocated by exactly the accounted size. '
               'That per-function delta contract is checked on the real text of device::malloc (core) with '
               'serial::device::malloc, serial::buffer::malloc/wrapMemory inlined, device::wrapMemory, and the '
               'destructor chain serial::buffer::~buffer + ~modeBuffer_t, for every entry count, element size, '
               'source pointer and use_host_pointer/own_host_pointer combination (loop-free: complete).  The pool '
               'functions\' accounting (backing buffers created and released by reserve/resize/shrinkToFit/setAlignment) is '
               'checked on the pool unit of C03/C04 (bounded groups pool/...).')
TRUSTED = ['cbmc 6.11.0 C++ front end and SAT back end',
           'flattened class skeletons (vp/memunit.py): json as consistent lookup, dtype_t as (bytes, registered), '
           'sys::malloc/free as counters, device::memoryProperties as identity',
           'destructor call on delete and by-value returns made explicit by must-fire rewrite rules']
ASSUMPTIONS = ['nested delete-expressions are recorded (each destructor is verified in its own group against the recorded deletes of its callees: modular)',
               'entries * sizeof(element) does not overflow 63 bits (|entries| < 2^40, element size <= 64)',
               'virtual calls resolve to the Serial-mode classes',
               'history-level statement follows by induction from the per-function deltas (not replayed as a whole)']
NOT_REACHED = ['clone() (malloc + copyFrom)', 'detach() (excluded by the property)',
               'other backends']

HARNESS = r'''
#ifndef DSZ
#define DSZ 4
#endif
static modeDevice_t g_dev;
static dtype_t g_dt;
static udim_t accounted(const modeBuffer_t *b) { return b->isWrapped ? 0 : b->size; }

static void any_device_state() {
  g_dev.bytesAllocated = nondet_ulong(); g_dev.maxBytesAllocated = nondet_ulong();
  __CPROVER_assume(g_dev.bytesAllocated < (1ul << 50) && g_dev.bytesAllocated <= g_dev.maxBytesAllocated && g_dev.maxBytesAllocated < (1ul << 51));
  g_dt.bytes_ = DSZ; g_dt.registered = true;
}

extern "C" void h_malloc() {
  any_device_state();
  device dev; dev.modeDevice = &g_dev;
  json props; props.use_host_pointer = nondet_bool(); props.own_host_pointer = nondet_bool();
  dim_t entries = nondet_long(); __CPROVER_assume(-(1l << 40) < entries && entries < (1l << 40));
  const void *src = nondet_bool() ? (const void*) (verif_heap + 4096) : (const void*) 0;
  udim_t b0 = g_dev.bytesAllocated, m0 = g_dev.maxBytesAllocated;
  verif_request_invalid = entries < 0;
  memory r;
  dev.malloc(r, entries, g_dt, src, props);
  if (entries == 0) {
    __CPROVER_assert(!r.isInitialized() && g_dev.bytesAllocated == b0 && g_dev.maxBytesAllocated == m0, "malloc of zero entries allocates and accounts nothing");
  } else {
    __CPROVER_assert(entries > 0, "negative allocation request must raise occa::exception");
    __CPROVER_assert(r.isInitialized(), "malloc returns an initialized memory");
    modeBuffer_t *buf = r.modeMemory->modeBuffer;
    __CPROVER_assert(buf->size == (udim_t) entries * DSZ && r.modeMemory->size == buf->size && r.modeMemory->offset == 0, "malloc creates a buffer and a view of entries * sizeof(element) bytes");
    __CPROVER_assert(buf->isWrapped == (src != 0 && props.use_host_pointer), "buffer wraps the host pointer exactly for use_host_pointer with a source");
    __CPROVER_assert(g_dev.bytesAllocated - b0 == accounted(buf), "malloc changes memoryAllocated() by exactly the accounted size of the new buffer (wrapped host pointers count nothing)");
    __CPROVER_assert(g_dev.maxBytesAllocated == (m0 < g_dev.bytesAllocated ? g_dev.bytesAllocated : m0), "maxMemoryAllocated() is the running maximum of memoryAllocated()");
    __CPROVER_assert((verif_memcpy_calls == 1) == (src != 0 && !props.use_host_pointer), "initial data is copied exactly when a source is given and not wrapped");
    /* release: the last handle goes away -> view and buffer are destroyed, accounting returns */
    udim_t acc = accounted(buf);
    r.setModeMemory(0);
    __CPROVER_assert(verif_deleted_memories == 1, "releasing the only handle deletes the view exactly once (its destructor: view_dtor group)");
    __CPROVER_assert(g_dev.memRefs == 1, "buffer is registered with the device exactly once");
  }
#ifdef CANARY
  __CPROVER_assert(entries <= 0, "canary");
#endif
}

extern "C" void h_wrapMemory() {
  any_device_state();
  device dev; dev.modeDevice = &g_dev;
  json props; props.use_host_pointer = nondet_bool(); props.own_host_pointer = nondet_bool();
  dim_t entries = nondet_long(); __CPROVER_assume(-(1l << 40) < entries && entries < (1l << 40));
  udim_t b0 = g_dev.bytesAllocated, m0 = g_dev.maxBytesAllocated;
  verif_request_invalid = entries < 0;
  memory r;
  dev.wrapMemory(r, (const void*) (verif_heap + 64), entries, g_dt, props);
  __CPROVER_assert(entries >= 0, "negative wrap request must raise occa::exception");
  __CPROVER_assert(r.isInitialized() && r.modeMemory->modeBuffer->isWrapped, "wrapMemory returns an initialized memory over a wrapped buffer");
  __CPROVER_assert(g_dev.bytesAllocated == b0 && g_dev.maxBytesAllocated == m0, "wrapped memory counts nothing");
  r.setModeMemory(0);
  __CPROVER_assert(g_dev.bytesAllocated == b0 && g_dev.maxBytesAllocated == m0, "releasing wrapped memory counts nothing");
  __CPROVER_assert(sys::verif_frees == 0, "wrapped host memory is never freed by the device");
#ifdef CANARY
  __CPROVER_assert(entries < 0, "canary");
#endif
}

extern "C" void h_buffer_dtor() {
  /* any live buffer (wrapped or not, with or without a view) accounted in the device total */
  any_device_state();
  json p; p.use_host_pointer = nondet_bool(); p.own_host_pointer = nondet_bool();
  modeBuffer_t *buf = new modeBuffer_t(&g_dev, 0, p);
  buf->size = nondet_ulong(); __CPROVER_assume(buf->size < (1ul << 48));
  buf->isWrapped = nondet_bool();
  buf->ptr = nondet_bool() ? verif_heap + 128 : (char*) 0;
  __CPROVER_assume(g_dev.bytesAllocated >= accounted(buf));
  bool hasView = nondet_bool();
  if (hasView) { modeMemory_t *v = verif_new_serial_memory(buf, buf->size, 0); }
  udim_t b0 = g_dev.bytesAllocated, m0 = g_dev.maxBytesAllocated, acc = accounted(buf);
  bool shouldFree = !buf->isWrapped && buf->ptr != 0 && (!p.use_host_pointer || p.own_host_pointer);
  verif_request_invalid = false;
  /* the delete-expression on a serial::buffer: derived destructor body, then base destructor body */
  buf->serial_dtor_body(); buf->~modeBuffer_t();
  __CPROVER_assert(verif_deleted_memories == (hasView ? 1 : 0), "destroying a buffer deletes each of its views exactly once");
  __CPROVER_assert(b0 - g_dev.bytesAllocated == acc, "destroying a buffer lowers memoryAllocated() by exactly its accounted size");
  __CPROVER_assert(g_dev.maxBytesAllocated == m0, "destroying a buffer does not change maxMemoryAllocated()");
  __CPROVER_assert(sys::verif_frees == (shouldFree ? 1 : 0), "device-owned storage is freed exactly once, wrapped or foreign host storage never");
  __CPROVER_assert(g_dev.memRefs == 0, "buffer is unregistered from the device");
#ifdef CANARY
  __CPROVER_assert(acc == 0, "canary");
#endif
}

extern "C" void h_view_dtor() {
  /* destroying a view unlinks it from its buffer and deletes the buffer iff it was the last view */
  any_device_state();
  json p;
  modeBuffer_t *buf = new modeBuffer_t(&g_dev, 0, p);
  buf->size = nondet_ulong(); __CPROVER_assume(buf->size < (1ul << 48));
  buf->ptr = verif_heap + 128;
  bool other = nondet_bool();
  modeMemory_t *v = verif_new_serial_memory(buf, buf->size, 0);
  modeMemory_t *w = other ? verif_new_serial_memory(buf, 0, 0) : (modeMemory_t*) 0;
  memory h1, h2; bool wrapped1 = nondet_bool(); if (wrapped1) { h1.setModeMemory(v); h2.setModeMemory(v); }
  udim_t b0 = g_dev.bytesAllocated;
  v->~modeMemory_t();
  __CPROVER_assert(!h1.isInitialized() && !h2.isInitialized(), "destroying a view un-initializes every handle that referred to it");
  __CPROVER_assert(v->modeBuffer == 0, "destroyed view no longer refers to its buffer");
  __CPROVER_assert(verif_deleted_buffers == (other ? 0 : 1), "the buffer is deleted exactly when its last view goes away");
  __CPROVER_assert(g_dev.bytesAllocated == b0, "destroying a view alone does not change the accounting (the buffer's destructor does)");
#ifdef CANARY
  __CPROVER_assert(other, "canary");
#endif
}
'''


def build(ctx):
    gc_text, gcfiles = C01.gc_unit(ctx)
    unit, fns = memunit.build_unit(ctx, gc_text)
    src = unit + HARNESS
    sizes = [1, 4, 12] if ctx.tier == 'quick' else [1, 2, 3, 4, 8, 12, 16, 64]
    groups = []
    checks = ['--bounds-check', '--pointer-check', '--div-by-zero-check', '--undefined-shift-check']
    for entry in ['h_malloc', 'h_wrapMemory', 'h_buffer_dtor', 'h_view_dtor']:
        for d in (sizes if entry in ('h_malloc', 'h_wrapMemory') else [4]):
            groups.append(Group(name='%s/dsz=%d' % (entry[2:], d), entry=entry, sources={'mem.cpp': src, 'helper.c': C01.HELPER_C},
                                lang='cpp', unwind=4, min_obligations=10, checks=checks, defines=['DSZ=%d' % d, 'VERIF_RECORD_DELETES'],
                                functions=fns + gcfiles, canary='CANARY', canary_label='canary', strength='proof',
                                object_bits=10, timeout=900, ignore=r'^verif_alive: \[pointer_primitives\]',
                                param='element size %d' % d, replay=replay_C05.replay))
    # memory pools that grow, shrink and re-align: the accounting obligations of the pool unit (bounded, see C03/C04)
    groups += C03.build(ctx, prop='C05', only_ops=['resize', 'setAlignment'] if ctx.tier == 'quick' else ['reserve', 'resize', 'shrinkToFit', 'setAlignment'],
                        only_aligns=[(128, 8)] if ctx.tier == 'quick' else None)
    return groups
