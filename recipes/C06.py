"""C06 - kernel cache keys separate every build configuration (composition law).

No contract can make a hash injective.  What is decidable is the COMPOSITION
law of the key under the stated idealisation "distinct byte strings hash to
XOR-linearly independent values" (contracts/C06/model.hpp realises it by
interning: the k-th distinct string gets the one-hot 256-bit value e_k).

Real text compiled by the C++ front end: serial::device::kernelHash,
openmp::device::kernelHash, kernelHeaderHash, device::setupKernelInfo,
hash_t::operator^<T> (T := json), hash_t::operator^ (hash_t), ==, !=, the
hash_t constructors, json::hash() and hash(const json&).

Relational contract over two symbolic configurations c1, c2:
   key(c1) == key(c2)  ==>  c1[p] == c2[p]   for each named build input p.
"""
import os
import re

from vp.core import Group, Undecided
from vp.extract import extract_function, extract_block, rewrite
from recipes.C14 import WS
from recipes.C27 import hash_fields, HASH_CPP, HASH_HPP

LEVEL = 'proof'
EXPLANATION = (
    'Composition law of the kernel cache key.  The real text of serial::device::kernelHash, openmp::device::kernelHash, '
    'kernelHeaderHash, device::setupKernelInfo, hash_t::operator^<json>, hash_t::operator^(hash_t)/==/!=, json::hash() and '
    'hash(const json&) is compiled by the C++ front end over a stub json whose property values are symbolic byte strings and a '
    'stub occa::hash(string) that realises the idealisation "distinct strings -> XOR-independent one-hot values, equal strings -> '
    'equal values" by interning.  For two arbitrary configurations (values may coincide across properties) CBMC checks, for each '
    'of the twelve named build inputs p: equal keys imply equal p; changing only p changes the key; identical inputs give identical keys. '
    'All loops have constant trip counts (8 hash words, pool and string capacities) and are fully unwound.')
TRUSTED = ['cbmc 6.11.0 C++ front end, SAT back end',
           'contracts/C06/model.hpp: the hash idealisation (interning one-hot occa::hash), the stub json (two configurations of symbolic '
           'value strings; unknown property names are JSON null), stubs/string (fixed-capacity std::string)',
           'skeleton classes: occa::device {modeDevice, assertInitialized() no-op, kernelProperties(props) = props (the configuration IS the '
           'effective kernelProps), hash() = hash of one fixed string (same device), applyDependencyHash = identity (file system)}; '
           'modeDevice_t flattened to serial::device / openmp::device (virtual call resolved per group)']
ASSUMPTIONS = ['hash idealisation: distinct byte strings hash to XOR-linearly independent 256-bit values (real hash(): C27 proves only absence of UB and determinism)',
               'property values are dumped to byte strings of exactly VLEN (quick 2, thorough 3) arbitrary non-zero bytes, so that every string length stays concrete; '
               'for key compositions that hash each dump separately only the equality pattern of the values matters, so no generality is lost for two configurations '
               '(2 x 15 values, 255^VLEN strings) and the groups are labelled proof; for compositions that concatenate names and dumps (kernelPropertyHash) the '
               'fixed length is a bound (coincidences that need values of different lengths, or a source text equal to a "name:value" string, are not explored) and '
               'the groups are labelled bounded, LEVEL other',
               'process environment held fixed: compiler_vendor, include_occa, link_occa and the device hash are equal in both configurations',
               'dependency (header file) hashes are outside (C07, not applicable)']
NOT_REACHED = ['applyDependencyHash / build.json dependencies (file system)', 'io::hashDir, cache directory layout, locking (C08/C09)',
               'device::kernelProperties merging (json operator+, C25/C26)', 'launcher modes (cuda, hip, opencl, dpcpp, metal) kernelHash',
               'that the compiler actually uses the inputs (the binary), hash() collisions of real strings']

SERIAL_CPP = 'src/occa/internal/modes/serial/device.cpp'
OPENMP_CPP = 'src/occa/internal/modes/openmp/device.cpp'
KERNEL_CPP = 'src/core/kernel.cpp'
DEVICE_CPP = 'src/core/device.cpp'
JSON_CPP = 'src/types/json.cpp'


def unit(ctx):
    fns = []

    def get(rel, sig, name, rules=()):
        f = extract_function(ctx, rel, sig, name=name)
        fns.append(f)
        return rewrite(f, list(rules))

    cls = hash_fields(ctx)
    fns.append(cls)
    cls_text = rewrite(cls, [
        ('member template declared in-class is instantiated textually: operator^<hash_t> (its explicit specialisation) and operator^<json>',
         r'template <class T>\n\s*hash_t operator \^ \(const T &t\) const;',
         'hash_t operator ^ (const hash_t &t) const;\n    hash_t operator ^ (const json &t) const;', 1),
        ('friend operator<< dropped (iostream)', r'friend std::ostream& operator << \(std::ostream &out,\s*const hash_t &hash\);', '', 1),
    ])
    hash_members = [
        get(HASH_CPP, r'^  hash_t::hash_t\(\) \{', 'hash_t::hash_t()'),
        get(HASH_CPP, r'^  hash_t::hash_t\(const hash_t &hash\) \{', 'hash_t::hash_t(const hash_t&)'),
        get(HASH_CPP, r'^  hash_t& hash_t::operator = \(const hash_t &hash\) \{', 'hash_t::operator='),
        get(HASH_CPP, r'^  bool hash_t::operator == \(const hash_t &fo\) const \{', 'hash_t::operator=='),
        get(HASH_CPP, r'^  bool hash_t::operator != \(const hash_t &fo\) const \{', 'hash_t::operator!='),
        get(HASH_CPP, r'^  template <>\n  hash_t hash_t::operator \^ \(const hash_t &hash\) const \{', 'hash_t::operator^(hash_t)',
            [('explicit specialisation marker dropped (declared as an ordinary member above)', r'template <>\n', '', 1)]),
        get(HASH_CPP, r'^  hash_t& hash_t::operator \^= \(const hash_t hash\) \{', 'hash_t::operator^='),
    ]
    xor_t = get(HASH_HPP, r'^  template <class T>\n  inline hash_t hash_t::operator \^ \(const T &t\) const \{', 'hash_t::operator^<T>', [
        ('de-template T := json', r'template <class T>\n', '', 1),
        ('de-template T := json', r'\(const T &t\)', '(const json &t)', 1)])
    json_hash = [
        get(JSON_CPP, r'^  hash_t json::hash\(\) const \{', 'json::hash()'),
        get(JSON_CPP, r'^  hash_t hash\(const occa::json &json\) \{', 'hash(const occa::json&)'),
    ]
    serial = get(SERIAL_CPP, r'^    hash_t device::kernelHash\(const occa::json &props\) const \{', 'serial::device::kernelHash')
    openmp = get(OPENMP_CPP, r'^    hash_t device::kernelHash\(const occa::json &props\) const \{', 'openmp::device::kernelHash')
    header = get(KERNEL_CPP, r'^  hash_t kernelHeaderHash\(const occa::json &props\) \{', 'kernelHeaderHash')
    setup = get(DEVICE_CPP, r'^  void device::setupKernelInfo\(const occa::json &props,\s*const hash_t &sourceHash,\s*occa::json &kernelProps,\s*hash_t &kernelHash\) const \{',
                'device::setupKernelInfo')
    # optional helpers a fix may introduce next to the key functions (extracted verbatim when present)
    extra = []
    src_kernel = ctx.read(KERNEL_CPP)
    m = re.search(r'^  hash_t kernelPropertyHash\(', src_kernel, re.M)
    if m:
        extra.append(get(KERNEL_CPP, r'^  hash_t kernelPropertyHash\(const occa::json &props,\s*const std::string &name\) \{', 'kernelPropertyHash'))
    text = '''#include <string>
#include <iostream>
typedef unsigned long udim_t;
/* C part of the trusted model (contracts/C06/model_c.c) */
extern "C" int verif_intern(const char *buf, unsigned long len);
extern "C" int verif_name_index(const char *key, const char *const *names, int n);
namespace occa {
  using std::operator+;   /* the front end has no argument-dependent lookup: make std::string concatenation visible */
  class json;
%(cls)s;
%(members)s
#include "C06/model.hpp"
  hash_t hash(const occa::json &json);
%(xor_t)s
%(json_hash)s
  /* ---- skeletons (trusted, see TRUSTED) ---- */
  hash_t kernelHeaderHash(const occa::json &props);
  hash_t kernelPropertyHash(const occa::json &props, const std::string &name);
  namespace serial {
    class device { public:
      hash_t kernelHash(const occa::json &props) const;
    };
  }
  namespace openmp {
    class device : public serial::device { public:
      hash_t kernelHash(const occa::json &props) const;
    };
  }
  typedef VERIF_MODE_DEVICE modeDevice_t;
  class device { public:
    modeDevice_t *modeDevice;
    void assertInitialized() const {}
    occa::json kernelProperties(const occa::json &additionalProps) const { return additionalProps; }
    hash_t hash() const { return occa::hash("<versioned hash of the device>"); }
    hash_t applyDependencyHash(const hash_t &kernelHash) const { return kernelHash; }
    void setupKernelInfo(const occa::json &props, const hash_t &sourceHash, occa::json &kernelProps, hash_t &kernelHash) const;
  };
  /* ---- real text ---- */
%(extra)s
  namespace serial {
%(serial)s
  }
  namespace openmp {
%(openmp)s
  }
%(header)s
%(setup)s
}
''' % dict(cls=cls_text, members='\n'.join(hash_members), xor_t=xor_t, json_hash='\n'.join(json_hash),
           serial=serial, openmp=openmp, header=header, setup=setup, extra='\n'.join(extra))
    return text, fns, bool(extra)


def build(ctx):
    from vp import replay_C06
    text, fns, concatenating = unit(ctx)
    # A composition that hashes every value dump on its own is decided completely by the equality pattern of the
    # values, which fixed-length symbolic strings realise without loss.  A composition that concatenates names and
    # dumps (kernelPropertyHash) is checked for value strings of the stated length only: labelled bounded.
    globals()['LEVEL'] = 'other' if concatenating else 'proof'
    src = text + ctx.contract('C06/harness.cpp')
    thorough = ctx.tier == 'thorough'
    vlen = 3 if thorough else 2
    pool = 96
    groups = []
    # the whole composition device::setupKernelInfo -> modeDevice->kernelHash + kernelHeaderHash + source hash, per mode
    variants = [('serial', 'occa::serial::device', True), ('openmp', 'occa::openmp::device', True)]
    for name, md, compose in variants:
        defs = ['VERIF_MODE_DEVICE=' + md, 'VERIF_VLEN=%d' % vlen, 'VERIF_POOL=%d' % pool, 'VERIF_STR_CAP=32']
        if compose:
            defs.append('VERIF_COMPOSE')
        groups.append(Group(
            name='key/' + name, sources={'c06.cpp': src, 'model_c.c': ctx.contract('C06/model_c.c')}, entry='h_keys', lang='cpp', defines=defs,
            unwind=97, object_bits=12, model_limits=r'model: interning pool capacity|verif_pool', min_obligations=15, functions=fns, canary='CANARY', canary_label='canary',
            strength='bounded' if concatenating else 'proof', timeout=int(os.environ.get('C06_TIMEOUT', '600')),
            bound='value dumps are strings of exactly %d arbitrary non-zero bytes (names and values are concatenated before hashing)' % vlen,
            param='mode=%s compose=%s' % (md, compose),
            note='loops: 8 hash words, interning pool <= %d strings, strings <= 32 bytes: constant capacities, asserted' % pool,
            replay=None if os.environ.get('C06_NO_REPLAY') else replay_C06.replay))
    only = os.environ.get('C06_ONLY')
    if only:
        groups = [g for g in groups if re.search(only, g.name)]
    return groups
