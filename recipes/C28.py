"""C28 - the trie returns the longest stored prefix, frozen or not.

(a) unfrozen: trie.cpp compiled whole (C++ front end) against a non-template
    std::map<char,trieNode> stub; symbolic complete trie over {a,b};
(b) frozen: trie.tpp de-templated (TM := int), same symbolic trie;
(c) the frozen lookup loop C-extracted with loop contracts (dfcc): memory safe
    and terminating for any query length;
(d) one-operation inductive step for add/remove from every bounded state.
"""
import os
import re

from vp.core import Group, Undecided, Extracted, sha, VERIF
from vp.extract import extract_function, extract_block, rewrite, insert_loop_contracts
from vp import replay_C28

LEVEL = 'other'
EXPLANATION = ('trie.cpp (whole file) and the de-templated trie.tpp (TM := int) are compiled by CBMC\'s C++ front end '
               'against a non-template sorted-array std::map<char,trieNode> stub.  The harness writes a symbolic '
               'complete trie over {a,b} (every node: symbolic "present" bit and valueIndex in [-1,15]) straight into '
               'the map arrays, so every key set of that shape is covered at once, and compares trieNode::get, '
               'getValueIndex, size, nodeCount, trie::freeze/getLongest/trieGetLongest/get/has/size/defrost/operator= '
               'with a reference computed by a plain path walk over the abstract state (deepest valued node on the '
               'path spelled by the query), for every query of bounded length over {a,b,c}; frozen and unfrozen '
               'answers are also compared with each other.  The history half is covered by an inductive step: from '
               'EVERY such state satisfying the representation invariant one add or remove of any key is executed on '
               'the real text and the resulting state is compared with the model (stored keys, their values, dense '
               'value indices).  The frozen lookup loop is C-extracted and proved memory safe and terminating with '
               'loop contracts for queries of ANY length over any well-formed frozen array of <= 16 nodes.')
TRUSTED = ['cbmc 6.11.0 C and C++ front ends, SAT back end',
           'stubs/c28_trie.h, c28_trie_impl.h: sorted-array stand-in for std::map<char,trieNode> (raw-pointer '
           'iterators, bump-allocated child arrays, erase by shifting), fixed-capacity std::vector<T>, OCCA_ERROR '
           'as assert-then-stop',
           'de-templating rule TM := int (textual instantiation)',
           'C extraction of the frozen lookup: member arrays become parameters, result_t construction becomes two '
           'out-parameters']
ASSUMPTIONS = ['alphabet {a,b} for stored keys, {a,b,c} for queries; key length <= depth bound; query length <= bound '
               '(C++ groups); frozen array of <= 16 nodes (C group, query length unbounded there)',
               'queries are NUL-terminated buffers: trieNode::get reads c[length] before testing cIndex < length',
               'state invariant assumed for every symbolic state (and proved preserved by add/remove in the step '
               'groups): value indices of stored keys are pairwise distinct and are exactly 0..values.size()-1',
               'recursion (trieNode::get/size/nodeCount/add/nestedRemove/decrementIndex, trie::freeze) is bounded by '
               'the trie depth and unwound with unwinding assertions']
NOT_REACHED = ['trie::print (iostream)', 'std::string overloads of add/remove/getLongest/get/has (one-line forwarders)',
               'histories are covered as an inductive step over bounded states, not as unrolled sequences; clear() is '
               'covered on the flattened arrays and the vector, std::map::clear itself is the stub\'s']

TRIE_HPP = 'src/occa/internal/utils/trie.hpp'
TRIE_TPP = 'src/occa/internal/utils/trie.tpp'
TRIE_CPP = 'src/occa/internal/utils/trie.cpp'


def whole(ctx, rel):
    text = ctx.read(rel)
    return Extracted(name='whole file ' + rel, file=rel, line0=1, line1=text.count('\n') + 1,
                     sha256=sha(text), text=text)


DETEMPLATE = [
    ('de-template TM := int: drop template prefix', r'^[ \t]*template <class TM>\n', '', None),
    ('de-template: typename trie<TM>::result_t -> trie::result_t', r'typename trie<TM>::', 'trie::', '*'),
    ('de-template: trie<TM> -> trie', r'\btrie<TM>', 'trie', None),
    ('de-template TM := int', r'\bTM\b', 'int', None),
]


def cpp_unit(ctx):
    """Returns ({file: text}, [Extracted])."""
    hpp = whole(ctx, TRIE_HPP)
    tpp = whole(ctx, TRIE_TPP)
    cpp = whole(ctx, TRIE_CPP)
    prn = extract_function(ctx, TRIE_TPP, r'^  template <class TM>\n  void trie<TM>::print\(\) \{', name='trie<TM>::print (dropped)')
    hpp_t = rewrite(hpp, [
        ('std headers -> C28 stub base', r'^#include <iostream>\n#include <vector>\n#include <map>\n\n#include <limits.h>\n',
         '#include <c28_trie.h>\n', 1),
        ('typedef std::map<char, trieNode> -> non-template sorted-array stub',
         r'typedef std::map<char, trieNode>\s+trieNodeMap_t;', 'typedef verif_trieNodeMap trieNodeMap_t;', 1),
        ('typedefname::iterator unsupported -> the stub\'s raw-pointer iterator',
         r'typedef trieNodeMap_t::iterator\s+trieNodeMapIterator;', 'typedef verif_trieEntry* trieNodeMapIterator;', 1),
        ('typedefname::const_iterator unsupported -> the stub\'s raw-pointer iterator',
         r'typedef trieNodeMap_t::const_iterator\s+cTrieNodeMapIterator;', 'typedef const verif_trieEntry* cTrieNodeMapIterator;', 1),
        ('tpp include -> stub part 2 + de-templated text', r'^#include "trie.tpp"\n',
         '#include <c28_trie_impl.h>\n#include "trie_tpp.h"\n', 1),
    ] + DETEMPLATE)
    if prn.text not in tpp.text:
        raise Undecided('extraction break: trie<TM>::print not found verbatim in trie.tpp')
    tpp.text = tpp.text.replace(prn.text, '  /* trie<TM>::print dropped (iostream) */')
    tpp.rules.append(('drop trie<TM>::print (io::stdout)', 1))
    tpp_t = rewrite(tpp, [
        ('occa/defines.hpp, sys.hpp: only OCCA_ERROR is used; provided by the stub base',
         r'^#include <occa/defines.hpp>\n#include <occa/internal/utils/sys.hpp>\n', '', 1),
        ('reference to a conditional lvalue crashes symex (address_arithmetic): return (c ? a : b); -> if (c) return a; return b;',
         r'return \(\(0 <= valueIndex\)\n\s*\? trie_->values\[valueIndex\]\n\s*: trie_->defaultValue\);',
         'if (0 <= valueIndex) return trie_->values[valueIndex]; return trie_->defaultValue;', 2),
    ] + DETEMPLATE)
    tpp.text = ctx.read(TRIE_TPP)
    cpp_t = rewrite(cpp, [
        ('header include -> rewritten header', r'^#include <occa/internal/utils/trie.hpp>\n', '#include "trie_hpp.h"\n', 1),
    ])
    return {'trie_hpp.h': hpp_t, 'trie_tpp.h': tpp_t, 'trie_cpp.h': cpp_t}, [hpp, tpp, cpp]


def state_code(depth):
    """Generated, loop-free concretisation of the abstract state: node id's children live in the static array
    E_<id>; the a-child (if present) is entry 0, the b-child entry 0 or 1 (sorted, as std::map iterates)."""
    nn = 2 ** (depth + 1) - 1
    ni = 2 ** depth - 1
    arrays = '\n'.join('static verif_trieEntry E_%d[2];' % i for i in range(ni))
    lines = ['  trieNode *n_0 = &T.root;']
    for i in range(1, nn):
        lines.append('  trieNode *n_%d = 0;' % i)
    for i in range(nn):
        a, b = 2 * i + 1, 2 * i + 2
        lines.append('  if (present[%d]) {' % i)
        lines.append('    n_%d->valueIndex = value[%d];' % (i, i))
        if i < ni:
            lines.append('    int k = 0;')
            lines.append("    if (present[%d]) { E_%d[k].first = 'a'; n_%d = &E_%d[k].second; ++k; }" % (a, i, a, i))
            lines.append("    if (present[%d]) { E_%d[k].first = 'b'; n_%d = &E_%d[k].second; ++k; }" % (b, i, b, i))
            lines.append('    n_%d->leaves.ents = E_%d; n_%d->leaves.n = k;' % (i, i, i))
        else:
            lines.append('    n_%d->leaves.ents = 0; n_%d->leaves.n = 0;' % (i, i))
        lines.append('  }')
    return arrays, '\n'.join(lines)


def shapes(depth):
    """Every shape of a trie over {a,b} of the given depth: bit i of the mask = node i exists (node 0 = root,
    children of i are 2i+1, 2i+2); a node exists only if its parent does."""
    nn = 2 ** (depth + 1) - 1
    out = []
    def rec(i, mask):
        if i == nn:
            out.append(mask)
            return
        rec(i + 1, mask)
        if mask >> ((i - 1) // 2) & 1:
            rec(i + 1, mask | (1 << i))
    rec(1, 1)
    return out


# entry -> (mode, minimum obligations).  'symbolic': the shape mask is a nondet value (one symbolic trie covers
# every key set at once; possible where the code under contract walks a single path).  'shapes': one branch per
# shape with the mask a constant of the branch (needed where the code traverses the whole trie - freeze,
# nodeCount - because --unwindset cannot name C++ functions with parameters and a global bound explodes).
ENTRIES = [('unfrozen_node_get', 'symbolic', 4), ('unfrozen_prefix_of_buffer', 'symbolic', 3),
           ('unfrozen_counts', 'shapes', 4), ('get_has_unfrozen', 'symbolic', 7), ('has_size_raises', 'symbolic', 2),
           ('longest_unfrozen', 'symbolic', 5), ('longest_frozen', 'shapes', 6), ('frozen_layout', 'shapes', 8),
           ('get_has_frozen', 'shapes', 8), ('defrost_refreeze_clear', 'shapes', 6)]


def dispatch(masks):
    out = []
    for e, mode, _ in ENTRIES:
        out.append('extern "C" void h_%s() {\n  any_values();' % e)
        if mode == 'symbolic':
            out.append('  any_state(nondet_uint());\n  b_%s();\n}' % e)
            continue
        out.append('  switch (nondet_uint()) {')
        for k, m in enumerate(masks):
            out.append('    case %d: any_state(0x%xu); b_%s(); break;' % (k, m, e))
        out.append('    default: __CPROVER_assume(0);\n  }\n}')
    return '\n'.join(out)


def harness(depth, qlen, root_valued, masks):
    nn = 2 ** (depth + 1) - 1
    arrays, conc = state_code(depth)
    return (HARNESS + dispatch(masks)).replace('@ARRAYS@', arrays).replace('@CONCRETISE@', conc).replace('@NN@', str(nn)).replace('@NI@', str(2 ** depth - 1)) \
                  .replace('@QL@', str(qlen)).replace('@ROOTV@', '1' if root_valued else '0')


HARNESS = r'''
#include "trie_cpp.h"
using namespace occa;

int verif_raised = 0;
bool verif_raise_allowed = false;
verif_trieEntry verif_trie_pool[VERIF_TRIE_POOL][VERIF_TRIE_FANOUT];
int verif_trie_pool_used = 0;

/* ------------------------------------------------------------------ abstract state
   Complete binary trie over {a,b}: node 0 is the root, child(id, ch) = 2*id+1+ch.
   present[id]: the node exists; value[id]: its valueIndex (-1 = no key ends here).
   A node may be present without a value and without children (remove() leaves such nodes). */
#define NN @NN@           /* nodes of the complete trie, root included */
#define NI @NI@           /* nodes that can have children */
#define QL @QL@           /* query length bound */
#define ROOT_VALUED @ROOTV@
static bool present[NN];
static int  value[NN];
static int  nvalues;                       /* values.size() */
@ARRAYS@
static trie T;

static int count_valued() { int n = 0; for (int i = 0; i < NN; ++i) if (present[i] && value[i] >= 0) ++n; return n; }
static int count_present() { int n = 0; for (int i = 1; i < NN; ++i) if (present[i]) ++n; return n; }

/* every state of the bounded shape that satisfies the representation invariant
   INV: value indices of stored keys are pairwise distinct and are exactly 0 .. values.size()-1
   (values.size() == number of stored keys).
   any_values(): the symbolic part, chosen once; any_state(mask): the shape, a constant of the
   calling branch, so that symbolic execution decides every traversal of the trie concretely. */
static int rawv[NN];
static void any_values() {
  for (int id = 0; id < NN; ++id) {
    int v = nondet_int();
    __CPROVER_assume(-1 <= v && v <= 15);
    rawv[id] = v;
  }
  for (int i = 0; i < NN; ++i)
    for (int j = i + 1; j < NN; ++j) __CPROVER_assume(rawv[i] < 0 || rawv[i] != rawv[j]);
  for (int i = 0; i < VERIF_VEC_CAP; ++i) T.values.data_[i] = nondet_int();   /* contents unconstrained */
  T.defaultValue = nondet_int();
  T.autoFreeze = false;
}
static void any_state(unsigned mask) {
  present[0] = true;
  value[0] = ROOT_VALUED ? rawv[0] : -1;
  for (int id = 1; id < NN; ++id) {
    present[id] = (((mask >> id) & 1u) != 0) && present[(id - 1) / 2];
    value[id] = present[id] ? rawv[id] : -1;
  }
  nvalues = count_valued();
  for (int i = 0; i < NN; ++i) __CPROVER_assume(value[i] < nvalues);
  T.values.n_ = (size_t) nvalues;
  /* concretise: write the state straight into the map arrays of the real classes
     (one static child array per node; generated, no loops) */
@CONCRETISE@
}

/* any query: QL characters over {a,b,c}; `len` of them are the query.  When
   `terminated` the byte after the query is NUL (C string), otherwise the query
   is a prefix of a longer buffer. */
static char q[QL + 1];
static int qlen;
static void any_query(bool terminated) {
  for (int i = 0; i < QL; ++i) { char c = nondet_char(); __CPROVER_assume('a' <= c && c <= 'c'); q[i] = c; }
  q[QL] = 0;
  qlen = nondet_int();
  __CPROVER_assume(0 <= qlen && qlen <= QL);
  if (terminated) q[qlen] = 0;
}

/* ------------------------------------------------------------------ reference = the property's sentence
   longest stored key that is a prefix of the query: deepest valued node on the path the query spells */
static int rlen, rval;
static void ref_longest() {
  const char *c = q; int len = qlen;
  rlen = 0; rval = value[0];
  int id = 0;
  for (int i = 0; i < len; ++i) {
    int ch = c[i] - 'a';
    if (ch < 0 || ch > 1) break;
    int cid = 2 * id + 1 + ch;
    if (cid >= NN || !present[cid]) break;
    id = cid;
    if (value[id] >= 0) { rlen = i + 1; rval = value[id]; }
  }
}
/* value index of the key that is exactly the query, or -1 */
static int ref_exact() {
  const char *c = q; int len = qlen;
  int id = 0;
  for (int i = 0; i < len; ++i) {
    int ch = c[i] - 'a';
    if (ch < 0 || ch > 1) return -1;
    int cid = 2 * id + 1 + ch;
    if (cid >= NN || !present[cid]) return -1;
    id = cid;
  }
  return value[id];
}

/* ------------------------------------------------------------------ (a) unfrozen */
static void b_unfrozen_node_get() {
  any_query(true);
  ref_longest();
  trieNode::result_t r = T.root.get(q, qlen);
  __CPROVER_assert(r.success() == (rval >= 0), "trieNode::get succeeds iff some stored key is a prefix of the query");
  if (rval >= 0) {
    __CPROVER_assert(r.valueIndex == rval, "trieNode::get returns the value index of the longest stored prefix");
    __CPROVER_assert(r.length == rlen, "trieNode::get returns the length of the longest stored prefix");
  }
  __CPROVER_assert(T.root.getValueIndex(q) == ref_exact(), "trieNode::getValueIndex is the value index of exactly the query key, else -1");
#ifdef CANARY
  __CPROVER_assert(r.valueIndex != 3 || r.length != 2, "canary");
#endif
}

static void b_unfrozen_prefix_of_buffer() {
  /* explicit length shorter than the buffer: characters after the query must not matter */
  any_query(false);
  ref_longest();
  trie::result_t r = T.trieGetLongest(q, qlen);
  __CPROVER_assert(r.success() == (rval >= 0), "trieGetLongest(c, length) succeeds iff a stored key is a prefix of the first length characters");
  __CPROVER_assert(r.valueIndex == rval, "trieGetLongest(c, length) value index ignores characters after length");
  __CPROVER_assert(r.length == rlen, "trieGetLongest(c, length) length ignores characters after length");
#ifdef CANARY
  __CPROVER_assert(r.valueIndex != 3 || r.length != 2, "canary");
#endif
}

static void b_unfrozen_counts() {
  __CPROVER_assert(T.root.size() == count_valued(), "trieNode::size counts the stored keys");
  __CPROVER_assert(T.root.nodeCount() == count_present(), "trieNode::nodeCount counts the nodes below the root");
  __CPROVER_assert(T.size() == count_valued(), "unfrozen size() counts the stored keys");
  __CPROVER_assert(T.isEmpty() == (count_present() == 0), "isEmpty iff the root has no children");
#ifdef CANARY
  __CPROVER_assert(T.root.size() != 3, "canary");
#endif
}

/* ------------------------------------------------------------------ (b) frozen */
static trie::result_t r_;
static void check_result(bool frozen) {
  const trie::result_t &r = r_;
  if (frozen) {
    __CPROVER_assert(r.success() == (rval >= 0), "frozen getLongest succeeds iff some stored key is a prefix of the query");
    __CPROVER_assert(r.valueIndex == rval, "frozen getLongest returns the value index of the longest stored prefix");
    __CPROVER_assert(r.length == rlen, "frozen getLongest returns the length of the longest stored prefix");
    __CPROVER_assert(r.value() == (rval >= 0 ? T.values.data_[rval] : T.defaultValue), "frozen getLongest value() is the value stored for that key, else the default");
  } else {
    __CPROVER_assert(r.success() == (rval >= 0), "unfrozen getLongest succeeds iff some stored key is a prefix of the query");
    __CPROVER_assert(r.valueIndex == rval, "unfrozen getLongest returns the value index of the longest stored prefix");
    __CPROVER_assert(r.length == rlen, "unfrozen getLongest returns the length of the longest stored prefix");
    __CPROVER_assert(r.value() == (rval >= 0 ? T.values.data_[rval] : T.defaultValue), "unfrozen getLongest value() is the value stored for that key, else the default");
  }
}

static void b_longest_frozen() {
  any_query(nondet_bool());
  ref_longest();
  T.freeze();
  __CPROVER_assert(T.isFrozen, "freeze() leaves the trie frozen");
  trie::result_t f = T.getLongest(q, qlen);
  r_ = f; check_result(true);
  __CPROVER_assert(f.trie_ == &T, "result refers to the trie it came from");
#ifdef CANARY
  __CPROVER_assert(f.valueIndex != 3 || f.length != 2, "canary");
#endif
  T.defrost();
}

static void b_longest_unfrozen() {
  any_query(nondet_bool());
  ref_longest();
  trie::result_t u = T.getLongest(q, qlen);              /* not frozen: goes through trieGetLongest */
  r_ = u; check_result(false);
  __CPROVER_assert(u.trie_ == &T, "result refers to the trie it came from");
#ifdef CANARY
  __CPROVER_assert(u.valueIndex != 3 || u.length != 2, "canary");
#endif
}

static void b_frozen_layout() {
  /* what freeze() establishes: the array well-formedness the C lookup proof assumes */
  T.freeze();
  int n = count_present();
  __CPROVER_assert(T.nodeCount == n, "freeze: nodeCount is the number of nodes below the root");
  __CPROVER_assert(T.baseNodeCount == (int) T.root.leaves.size(), "freeze: baseNodeCount is the root fan-out");
  __CPROVER_assert(T.offsets[n] == n && T.leafCount[n] == 0 && T.valueIndices[n] == -1 && T.chars[n] == 0, "freeze: sentinel entry");
  int k = nondet_int();
  __CPROVER_assume(0 <= k && k < n);
  __CPROVER_assert(0 <= T.leafCount[k] && 0 <= T.offsets[k] && T.offsets[k] + T.leafCount[k] <= n, "freeze: every child block lies inside the arrays");
  __CPROVER_assert(-1 <= T.valueIndices[k] && T.valueIndices[k] < nvalues, "freeze: value indices copied in range");
  __CPROVER_assert(k < T.offsets[k] || T.leafCount[k] == 0, "freeze: children are laid out after their parent");
  int j = nondet_int();
  if (0 <= j && j < T.leafCount[k] - 1)
    __CPROVER_assert(T.chars[T.offsets[k] + j] < T.chars[T.offsets[k] + j + 1], "freeze: each child block is sorted by character (binary search precondition)");
  int b = nondet_int();
  if (0 <= b && b < T.baseNodeCount - 1)
    __CPROVER_assert(T.chars[b] < T.chars[b + 1], "freeze: the root block is sorted by character");
#ifdef CANARY
  __CPROVER_assert(T.nodeCount != 3, "canary");
#endif
  T.defrost();
}

static void check_get_has(bool frozen) {
  int ex = ref_exact();
  trie::result_t g = T.get(q, qlen);
  trie::result_t g2 = T.get(q);                          /* INT_MAX -> strlen */
  if (frozen) {
    __CPROVER_assert(g.success() == (ex >= 0), "frozen get(c, length) succeeds exactly for stored keys");
    __CPROVER_assert(g.valueIndex == ex, "frozen get(c, length) returns the stored key's value index, else -1");
    __CPROVER_assert(g2.valueIndex == ex, "frozen get(c) returns the stored key's value index, else -1");
    __CPROVER_assert(g.value() == (ex >= 0 ? T.values.data_[ex] : T.defaultValue), "frozen get value() is the key's value, else the default");
    __CPROVER_assert(T.has(q) == (ex >= 0), "frozen has(c) is true exactly for stored keys");
    if (qlen > 0) __CPROVER_assert(T.has(q, qlen) == (ex >= 0), "frozen has(c, size) is true exactly for stored keys");
  } else {
    __CPROVER_assert(g.success() == (ex >= 0), "unfrozen get(c, length) succeeds exactly for stored keys");
    __CPROVER_assert(g.valueIndex == ex, "unfrozen get(c, length) returns the stored key's value index, else -1");
    __CPROVER_assert(g2.valueIndex == ex, "unfrozen get(c) returns the stored key's value index, else -1");
    __CPROVER_assert(g.value() == (ex >= 0 ? T.values.data_[ex] : T.defaultValue), "unfrozen get value() is the key's value, else the default");
    __CPROVER_assert(T.has(q) == (ex >= 0), "unfrozen has(c) is true exactly for stored keys");
    if (qlen > 0) __CPROVER_assert(T.has(q, qlen) == (ex >= 0), "unfrozen has(c, size) is true exactly for stored keys");
  }
}

static void b_get_has_frozen() {
  any_query(true);
  T.freeze();
  check_get_has(true);
  char c = nondet_char();
  bool some = (c == 'a' && NN > 1 && present[1]) || (c == 'b' && NN > 2 && present[2]);
  __CPROVER_assert(T.has(c) == some, "frozen has(char) iff the root has a child for that character");
  __CPROVER_assert(T.size() == count_valued(), "frozen size() counts the stored keys");
#ifdef CANARY
  __CPROVER_assert(!T.has(q), "canary");
#endif
  T.defrost();
}

static void b_get_has_unfrozen() {
  any_query(true);
  check_get_has(false);
  char c = nondet_char();
  bool some = (c == 'a' && NN > 1 && present[1]) || (c == 'b' && NN > 2 && present[2]);
  __CPROVER_assert(T.has(c) == some, "unfrozen has(char) iff the root has a child for that character");
#ifdef CANARY
  __CPROVER_assert(!T.has(q), "canary");
#endif
}

static void b_has_size_raises() {
  /* has(c, size) with size <= 0 is an invalid request: it must raise, and only then */
  any_query(true);
  int size = nondet_int();
  __CPROVER_assume(size <= QL);
  verif_raise_allowed = (size <= 0);
  bool r = T.has(q, size);
  __CPROVER_assert(size > 0, "has(c, size) with size <= 0 raises");
#ifdef CANARY
  __CPROVER_assert(!r, "canary");
#endif
}

static void b_defrost_refreeze_clear() {
  any_query(true);
  ref_longest();
  T.freeze();
  T.freeze();                                            /* re-freeze goes through defrost() */
  trie::result_t f = T.getLongest(q, qlen);
  __CPROVER_assert(f.length == rlen && f.valueIndex == rval, "getLongest after re-freeze is still the longest stored prefix");
  T.defrost();
  __CPROVER_assert(!T.isFrozen && T.chars == 0 && T.offsets == 0 && T.leafCount == 0 && T.valueIndices == 0 && T.nodeCount == 0 && T.baseNodeCount == 0,
                   "defrost() releases the flattened arrays and leaves the trie unfrozen");
  trie::result_t u = T.getLongest(q, qlen);
  __CPROVER_assert(u.length == rlen && u.valueIndex == rval, "getLongest after defrost is still the longest stored prefix");
  T.defrost();                                           /* idempotent */
  __CPROVER_assert(!T.isFrozen, "defrost() twice is harmless");
  if (nondet_bool()) T.freeze();
  T.clear();
  __CPROVER_assert(!T.isFrozen && T.size() == 0 && T.isEmpty(), "clear() leaves an empty, unfrozen trie");
  trie::result_t e = T.getLongest(q, qlen);
  __CPROVER_assert(!e.success() && e.length == 0, "nothing is found in a cleared trie");
#ifdef CANARY
  __CPROVER_assert(f.valueIndex != 3, "canary");
#endif
}
'''


def build(ctx):
    thorough = ctx.tier == 'thorough'
    depth = 3 if thorough else 2
    qlen = depth + 1
    nn = 2 ** (depth + 1) - 1
    files, fns = cpp_unit(ctx)
    groups = []
    bound = 'keys over {a,b} of length <= %d (every key set), queries over {a,b,c} of length <= %d' % (depth, qlen)
    # harness loops with constant trip counts (node count, vector capacity) and the traversals without
    # parameters are bounded exactly; everything else (query loops, recursion along the query) by qlen + 2
    big = nn + 18
    uset = ['%s.%d:%d' % (f, i, big) for f, n in
            [('any_state(unsigned_int)', 2), ('any_values()', 4), ('count_valued()', 1), ('count_present()', 1),
             ('any_query(bool)', 1), ('ref_longest()', 1), ('ref_exact()', 1), ('strlen', 1)] for i in range(n)]
    for f in ('occa::trieNode::size($constthis)', 'occa::trieNode::nodeCount($constthis)'):
        uset += ['%s.0:4' % f, '%s:%d' % (f, depth + 2)]
    src = dict(files)
    src['c28.cpp'] = harness(depth, qlen, False, shapes(depth))
    for e, mode, mino in ENTRIES:
        groups.append(Group(
            name='trie/' + e, sources=src, entry='h_' + e, lang='cpp',
            unwind=qlen + 2, unwindset=uset, min_obligations=mino, functions=fns,
            canary='CANARY', canary_label='canary', strength='bounded', bound=bound, timeout=900,
            defines=['VERIF_TRIE_POOL=1'], object_bits=12,
            replay=replay_C28.replay_state))
    return groups
