"""C28 - the trie returns the longest stored prefix, frozen or not.

(a) unfrozen: trie.cpp compiled whole (C++ front end) against a non-template
    std::map<char,trieNode> stub; symbolic complete trie over {a,b};
(b) frozen: trie.tpp de-templated (TM := int), same symbolic trie;
(c) the frozen lookup loop C-extracted with loop contracts (dfcc): memory safe
    and terminating for any query length;
(d) one-operation inductive step for add/remove from every bounded state.
"""
import os
import re

from vp.core import Group, Undecided, Extracted, sha, VERIF
from vp.extract import extract_function, extract_block, rewrite, insert_loop_contracts
from vp import replay_C28

LEVEL = 'other'
EXPLANATION = ('trie.cpp (whole file) and the de-templated trie.tpp (TM := int) are compiled by CBMC\'s C++ front end '
               'against a non-template sorted-array std::map<char,trieNode> stub.  The harness writes a symbolic '
               'complete trie over {a,b} (every node: "present" bit and symbolic valueIndex in [-1,15]) straight into '
               'the map arrays, so every key set of that shape - and every trie with the valueless childless nodes '
               'remove() can leave behind - is covered, and compares trieNode::get, getValueIndex, size, nodeCount, '
               'trie::freeze/getLongest/trieGetLongest/get/has/size/defrost/clear with a reference computed by a '
               'plain path walk over the abstract state (deepest valued node on the path spelled by the query), for '
               'every query of bounded length over {a,b,c}.  Frozen and unfrozen answers equal the same reference on '
               'the same state, hence each other.  Where the code traverses the whole trie (freeze, size, nodeCount, '
               'decrementIndex) the shape is enumerated (one branch per shape, values symbolic), because CBMC cannot '
               'bound loops of C++ functions with parameters individually.  The history half is an inductive step: '
               'from EVERY such state satisfying the representation invariant one add / remove of any key runs on '
               'the real text and the post-state, read back through the real map, is compared with the model (stored '
               'keys, the value of each, dense distinct value indices).  The frozen lookup loop is also C-extracted '
               'and proved memory safe and terminating with loop contracts for queries of ANY length over any '
               'well-formed frozen array of <= 16 nodes.')
TRUSTED = ['cbmc 6.11.0 C and C++ front ends, SAT back end',
           'stubs/c28_trie.h, c28_trie_impl.h: sorted-array stand-in for std::map<char,trieNode> (raw-pointer '
           'iterators, loop-free find/erase/operator[] for fan-out <= 4, bump-allocated child arrays), '
           'fixed-capacity std::vector<T>, OCCA_ERROR as assert-then-stop',
           'de-templating rule TM := int (textual instantiation)',
           'C extraction of the frozen lookup: member arrays become parameters, result_t construction becomes two '
           'out-parameters',
           'harness relocate(): the arrays produced by the real freeze() are moved element by element into static '
           'storage before the lookups run']
ASSUMPTIONS = ['alphabet {a,b} for stored keys, {a,b,c} for queries; key length <= depth bound (2 quick / 3 thorough '
               'for lookups, 2 for the history step); query length <= depth + 1 (C++ groups); frozen array of <= 16 '
               'nodes (C group, query length unbounded there)',
               'queries are NUL-terminated or prefixes of longer buffers: trieNode::get reads c[length] before '
               'testing cIndex < length',
               'state invariant assumed for every symbolic state (and proved preserved by add/remove in the step '
               'groups): value indices of stored keys are pairwise distinct and are exactly 0..values.size()-1',
               'recursion and loops over the trie are bounded by the depth / fan-out / query length and unwound with '
               'unwinding assertions',
               'history step: autoFreeze off (the autoFreeze paths are op; freeze() and defrost(); op, each covered '
               'from every state by its own group); trie::remove as a whole only at depth 1 with <= 7 values, its '
               'node half (nestedRemove + decrementIndex) at depth 2']
NOT_REACHED = ['trie::print (iostream)', 'std::string overloads of add/remove/getLongest/get/has (one-line forwarders)',
               'trie::operator= / copy constructor (copy loop of nodeCount + 1 iterations in a function whose loops '
               'cannot be bounded individually)',
               'histories as unrolled sequences (covered as an inductive step over bounded states instead)',
               'std::map::clear itself (stub)']

TRIE_HPP = 'src/occa/internal/utils/trie.hpp'
TRIE_TPP = 'src/occa/internal/utils/trie.tpp'
TRIE_CPP = 'src/occa/internal/utils/trie.cpp'


def whole(ctx, rel):
    text = ctx.read(rel)
    return Extracted(name='whole file ' + rel, file=rel, line0=1, line1=text.count('\n') + 1,
                     sha256=sha(text), text=text)


DETEMPLATE = [
    ('de-template TM := int: drop template prefix', r'^[ \t]*template <class TM>\n', '', None),
    ('de-template: typename trie<TM>::result_t -> trie::result_t', r'typename trie<TM>::', 'trie::', '*'),
    ('de-template: trie<TM> -> trie', r'\btrie<TM>', 'trie', None),
    ('de-template TM := int', r'\bTM\b', 'int', None),
]


def cpp_unit(ctx):
    """Returns ({file: text}, [Extracted])."""
    hpp = whole(ctx, TRIE_HPP)
    tpp = whole(ctx, TRIE_TPP)
    cpp = whole(ctx, TRIE_CPP)
    prn = extract_function(ctx, TRIE_TPP, r'^  template <class TM>\n  void trie<TM>::print\(\) \{', name='trie<TM>::print (dropped)')
    hpp_t = rewrite(hpp, [
        ('std headers -> C28 stub base', r'^#include <iostream>\n#include <vector>\n#include <map>\n\n#include <limits.h>\n',
         '#include <c28_trie.h>\n', 1),
        ('typedef std::map<char, trieNode> -> non-template sorted-array stub',
         r'typedef std::map<char, trieNode>\s+trieNodeMap_t;', 'typedef verif_trieNodeMap trieNodeMap_t;', 1),
        ('typedefname::iterator unsupported -> the stub\'s raw-pointer iterator',
         r'typedef trieNodeMap_t::iterator\s+trieNodeMapIterator;', 'typedef verif_trieEntry* trieNodeMapIterator;', 1),
        ('typedefname::const_iterator unsupported -> the stub\'s raw-pointer iterator',
         r'typedef trieNodeMap_t::const_iterator\s+cTrieNodeMapIterator;', 'typedef const verif_trieEntry* cTrieNodeMapIterator;', 1),
        ('tpp include -> stub part 2 + de-templated text', r'^#include "trie.tpp"\n',
         '#include <c28_trie_impl.h>\n#include "trie_tpp.h"\n', 1),
    ] + DETEMPLATE)
    if prn.text not in tpp.text:
        raise Undecided('extraction break: trie<TM>::print not found verbatim in trie.tpp')
    tpp.text = tpp.text.replace(prn.text, '  /* trie<TM>::print dropped (iostream) */')
    tpp.rules.append(('drop trie<TM>::print (io::stdout)', 1))
    tpp_t = rewrite(tpp, [
        ('occa/defines.hpp, sys.hpp: only OCCA_ERROR is used; provided by the stub base',
         r'^#include <occa/defines.hpp>\n#include <occa/internal/utils/sys.hpp>\n', '', 1),
        ('reference to a conditional lvalue crashes symex (address_arithmetic): return (c ? a : b); -> if (c) return a; return b;',
         r'return \(\(0 <= valueIndex\)\n\s*\? trie_->values\[valueIndex\]\n\s*: trie_->defaultValue\);',
         'if (0 <= valueIndex) return trie_->values[valueIndex]; return trie_->defaultValue;', 2),
    ] + DETEMPLATE)
    tpp.text = ctx.read(TRIE_TPP)
    cpp_t = rewrite(cpp, [
        ('header include -> rewritten header', r'^#include <occa/internal/utils/trie.hpp>\n', '#include "trie_hpp.h"\n', 1),
    ])
    return {'trie_hpp.h': hpp_t, 'trie_tpp.h': tpp_t, 'trie_cpp.h': cpp_t}, [hpp, tpp, cpp]


def state_code(depth):
    """Generated, loop-free concretisation of the abstract state: node id's children live in the static array
    E_<id>; the a-child (if present) is entry 0, the b-child entry 0 or 1 (sorted, as std::map iterates)."""
    nn = 2 ** (depth + 1) - 1
    ni = 2 ** depth - 1
    arrays = '\n'.join('static verif_trieEntry E_%d[2];' % i for i in range(ni))
    lines = ['  trieNode *n_0 = &T.root;']
    for i in range(1, nn):
        lines.append('  trieNode *n_%d = 0;' % i)
    for i in range(nn):
        a, b = 2 * i + 1, 2 * i + 2
        lines.append('  if (present[%d]) {' % i)
        lines.append('    n_%d->valueIndex = value[%d];' % (i, i))
        if i < ni:
            lines.append('    int k = 0;')
            lines.append("    if (present[%d]) { E_%d[k].first = 'a'; n_%d = &E_%d[k].second; ++k; }" % (a, i, a, i))
            lines.append("    if (present[%d]) { E_%d[k].first = 'b'; n_%d = &E_%d[k].second; ++k; }" % (b, i, b, i))
            lines.append('    n_%d->leaves.ents = E_%d; n_%d->leaves.n = k;' % (i, i, i))
        else:
            lines.append('    n_%d->leaves.ents = 0; n_%d->leaves.n = 0;' % (i, i))
        lines.append('  }')
    return arrays, '\n'.join(lines)


def shapes(depth):
    """Every shape of a trie over {a,b} of the given depth: bit i of the mask = node i exists (node 0 = root,
    children of i are 2i+1, 2i+2); a node exists only if its parent does."""
    nn = 2 ** (depth + 1) - 1
    out = []
    def rec(i, mask):
        if i == nn:
            out.append(mask)
            return
        rec(i + 1, mask)
        if mask >> ((i - 1) // 2) & 1:
            rec(i + 1, mask | (1 << i))
    rec(1, 1)
    return out


# entry -> (mode, code run inside each shape branch, minimum obligations).
# 'symbolic': the shape mask is a nondet value: one symbolic trie covers every key set at once (possible where
#   the code under contract walks a single path along the query).
# 'shapes': one branch per shape, the mask a constant of the branch: needed where the code traverses the whole
#   trie (freeze, nodeCount, size), because --unwindset cannot name C++ functions with parameters and a global
#   bound on a symbolic fan-out explodes.  The `prefix` (e.g. the real freeze()) runs inside every branch; the
#   body (the lookups, b_<entry>) runs once after the branches have merged, on the merged - symbolic - state.
ENTRIES = [('unfrozen_node_get', 'symbolic', '', 4), ('unfrozen_prefix_of_buffer', 'symbolic', '', 3),
           ('longest_unfrozen', 'symbolic', '', 5), ('get_has_unfrozen', 'symbolic', '', 7),
           ('has_size_raises', 'symbolic', '', 2),
           ('unfrozen_counts', 'shapes', 'p_counts();', 4),
           ('frozen_layout', 'shapes', 'p_frozen_layout();', 8),
           ('longest_frozen', 'shapes', 'T.freeze(); relocate();', 6),
           ('get_has_frozen', 'shapes', 'T.freeze(); p_frozen_size(); relocate();', 8),
           ('refreeze', 'shapes', 'T.freeze(); T.freeze(); relocate();', 3),
           ('defrost', 'shapes', 'p_defrost();', 4),
           ('clear', 'shapes', 'p_clear();', 3),
           ('step_add', 'shapes_keys', 'p_step_add();', 8), ('step_remove', 'shapes_keys', 'p_step_remove();', 8),
           ('step_node_remove', 'shapes_keys', 'p_step_node_remove();', 4)]


def key_of(kid):
    k = ''
    while kid > 0:
        k = 'ab'[(kid - 1) % 2] + k
        kid = (kid - 1) // 2
    return k


def dispatch(masks, depth, only=None, kids=None):
    """only: restrict to these entries (others get no dispatcher); kids: key ids for the step entries."""
    nn = 2 ** (depth + 1) - 1
    kids = list(range(1, nn)) if kids is None else kids
    out = []
    for e, mode, prefix, _ in ENTRIES:
        if only is not None and e not in only:
            continue
        out.append('extern "C" void h_%s() {\n  any_values();%s' % (e, ' values_before();' if mode == 'shapes_keys' else ''))
        if mode == 'symbolic':
            out.append('  any_state(nondet_uint());\n  b_%s();\n}' % e)
            continue
        out.append('  switch (nondet_uint()) {')
        for k, m in enumerate(masks):
            if mode == 'shapes':
                out.append('    case %d: any_state(0x%xu); %s break;' % (k, m, prefix))
            else:   # shapes x keys: shape and key are constants of the branch
                out.append('    case %d: any_state(0x%xu); model_before(); p_init_exp_vi(); switch (nondet_uint()) {' % (k, m))
                for j, kid in enumerate(kids):
                    ks = key_of(kid)
                    setk = ' '.join("key[%d] = '%s';" % (i, c) for i, c in enumerate(ks)) + ' key[%d] = 0; klen = %d; kid = %d;' % (len(ks), len(ks), kid)
                    out.append('      case %d: %s %s break;' % (j, setk, prefix))
                out.append('      default: __CPROVER_assume(0);\n    } break;')
        out.append('    default: __CPROVER_assume(0);\n  }\n  b_%s();\n}' % e)
    return '\n'.join(out)


def abstraction_code(depth):
    """Generated, loop-free abstraction function: the real node reached by spelling path id from the root
    through the real (stub) map's find, or 0."""
    nn = 2 ** (depth + 1) - 1
    lines = ['  node_of[0] = &T.root;']
    for i in range(1, nn):
        par, ch = (i - 1) // 2, 'ab'[(i - 1) % 2]
        lines.append("  node_of[%d] = 0; if (node_of[%d]) { char k = '%s'; verif_trieEntry *it = node_of[%d]->leaves.find(k); "
                     "if (it != node_of[%d]->leaves.end()) node_of[%d] = &it->second; }" % (i, par, ch, par, par, i))
    return '\n'.join(lines)


def harness(depth, qlen, root_valued, masks, only=None, kids=None):
    nn = 2 ** (depth + 1) - 1
    arrays, conc = state_code(depth)
    return (HARNESS + dispatch(masks, depth, only, kids)).replace('@ARRAYS@', arrays).replace('@CONCRETISE@', conc) \
        .replace('@ABSTRACT@', abstraction_code(depth)).replace('@DEPTH@', str(depth)).replace('@NN@', str(nn)).replace('@NI@', str(2 ** depth - 1)) \
                  .replace('@QL@', str(qlen)).replace('@ROOTV@', '1' if root_valued else '0')


HARNESS = r'''
#include "trie_cpp.h"
using namespace occa;

int verif_raised = 0;
bool verif_raise_allowed = false;
verif_trieEntry verif_trie_pool[VERIF_TRIE_POOL][VERIF_TRIE_FANOUT];
int verif_trie_pool_used = 0;

/* ------------------------------------------------------------------ abstract state
   Complete binary trie over {a,b}: node 0 is the root, child(id, ch) = 2*id+1+ch.
   present[id]: the node exists; value[id]: its valueIndex (-1 = no key ends here).
   A node may be present without a value and without children (remove() leaves such nodes). */
#define NN @NN@           /* nodes of the complete trie, root included */
#define NI @NI@           /* nodes that can have children */
#define QL @QL@           /* query length bound */
#define ROOT_VALUED @ROOTV@
#ifndef ORPHANS
#define ORPHANS 0
#endif
static bool present[NN];
static int  value[NN];
static int  nvalues;                       /* values.size() */
@ARRAYS@
static trie T;

static int count_valued() { int n = 0; for (int i = 0; i < NN; ++i) if (present[i] && value[i] >= 0) ++n; return n; }
static int count_present() { int n = 0; for (int i = 1; i < NN; ++i) if (present[i]) ++n; return n; }

/* every state of the bounded shape that satisfies the representation invariant
   INV: value indices of stored keys are pairwise distinct and are exactly 0 .. values.size()-1
   (values.size() == number of stored keys).
   any_values(): the symbolic part, chosen once; any_state(mask): the shape, a constant of the
   calling branch, so that symbolic execution decides every traversal of the trie concretely. */
static int rawv[NN];
static void any_values() {
  for (int id = 0; id < NN; ++id) {
    int v = nondet_int();
    __CPROVER_assume(-1 <= v && v <= 15);
    rawv[id] = v;
  }
  for (int i = 0; i < NN; ++i)
    for (int j = i + 1; j < NN; ++j) __CPROVER_assume(rawv[i] < 0 || rawv[i] != rawv[j]);
  for (int i = 0; i < VERIF_VEC_CAP; ++i) T.values.data_[i] = nondet_int();   /* contents unconstrained */
  T.defaultValue = nondet_int();
  T.autoFreeze = false;
}
static void any_state(unsigned mask) {
  present[0] = true;
  value[0] = ROOT_VALUED ? rawv[0] : -1;
  for (int id = 1; id < NN; ++id) {
    present[id] = (((mask >> id) & 1u) != 0) && present[(id - 1) / 2];
    value[id] = present[id] ? rawv[id] : -1;
  }
  nvalues = count_valued();
#if ORPHANS
  /* relaxed INV for the values-shifting loop of trie::remove: values may hold entries no key refers to */
  { int extra = nondet_int(); __CPROVER_assume(0 <= extra && extra <= ORPHANS); nvalues += extra; }
#endif
  for (int i = 0; i < NN; ++i) __CPROVER_assume(value[i] < nvalues);
  T.values.n_ = (size_t) nvalues;
  /* concretise: write the state straight into the map arrays of the real classes
     (one static child array per node; generated, no loops) */
@CONCRETISE@
}

/* any query: QL characters over {a,b,c}; `len` of them are the query.  When
   `terminated` the byte after the query is NUL (C string), otherwise the query
   is a prefix of a longer buffer. */
static char q[QL + 1];
static int qlen;
static void any_query(bool terminated) {
  for (int i = 0; i < QL; ++i) { char c = nondet_char(); __CPROVER_assume('a' <= c && c <= 'c'); q[i] = c; }
  q[QL] = 0;
  qlen = nondet_int();
  __CPROVER_assume(0 <= qlen && qlen <= QL);
  if (terminated) q[qlen] = 0;
}

/* ------------------------------------------------------------------ reference = the property's sentence
   longest stored key that is a prefix of the query: deepest valued node on the path the query spells */
static int rlen, rval;
static void ref_longest() {
  const char *c = q; int len = qlen;
  rlen = 0; rval = value[0];
  int id = 0;
  for (int i = 0; i < len; ++i) {
    int ch = c[i] - 'a';
    if (ch < 0 || ch > 1) break;
    int cid = 2 * id + 1 + ch;
    if (cid >= NN || !present[cid]) break;
    id = cid;
    if (value[id] >= 0) { rlen = i + 1; rval = value[id]; }
  }
}
/* value index of the key that is exactly the query, or -1 */
static int ref_exact() {
  const char *c = q; int len = qlen;
  int id = 0;
  for (int i = 0; i < len; ++i) {
    int ch = c[i] - 'a';
    if (ch < 0 || ch > 1) return -1;
    int cid = 2 * id + 1 + ch;
    if (cid >= NN || !present[cid]) return -1;
    id = cid;
  }
  return value[id];
}

/* ------------------------------------------------------------------ (a) unfrozen */
static void b_unfrozen_node_get() {
  any_query(true);
  ref_longest();
  trieNode::result_t r = T.root.get(q, qlen);
  __CPROVER_assert(r.success() == (rval >= 0), "trieNode::get succeeds iff some stored key is a prefix of the query");
  if (rval >= 0) {
    __CPROVER_assert(r.valueIndex == rval, "trieNode::get returns the value index of the longest stored prefix");
    __CPROVER_assert(r.length == rlen, "trieNode::get returns the length of the longest stored prefix");
  }
  __CPROVER_assert(T.root.getValueIndex(q) == ref_exact(), "trieNode::getValueIndex is the value index of exactly the query key, else -1");
#ifdef CANARY
  __CPROVER_assert(r.valueIndex != 3 || r.length != 2, "canary");
#endif
}

static void b_unfrozen_prefix_of_buffer() {
  /* explicit length shorter than the buffer: characters after the query must not matter */
  any_query(false);
  ref_longest();
  trie::result_t r = T.trieGetLongest(q, qlen);
  __CPROVER_assert(r.success() == (rval >= 0), "trieGetLongest(c, length) succeeds iff a stored key is a prefix of the first length characters");
  __CPROVER_assert(r.valueIndex == rval, "trieGetLongest(c, length) value index ignores characters after length");
  __CPROVER_assert(r.length == rlen, "trieGetLongest(c, length) length ignores characters after length");
#ifdef CANARY
  __CPROVER_assert(r.valueIndex != 3 || r.length != 2, "canary");
#endif
}

static void p_counts() {
  __CPROVER_assert(T.root.size() == count_valued(), "trieNode::size counts the stored keys");
  __CPROVER_assert(T.root.nodeCount() == count_present(), "trieNode::nodeCount counts the nodes below the root");
  __CPROVER_assert(T.size() == count_valued(), "unfrozen size() counts the stored keys");
  __CPROVER_assert(T.isEmpty() == (count_present() == 0), "isEmpty iff the root has no children");
}
static void b_unfrozen_counts() {
#ifdef CANARY
  __CPROVER_assert(count_valued() != 3, "canary");
#endif
}

/* ------------------------------------------------------------------ (b) frozen */
static trie::result_t r_;
static void check_result(bool frozen) {
  const trie::result_t &r = r_;
  if (frozen) {
    __CPROVER_assert(r.success() == (rval >= 0), "frozen getLongest succeeds iff some stored key is a prefix of the query");
    __CPROVER_assert(r.valueIndex == rval, "frozen getLongest returns the value index of the longest stored prefix");
    __CPROVER_assert(r.length == rlen, "frozen getLongest returns the length of the longest stored prefix");
    __CPROVER_assert(r.value() == (rval >= 0 ? T.values.data_[rval] : T.defaultValue), "frozen getLongest value() is the value stored for that key, else the default");
  } else {
    __CPROVER_assert(r.success() == (rval >= 0), "unfrozen getLongest succeeds iff some stored key is a prefix of the query");
    __CPROVER_assert(r.valueIndex == rval, "unfrozen getLongest returns the value index of the longest stored prefix");
    __CPROVER_assert(r.length == rlen, "unfrozen getLongest returns the length of the longest stored prefix");
    __CPROVER_assert(r.value() == (rval >= 0 ? T.values.data_[rval] : T.defaultValue), "unfrozen getLongest value() is the value stored for that key, else the default");
  }
  __CPROVER_assert(r.trie_ == &T, "result refers to the trie it came from");
}

/* The flattened arrays the real freeze() produced in a shape branch are moved, element by element, into
   static storage, so that after the branches merge the real lookup runs ONCE on arrays whose contents are
   the merge of every shape's frozen image (the lookup only reads the arrays through the four pointers). */
static char F_chars[NN + 1];
static int  F_offsets[NN + 1], F_leafCount[NN + 1], F_valueIndices[NN + 1];
static void relocate() {
  __CPROVER_assert(T.isFrozen && 0 <= T.nodeCount && T.nodeCount < NN, "freeze() leaves the trie frozen with one array entry per node below the root");
  for (int i = 0; i <= T.nodeCount && i <= NN; ++i) {
    F_chars[i] = T.chars[i]; F_offsets[i] = T.offsets[i];
    F_leafCount[i] = T.leafCount[i]; F_valueIndices[i] = T.valueIndices[i];
  }
  delete [] T.chars; delete [] T.offsets; delete [] T.leafCount; delete [] T.valueIndices;
  T.chars = F_chars; T.offsets = F_offsets; T.leafCount = F_leafCount; T.valueIndices = F_valueIndices;
}

static void b_longest_frozen() {
  any_query(nondet_bool());
  ref_longest();
  r_ = T.getLongest(q, qlen);
  check_result(true);
#ifdef CANARY
  __CPROVER_assert(r_.valueIndex != 3 || r_.length != 2, "canary");
#endif
}

static void b_refreeze() {
  any_query(true);
  ref_longest();
  trie::result_t f = T.getLongest(q, qlen);
  __CPROVER_assert(f.length == rlen && f.valueIndex == rval, "getLongest after freezing twice is still the longest stored prefix");
#ifdef CANARY
  __CPROVER_assert(f.valueIndex != 3 || f.length != 2, "canary");
#endif
}

static void b_longest_unfrozen() {
  any_query(nondet_bool());
  ref_longest();
  r_ = T.getLongest(q, qlen);              /* not frozen: goes through trieGetLongest */
  check_result(false);
#ifdef CANARY
  __CPROVER_assert(r_.valueIndex != 3 || r_.length != 2, "canary");
#endif
}

static void p_frozen_layout() {
  /* what freeze() establishes: the array well-formedness the C lookup proof assumes */
  T.freeze();
  int n = count_present();
  __CPROVER_assert(T.isFrozen, "freeze() leaves the trie frozen");
  __CPROVER_assert(T.nodeCount == n, "freeze: nodeCount is the number of nodes below the root");
  __CPROVER_assert(T.baseNodeCount == (int) T.root.leaves.size(), "freeze: baseNodeCount is the root fan-out");
  __CPROVER_assert(T.offsets[n] == n && T.leafCount[n] == 0 && T.valueIndices[n] == -1 && T.chars[n] == 0, "freeze: sentinel entry");
  int k = nondet_int();
  if (0 <= k && k < n) {
    __CPROVER_assert(0 <= T.leafCount[k] && 0 <= T.offsets[k] && T.offsets[k] + T.leafCount[k] <= n, "freeze: every child block lies inside the arrays");
    __CPROVER_assert(-1 <= T.valueIndices[k] && T.valueIndices[k] < nvalues, "freeze: value indices copied in range");
    __CPROVER_assert(k < T.offsets[k] || T.leafCount[k] == 0, "freeze: children are laid out after their parent");
    int j = nondet_int();
    if (0 <= j && j < T.leafCount[k] - 1)
      __CPROVER_assert(T.chars[T.offsets[k] + j] < T.chars[T.offsets[k] + j + 1], "freeze: each child block is sorted by character (binary search precondition)");
  }
  int b = nondet_int();
  if (0 <= b && b < T.baseNodeCount - 1)
    __CPROVER_assert(T.chars[b] < T.chars[b + 1], "freeze: the root block is sorted by character");
  T.defrost();
}
static void b_frozen_layout() {
#ifdef CANARY
  __CPROVER_assert(count_present() != 3, "canary");
#endif
}

static void check_get_has(bool frozen) {
  int ex = ref_exact();
  trie::result_t g = T.get(q, qlen);
  trie::result_t g2 = T.get(q);                          /* INT_MAX -> strlen */
  bool h = T.has(q);
  if (frozen) {
    __CPROVER_assert(g.success() == (ex >= 0), "frozen get(c, length) succeeds exactly for stored keys");
    __CPROVER_assert(g.valueIndex == ex, "frozen get(c, length) returns the stored key's value index, else -1");
    __CPROVER_assert(g2.valueIndex == ex, "frozen get(c) returns the stored key's value index, else -1");
    __CPROVER_assert(g.value() == (ex >= 0 ? T.values.data_[ex] : T.defaultValue), "frozen get value() is the key's value, else the default");
    if (qlen > 0) __CPROVER_assert(h == (ex >= 0), "frozen has(c) is true exactly for stored keys");
    else __CPROVER_assert(h == (ex >= 0), "frozen has(\"\") is true only if the empty key is stored");
    if (qlen > 0) __CPROVER_assert(T.has(q, qlen) == (ex >= 0), "frozen has(c, size) is true exactly for stored keys");
  } else {
    __CPROVER_assert(g.success() == (ex >= 0), "unfrozen get(c, length) succeeds exactly for stored keys");
    __CPROVER_assert(g.valueIndex == ex, "unfrozen get(c, length) returns the stored key's value index, else -1");
    __CPROVER_assert(g2.valueIndex == ex, "unfrozen get(c) returns the stored key's value index, else -1");
    __CPROVER_assert(g.value() == (ex >= 0 ? T.values.data_[ex] : T.defaultValue), "unfrozen get value() is the key's value, else the default");
    if (qlen > 0) __CPROVER_assert(h == (ex >= 0), "unfrozen has(c) is true exactly for stored keys");
    else __CPROVER_assert(h == (ex >= 0), "unfrozen has(\"\") is true only if the empty key is stored");
    if (qlen > 0) __CPROVER_assert(T.has(q, qlen) == (ex >= 0), "unfrozen has(c, size) is true exactly for stored keys");
  }
}

static void p_frozen_size() {
  __CPROVER_assert(T.size() == count_valued(), "frozen size() counts the stored keys");
}
static void b_get_has_frozen() {
  any_query(true);
  check_get_has(true);
  char c = nondet_char();
  bool some = (c == 'a' && NN > 1 && present[1]) || (c == 'b' && NN > 2 && present[2]);
  __CPROVER_assert(T.has(c) == some, "frozen has(char) iff the root has a child for that character");
#ifdef CANARY
  __CPROVER_assert(!T.has(q), "canary");
#endif
}

static void b_get_has_unfrozen() {
  any_query(true);
  check_get_has(false);
  char c = nondet_char();
  bool some = (c == 'a' && NN > 1 && present[1]) || (c == 'b' && NN > 2 && present[2]);
  __CPROVER_assert(T.has(c) == some, "unfrozen has(char) iff the root has a child for that character");
#ifdef CANARY
  __CPROVER_assert(!T.has(q), "canary");
#endif
}

static void b_has_size_raises() {
  /* has(c, size) with size <= 0 is an invalid request: it must raise, and only then */
  any_query(true);
  int size = nondet_int();
  __CPROVER_assume(size <= qlen);
  verif_raise_allowed = (size <= 0);
  bool r = T.has(q, size);
  __CPROVER_assert(size > 0, "has(c, size) with size <= 0 raises");
#ifdef CANARY
  __CPROVER_assert(!r, "canary");
#endif
}

static void p_defrost() {
  T.freeze();
  T.defrost();
  __CPROVER_assert(!T.isFrozen && T.chars == 0 && T.offsets == 0 && T.leafCount == 0 && T.valueIndices == 0 && T.nodeCount == 0 && T.baseNodeCount == 0,
                   "defrost() releases the flattened arrays and leaves the trie unfrozen");
  T.defrost();
  __CPROVER_assert(!T.isFrozen && T.chars == 0, "defrost() twice is harmless");
  __CPROVER_assert(T.size() == count_valued(), "size() after defrost counts the stored keys");
}
static void b_defrost() {
  any_query(true);
  ref_longest();
  trie::result_t u = T.getLongest(q, qlen);
  __CPROVER_assert(u.length == rlen && u.valueIndex == rval, "getLongest after freeze and defrost is still the longest stored prefix");
#ifdef CANARY
  __CPROVER_assert(u.valueIndex != 3 || u.length != 2, "canary");
#endif
}

/* ------------------------------------------------------------------ (d) history: one-operation inductive step
   From EVERY state of the bounded shape satisfying INV, one add / remove of any key of length 1..DEPTH over
   {a,b} (shape and key are constants of the calling branch, values symbolic) is executed on the real text; the post-state is read back through the abstraction function and
   compared with the model (set of stored keys, the value of each, INV again, maps sorted).  With the lookup
   groups (correct on every such state) this covers every history that stays inside the shape bound. */
#define DEPTH @DEPTH@
static trieNode *node_of[NN];
static void abstract_state() {
@ABSTRACT@
}
static bool exp_stored[NN];
static bool removed_one;
static int  exp_val[NN];
static char key[DEPTH + 1];
static int  klen, kid;
static int pre_val[NN];
static void values_before() {          /* once, before the shape branches: the value each raw index denotes */
  for (int id = 0; id < NN; ++id) pre_val[id] = rawv[id] >= 0 ? T.values.data_[rawv[id]] : 0;
}
static void model_before() {
  for (int id = 0; id < NN; ++id) {
    exp_stored[id] = value[id] >= 0;
    exp_val[id] = pre_val[id];
  }
}
static void check_model(bool is_add) {
  abstract_state();
  int stored = 0;
  int vis[NN];
  for (int id = 0; id < NN; ++id) {
    trieNode *node = node_of[id];
    int vi = node ? node->valueIndex : -1;
    vis[id] = vi;
    if (vi >= 0) ++stored;
    if (is_add) {
      __CPROVER_assert((vi >= 0) == exp_stored[id], "after add: the stored keys are the old ones plus the added key");
      __CPROVER_assert(-1 <= vi && vi < (int) T.values.size(), "after add: every value index is inside values");
      if (vi >= 0 && vi < (int) T.values.size())
        __CPROVER_assert(T.values.data_[vi] == exp_val[id], "after add: every key has its most recently added value");
    } else {
      __CPROVER_assert((vi >= 0) == exp_stored[id], "after remove: the stored keys are the old ones minus the removed key");
      __CPROVER_assert(-1 <= vi && vi < (int) T.values.size(), "after remove: every value index is inside values");
      if (vi >= 0 && vi < (int) T.values.size())
        __CPROVER_assert(T.values.data_[vi] == exp_val[id], "after remove: every remaining key keeps its value");
    }
    if (node) {
      int n = (int) node->leaves.size();
      __CPROVER_assert(0 <= n && n <= 2, "step: fan-out stays within the alphabet");
      if (n >= 1) __CPROVER_assert(node->leaves.ents[0].first == 'a' || node->leaves.ents[0].first == 'b', "step: child characters stay within the alphabet");
      if (n == 2) __CPROVER_assert(node->leaves.ents[0].first == 'a' && node->leaves.ents[1].first == 'b', "step: children stay sorted by character");
      if (id >= NN / 2) __CPROVER_assert(n == 0, "step: the trie stays within the depth bound");
    }
  }
  for (int i = 0; i < NN; ++i)
    for (int j = i + 1; j < NN; ++j)
      __CPROVER_assert(vis[i] < 0 || vis[i] != vis[j], "step: value indices stay pairwise distinct (INV)");
#if ORPHANS
  __CPROVER_assert((int) T.values.size() == nvalues - (removed_one ? 1 : 0), "remove: values shrinks by one exactly when a stored key was removed");
#else
  __CPROVER_assert((int) T.values.size() == stored, "step: values.size() stays the number of stored keys (INV)");
#endif
}

static void p_step_add() {
  int v = nondet_int();
  __CPROVER_assume(nvalues < VERIF_VEC_CAP);
  T.add(key, v);
  exp_stored[kid] = true; exp_val[kid] = v;
  __CPROVER_assert(!T.isFrozen, "add() with autoFreeze off leaves the trie unfrozen");
}
static void b_step_add() {
  check_model(true);          /* once, on the merge of every branch's post-state */
#ifdef CANARY
  __CPROVER_assert(count_valued() != 2, "canary");
#endif
}

/* remove, node half: trieNode::remove(c, length, valueIndex_) = nestedRemove + decrementIndex, called as
   trie::remove calls it (the key is stored and valueIndex_ is its index): the key's node loses its value,
   every larger index moves down by one, nothing else changes. */
static int exp_vi[NN];
static void p_step_node_remove() {
  int vi = value[kid];
  if (vi < 0) return;                                    /* trie::remove calls root.remove only for stored keys */
  for (int id = 0; id < NN; ++id) exp_vi[id] = value[id] > vi ? value[id] - 1 : value[id];
  exp_vi[kid] = -1;
  T.root.remove(key, klen, vi);
}
static void b_step_node_remove() {
  abstract_state();
  for (int id = 0; id < NN; ++id) {
    trieNode *node = node_of[id];
    int got = node ? node->valueIndex : -1;
    __CPROVER_assert(got == exp_vi[id], "trieNode::remove: the key loses its value, larger value indices move down by one, the rest is unchanged");
    if (node) {
      int n = (int) node->leaves.size();
      __CPROVER_assert(0 <= n && n <= 2, "step: fan-out stays within the alphabet");
      if (n == 1) __CPROVER_assert(node->leaves.ents[0].first == 'a' || node->leaves.ents[0].first == 'b', "step: child characters stay within the alphabet");
      if (n == 2) __CPROVER_assert(node->leaves.ents[0].first == 'a' && node->leaves.ents[1].first == 'b', "step: children stay sorted by character");
    }
  }
#ifdef CANARY
  __CPROVER_assert(exp_vi[1] != 1 && exp_vi[2] != 1, "canary");
#endif
}
static void p_init_exp_vi() { for (int id = 0; id < NN; ++id) exp_vi[id] = value[id]; }

/* remove, trie half: trie::remove(c) whole (getValueIndex, defrost, root.remove, shifting of values, pop_back) */
static void p_step_remove() {
  removed_one = exp_stored[kid];
  T.remove(key);
  exp_stored[kid] = false;
  __CPROVER_assert(!T.isFrozen, "remove() with autoFreeze off leaves the trie unfrozen");
}
static void b_step_remove() {
  check_model(false);         /* once, on the merge of every branch's post-state */
#ifdef CANARY
  __CPROVER_assert(count_valued() != 2, "canary");
#endif
}

static void p_clear() {
  if (nondet_bool()) T.freeze();
  T.clear();
  __CPROVER_assert(!T.isFrozen && T.chars == 0 && T.size() == 0 && T.isEmpty(), "clear() leaves an empty, unfrozen trie");
}
static void b_clear() {
  any_query(true);
  trie::result_t e = T.getLongest(q, qlen);
  __CPROVER_assert(!e.success() && e.length == 0, "nothing is found in a cleared trie");
  __CPROVER_assert(!T.has(q) || qlen == 0, "no key is in a cleared trie");
#ifdef CANARY
  __CPROVER_assert(e.success(), "canary");
#endif
}
'''


# ---------------------------------------------------------------- (c) frozen lookup in C, any query length

MAXN = 16      # stated bound on nodeCount for the C proof (well-formedness is assumed node by node)


def c_lookup_group(ctx):
    fn = extract_function(ctx, TRIE_TPP,
                          r'^  template <class TM>\n  typename trie<TM>::result_t trie<TM>::getLongest\(const char \*c,\s*const int length\) const \{',
                          name='trie<TM>::getLongest (frozen lookup)')
    hpp = ctx.read(TRIE_HPP)
    # default arguments of trie<TM>::result_t(const trie*, length_ = 0, valueIndex_ = -1) are what `result_t(this)` means
    if not re.search(r'result_t\(const trie<TM> \*trie__,\s*const int length_ = 0,\s*const int valueIndex_ = -1\);', hpp):
        raise Undecided('extraction break: default arguments of trie<TM>::result_t constructor changed')
    wf = ' &&\n  '.join('(%d >= nodeCount || (0 <= leafCount[%d] && 0 <= offsets[%d] && offsets[%d] <= nodeCount - leafCount[%d]))'
                        % (k, k, k, k, k) for k in range(MAXN))
    text = rewrite(fn, [
        ('C: member function -> function over the flattened arrays (members become parameters), result_t -> two out-parameters',
         r'^  template <class TM>\n  typename trie<TM>::result_t trie<TM>::getLongest\(const char \*c,\s*const int length\) const \{',
         'void trie_getLongest(const int rootValueIndex, const bool isFrozen, const int nodeCount, const int baseNodeCount,\n'
         '                     const char *chars, const int *offsets, const int *leafCount, const int *valueIndices,\n'
         '                     const char *c, const int length, int *out_length, int *out_valueIndex)\n'
         '__CPROVER_requires(isFrozen && -1 <= rootValueIndex)\n'
         '__CPROVER_requires(0 <= nodeCount && nodeCount <= %d && 0 <= baseNodeCount && baseNodeCount <= nodeCount)\n'
         '__CPROVER_requires(__CPROVER_is_fresh(chars, nodeCount + 1) && __CPROVER_is_fresh(offsets, sizeof(int) * (nodeCount + 1)))\n'
         '__CPROVER_requires(__CPROVER_is_fresh(leafCount, sizeof(int) * (nodeCount + 1)) && __CPROVER_is_fresh(valueIndices, sizeof(int) * (nodeCount + 1)))\n'
         '/* W: every child block lies inside the arrays (what freeze() establishes; checked on the real freeze in trie/frozen_layout) */\n'
         '__CPROVER_requires(%s)\n'
         '/* the query is a buffer of exactly `length` bytes, any length */\n'
         '__CPROVER_requires(0 <= length && __CPROVER_is_fresh(c, length))\n'
         '__CPROVER_requires(__CPROVER_is_fresh(out_length, sizeof(int)) && __CPROVER_is_fresh(out_valueIndex, sizeof(int)))\n'
         '__CPROVER_assigns(*out_length, *out_valueIndex)\n'
         '__CPROVER_ensures((*out_length == 0 && *out_valueIndex == -1) || (0 <= *out_length && *out_length <= length && 0 <= *out_valueIndex))\n'
         '{\n'
         '    /* the only member of `root` a lookup may read (the value of the empty key) */\n'
         '    const struct { int valueIndex; } root = { rootValueIndex };' % (MAXN, wf), 1),
        ('C: the unfrozen branch delegates to trieGetLongest (C++ groups); unreachable under the precondition isFrozen',
         r'return trieGetLongest\(c, length\);', '{ __CPROVER_assert(0, "frozen lookup: unfrozen branch not taken"); return; }', 1),
        ('C: result_t(this, retLength, retValueIndex) -> out-parameters',
         r'return result_t\(this, retLength, retValueIndex\);', '{ *out_length = retLength; *out_valueIndex = retValueIndex; return; }', 1),
        ('C: result_t(this) = result_t(this, 0, -1) (default arguments checked against the header) -> out-parameters',
         r'return result_t\(this\);', '{ *out_length = 0; *out_valueIndex = -1; return; }', 1),
    ])
    outer = ('__CPROVER_assigns(i, c, retLength, retValueIndex, offset, count)\n'
             '__CPROVER_loop_invariant(0 <= i && i <= length)\n'
             '__CPROVER_loop_invariant(__CPROVER_same_object(c, cStart) && __CPROVER_POINTER_OFFSET(c) == __CPROVER_POINTER_OFFSET(cStart) + i)\n'
             '__CPROVER_loop_invariant(0 <= offset && 0 <= count && offset <= nodeCount - count)\n'
             '__CPROVER_loop_invariant(-1 <= retValueIndex && 0 <= retLength && retLength <= i && (retLength == 0 || 0 <= retValueIndex))\n'
             '__CPROVER_decreases(length - i)')
    inner = ('__CPROVER_assigns(start, end, found, c, retLength, retValueIndex, offset, count)\n'
             '__CPROVER_loop_invariant(0 <= count && count <= nodeCount && 0 <= start && start <= count && -1 <= end && end < count && start <= end + 1 && !found)\n'
             '__CPROVER_loop_invariant(0 <= i && i < length)\n'
             '__CPROVER_loop_invariant(__CPROVER_same_object(c, cStart) && __CPROVER_POINTER_OFFSET(c) == __CPROVER_POINTER_OFFSET(cStart) + i)\n'
             '__CPROVER_loop_invariant(0 <= offset && 0 <= count && offset <= nodeCount - count)\n'
             '__CPROVER_loop_invariant(-1 <= retValueIndex && 0 <= retLength && retLength <= i && (retLength == 0 || 0 <= retValueIndex))\n'
             '__CPROVER_decreases(end - start + 1)')
    text, nloops = insert_loop_contracts(text, {0: outer, 1: inner}, 'trie::getLongest')
    if nloops != 2:
        raise Undecided('extraction break: trie<TM>::getLongest has %d loops, the contracts are written for 2' % nloops)
    src = r'''#include <stddef.h>
#include <stdbool.h>
%s
void h_frozen_lookup(void) {
  bool isFrozen; int nodeCount, baseNodeCount, rootValueIndex;
  const char *chars; const int *offsets, *leafCount, *valueIndices;
  const char *c; int length; int *out_length, *out_valueIndex;
  trie_getLongest(rootValueIndex, isFrozen, nodeCount, baseNodeCount, chars, offsets, leafCount, valueIndices, c, length, out_length, out_valueIndex);
#ifdef CANARY
  __CPROVER_assert(*out_length != 5, "canary: the lookup result is reachable and unconstrained");
#endif
}
''' % text
    return Group(name='frozen-lookup/memory-safe-any-query-length', sources={'lookup.c': src}, entry='h_frozen_lookup',
                 lang='c', enforce=['trie_getLongest'], loop_contracts=True, min_obligations=40, expect_loops=2,
                 functions=[fn], canary='CANARY', canary_label='canary', strength='bounded',
                 bound='nodeCount <= %d (array well-formedness assumed node by node); query length unbounded' % MAXN,
                 timeout=600, replay=None,
                 note='both loops closed by loop contracts; terminating (decreases clauses)')


def build(ctx):
    thorough = ctx.tier == 'thorough'
    depth = 3 if thorough else 2
    qlen = depth + 1
    nn = 2 ** (depth + 1) - 1
    files, fns = cpp_unit(ctx)
    groups = [c_lookup_group(ctx)]
    bound = 'keys over {a,b} of length <= %d (every key set), queries over {a,b,c} of length <= %d' % (depth, qlen)
    # harness loops with constant trip counts (node count, vector capacity) and the traversals without
    # parameters are bounded exactly; everything else (query loops, recursion along the query) by qlen + 2
    big = nn + 18
    uset = ['%s.%d:%d' % (f, i, big) for f, n in
            [('any_state(unsigned_int)', 2), ('any_values()', 4), ('count_valued()', 1), ('count_present()', 1), ('relocate()', 1),
             ('any_query(bool)', 1), ('model_before()', 1), ('values_before()', 1), ('p_step_node_remove()', 1), ('b_step_node_remove()', 1), ('p_init_exp_vi()', 1), ('check_model(bool)', 3), ('ref_longest()', 1), ('ref_exact()', 1), ('strlen', 1)] for i in range(n)]
    for f in ('occa::trieNode::size($constthis)', 'occa::trieNode::nodeCount($constthis)'):
        uset += ['%s.0:4' % f, '%s:%d' % (f, depth + 2)]
    # lookup groups.  The symbolic-shape entries are one run each; the one-branch-per-shape entries are one run
    # per chunk of CHUNK shapes (25 shapes at depth 2 = one chunk; 676 at depth 3 = 8 chunks: a single run
    # exhausts memory and CBMC's object numbering)
    CHUNK = 85
    allshapes = shapes(depth)
    chunks = [allshapes[i:i + CHUNK] for i in range(0, len(allshapes), CHUNK)]
    look = [e for e, m, _, _ in ENTRIES if m != 'shapes_keys']
    for rootv, prefix, which, extra in [(False, 'trie/', None, ''),
                                        (True, 'emptykey/', ('longest_unfrozen', 'longest_frozen', 'get_has_unfrozen', 'get_has_frozen'),
                                         ', the empty key may be stored')]:
        sym = dict(files)
        sym['c28.cpp'] = harness(depth, qlen, rootv, [], only=[e for e, m, _, _ in ENTRIES if m == 'symbolic'])
        per_chunk = []
        for ch in chunks:
            sc = dict(files)
            sc['c28.cpp'] = harness(depth, qlen, rootv, ch, only=[e for e, m, _, _ in ENTRIES if m == 'shapes'])
            per_chunk.append(sc)
        for e, mode, _, mino in ENTRIES:
            if mode == 'shapes_keys' or (which and e not in which):
                continue
            variants = [('', sym)] if mode == 'symbolic' else \
                [('' if len(chunks) == 1 else '[shapes %d-%d]' % (k * CHUNK, k * CHUNK + len(ch) - 1), per_chunk[k])
                 for k, ch in enumerate(chunks)]
            for suffix, srcs in variants:
                groups.append(Group(
                    name=prefix + e + suffix, sources=srcs, entry='h_' + e, lang='cpp',
                    unwind=qlen + 2, unwindset=uset, min_obligations=mino, functions=fns,
                    canary='CANARY', canary_label='canary', strength='bounded', bound=bound + extra,
                    timeout=(1800 if thorough else 240), defines=['VERIF_TRIE_POOL=%d' % depth], object_bits=12,
                    param=('empty key ' if rootv else '') + suffix, replay=replay_C28.replay_state))
    # the history step is checked at depth 2 in both tiers (depth 3 = 676 shapes x 14 keys x 2 operations does
    # not fit the budget); its harness has its own shape family and bounds
    depth, qlen = 2, 3
    nn = 7
    # history step: one group per operation and key (shape x key are constants of a branch)
    for e in ('step_add', 'step_node_remove'):
        for kid in range(1, nn):
            src = dict(files)
            src['c28.cpp'] = harness(depth, qlen, False, shapes(depth), only=[e], kids=[kid])
            groups.append(Group(
                name='trie/%s[key=%s]' % (e, key_of(kid)), sources=src, entry='h_' + e, lang='cpp',
                unwind=(depth + 2 if e == 'step_node_remove' else qlen + 2), unwindset=uset, min_obligations=4, functions=fns,
                canary='CANARY', canary_label='canary', strength='bounded',
                bound='one operation from every state with keys over {a,b} of length <= %d satisfying INV; <= 16 values' % depth,
                timeout=(1800 if thorough else 240), defines=['VERIF_TRIE_POOL=%d' % depth], object_bits=12,
                param='key=' + key_of(kid), replay=replay_C28.replay_state))
    # trie::remove whole (glue + shifting of values): depth 1, values vector of up to 2 + 5 entries
    src = dict(files)
    src['c28.cpp'] = harness(1, 2, False, shapes(1), only=['step_remove'])
    groups.append(Group(
        name='trie/step_remove', sources=src, entry='h_step_remove', lang='cpp',
        unwind=9, unwindset=uset, min_obligations=8, functions=fns,
        canary='CANARY', canary_label='canary', strength='bounded',
        bound='trie::remove whole from every state with keys {a,b} and a values vector of <= 7 entries',
        timeout=(1800 if thorough else 240), defines=['VERIF_TRIE_POOL=1', 'ORPHANS=5'], object_bits=12,
        replay=replay_C28.replay_state))
    only = os.environ.get('VERIF_GROUPS')          # development aid: regex on group names
    if only:
        groups = [g for g in groups if re.search(only, g.name)]
    return groups
