"""C03 - memory-pool reservations never overlap and keep their contents."""
from vp.core import Group
from vp import poolunit, replay_C03

LEVEL = 'other'
PROP = 'C03'
OTHER = 'C04'
EXPLANATION = ('Bounded stand-in (labelled bounded, not proof): modeMemoryPool_t::{reserve, resize, setAlignment, addModeMemoryRef, '
               'removeModeMemoryRef, numReservations} and serial::memoryPool::{makeBuffer, slice, setPtr, memcpy} are extracted '
               'verbatim and run over a std::set stub driven by the real comparator.  From every state of the family F - a fresh '
               'pool after up to three reservations of symbolic size, an optional slice and any subset released, i.e. packed '
               'layouts with holes, each reachable through the public operations - one symbolic operation (reserve / resize / shrinkToFit / setAlignment / '
               'release / slice) is executed; disjointness, placement inside the pool, pointer consistency and - through a ghost '
               'tracked byte followed across every backend memcpy - content preservation are asserted after the operation.  Sizes are symbolic below 2^SZ_BITS, alignments enumerated.')
TRUSTED = ['cbmc 6.11.0 C++ front end and SAT back end',
           'sorted-array std::set stub (capacity 5) ordered by the real comparator text; backing-buffer stub whose deletion '
           'replicates the accounting of ~modeBuffer_t (proved in C05); reference rings counted, not linked (C01)',
           'range-for / auto / delete / io::stdout rewrite rules (must-fire)',
           'stubs/tuple (std::tie of two lvalues, lexicographic <): included by the pool unit, used only if the comparator text is written with it (not on the current tree)']
ASSUMPTIONS = ['the comparator\'s tie-break on object addresses is replaced by a tie-break on ghost object ids (must-fire rule): any total order on distinct objects is a valid implementation choice',
               'histories: <= 3 reservations + optional slice + releases, then one operation (bounded); request sizes < 2^8 (quick) / 2^9 (thorough); <= 2 reservations (quick) / <= 3 (thorough) before the operation',
               'alignments enumerated: quick {128 -> 8}; thorough {128->8, 4096->128}; the reserve operation always starts from <= 2 reservations (its group is the most expensive)',
               'virtual calls resolve to the Serial-mode pool']
NOT_REACHED = ['memoryPool handle layer (one-line forwarders, covered for assertInitialized by C01 family step)',
               'longer histories, more than 4 live reservations', 'byte contents beyond one tracked byte per run (any byte: it is symbolic)']


def build(ctx, prop=None, only_ops=None, only_aligns=None):
    prop = prop or PROP
    others = '|'.join(x for x in ('C03', 'C04', 'C05') if x != prop)
    unit, fns = poolunit.build_unit(ctx)
    src = unit + poolunit.HARNESS
    # quick: one alignment pair per property (C03: 128 -> 8, C04: 8 -> 128) to keep the every-change run short;
    # thorough: every pair for both
    if ctx.tier == 'quick':
        aligns = [(128, 8)]
    else:
        aligns = [(128, 8), (4096, 128)]
    bits = 8 if ctx.tier == 'quick' else 9
    maxn = 2 if ctx.tier == 'quick' else 3
    opn = ['reserve', 'resize', 'shrinkToFit', 'setAlignment', 'release', 'slice']
    groups = []
    if only_aligns:
        aligns = [x for x in aligns if x in only_aligns]
    for a, a2 in aligns:
        for op, name in enumerate(opn):
            if only_ops and name not in only_ops:
                continue
            groups.append(Group(
                name='pool/%s/align=%d%s' % (name, a, ('->%d' % a2) if name == 'setAlignment' else ''),
                sources={'pool.cpp': src}, entry='h_pool_op', lang='cpp', unwind=7 if ctx.tier == 'quick' else 8,
                defines=['ALIGN=%d' % a, 'ALIGN2=%d' % a2, 'SZ_BITS=%d' % bits, 'VERIF_OP=%d' % op, 'MAXN=%d' % (2 if name == 'reserve' else maxn), 'CHECK_' + prop],
                min_obligations=10, functions=fns, strength='bounded',
                canary=None if (ctx.tier == 'quick' and name == 'reserve') else 'CANARY', canary_label='canary',
                bound='histories of <= %d reservations (+ slice, + releases) then one %s; sizes < 2^%d; alignment %d' % (2 if name == 'reserve' else maxn, name, bits, a),
                object_bits=10, timeout=2400 if ctx.tier == 'quick' else 5400, ignore=r': (%s): ' % others,
                checks=['--bounds-check', '--pointer-check', '--div-by-zero-check', '--undefined-shift-check', '--no-signed-overflow-check'],
                param='alignment %d, operation %s' % (a, name), replay=replay_C03.replay))
    return groups
