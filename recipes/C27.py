"""C27 - hash_t strings are faithful and hashing has no undefined behaviour."""
import re

from vp.core import Group, Undecided
from vp.extract import extract_function, extract_block, rewrite, insert_loop_contracts
from vp import replaylib

LEVEL = 'proof'
EXPLANATION = ('hash(const void*, udim_t) is C-extracted and proved free of UB for a buffer of any length '
               '(loop contracts, dfcc); the hex codec and every hash_t string/operator member are compiled by '
               "CBMC's C++ front end from their real text and their contracts are checked for all 2^256 hash "
               'values and every cache state; all loops there have constant trip counts and are fully unwound '
               '(complete, not bounded).')
TRUSTED = ['cbmc 6.11.0 C and C++ front ends, SAT back end (minisat)',
           'stubs/string: fixed-capacity std::string (capacity asserted on every append)',
           'C extraction rules for hash(): hash_t -> C struct mirror generated from the real member list, '
           'constructor call made explicit, unused std::stringstream local dropped',
           'memset modelled by CBMC built-in library']
ASSUMPTIONS = ['LP64, two\'s complement; unsigned->int conversion is modular (implementation-defined, gcc/clang) '
               'so --conversion-check is not applied to hash()',
               'fromString is only specified on well-formed hex strings (those getFullString produces)',
               'determinism across processes: hash() is proved to assign nothing outside its result and calls '
               'no external function; that it reads no global is by inspection of the extracted text (no identifier '
               'outside parameters/locals)']
NOT_REACHED = ['hash_t::random (time + random_device)', 'hashFile (file system)',
               'operator<< (iostream)', 'hash(const std::string&)/hash(const char*) wrappers (one-line forwarders)']

HASH_CPP = 'src/utils/hash.cpp'
HASH_HPP = 'include/occa/utils/hash.hpp'
STRING_HPP = 'src/occa/internal/utils/string.hpp'


def hash_fields(ctx):
    """Member list of the real class, for the C mirror struct."""
    cls = extract_block(ctx, HASH_HPP, r'^\s*class hash_t \{', name='class hash_t')
    want = [r'bool initialized;', r'int h\[8\];', r'mutable std::string h_string;', r'mutable int sh\[8\];']
    pos = []
    for w in want:
        m = re.search(w, cls.text)
        if not m:
            raise Undecided('extraction break: hash_t member /%s/ not found' % w)
        pos.append(m.start())
    if pos != sorted(pos):
        raise Undecided('extraction break: hash_t member order changed')
    return cls


# ---------------------------------------------------------------- hash() in C

def c_hash_group(ctx):
    cls = hash_fields(ctx)
    ctor = extract_function(ctx, HASH_CPP, r'^  hash_t::hash_t\(\) \{', name='hash_t::hash_t()')
    fn = extract_function(ctx, HASH_CPP, r'^  hash_t hash\(const void \*ptr, udim_t bytes\) \{',
                          name='hash(const void*, udim_t)')
    ctor_c = rewrite(ctor, [
        ('C: constructor -> init function on explicit this', r'^  hash_t::hash_t\(\) \{', 'void hash_t_ctor(hash_t *this_) {', 1),
        ('C: implicit member access -> this_->member', r'(?<![\w.>])(initialized|h|sh)\b(?=\s*(\[|=))', r'this_->\1', None),
    ])
    ctor_c, _ = insert_loop_contracts(ctor_c, {
        0: '__CPROVER_assigns(i, __CPROVER_object_whole(this_->sh))\n'
           '__CPROVER_loop_invariant(0 <= i && i <= 8)\n'
           '__CPROVER_decreases(8 - i)'}, 'hash_t::hash_t()')
    fn_c = rewrite(fn, [
        ('C: signature', r'^  hash_t hash\(const void \*ptr, udim_t bytes\) \{',
         'hash_t occa_hash(const void *ptr, udim_t bytes)\n'
         '__CPROVER_requires(bytes <= VERIF_MAX_BYTES && __CPROVER_is_fresh(ptr, bytes))\n'
         '__CPROVER_ensures(__CPROVER_return_value.initialized == 1)\n'
         '__CPROVER_assigns()\n{', 1),
        ('drop unused std::stringstream local', r'^\s*std::stringstream ss;\n', '', '*'),
        ('C: default construction made explicit', r'hash_t hash;', 'hash_t hash; hash_t_ctor(&hash);', 1),
    ])
    fn_c, nloops = insert_loop_contracts(fn_c, {
        0: '__CPROVER_assigns(i, __CPROVER_object_whole(hash.h))\n'
           '__CPROVER_loop_invariant(i <= bytes && h == hash.h)\n'
           '__CPROVER_decreases(bytes - i)',
        1: '__CPROVER_assigns(j, __CPROVER_object_whole(hash.h))\n'
           '__CPROVER_loop_invariant(0 <= j && j <= 8 && h == hash.h)\n'
           '__CPROVER_decreases(8 - j)',
    }, 'hash()')
    # loop 0/1 in hash() are preceded by the ctor's loop only in ctor text (separate function)
    src = '''#include <stddef.h>
#include <stdbool.h>
typedef unsigned long udim_t;
#define VERIF_MAX_BYTES 100000000ul
/* C mirror of class hash_t (member list checked against the real header;
   h_string is not touched by hash() and is left out) */
typedef struct hash_t { bool initialized; int h[8]; int sh[8]; } hash_t;
%s
%s
void h_hash(void) {
  const void *ptr; udim_t bytes;
  hash_t r = occa_hash(ptr, bytes);
#ifdef CANARY
  __CPROVER_assert(r.h[0] != 12345, "canary: hash result is unconstrained");
#endif
}
''' % (ctor_c, fn_c)
    checks = ['--bounds-check', '--pointer-check', '--pointer-overflow-check', '--signed-overflow-check',
              '--div-by-zero-check', '--undefined-shift-check']
    return Group(name='hash/no-UB-any-length', sources={'hash.c': src}, entry='h_hash', lang='c',
                 enforce=['occa_hash'], loop_contracts=True, checks=checks, min_obligations=40,
                 expect_loops=3, functions=[fn, ctor, cls], canary='CANARY', canary_label='canary',
                 strength='proof', timeout=300,
                 note='all three loops (constructor, bytes, words) closed by loop contracts',
                 replay=replaylib.replay_hash_ub)


def c_hash_determinism_group(ctx):
    """Bounded relational contract: equal bytes => equal hash, wherever the bytes live (alignment, neighbours)."""
    cls = hash_fields(ctx)
    ctor = extract_function(ctx, HASH_CPP, r'^  hash_t::hash_t\(\) \{', name='hash_t::hash_t()')
    fn = extract_function(ctx, HASH_CPP, r'^  hash_t hash\(const void \*ptr, udim_t bytes\) \{',
                          name='hash(const void*, udim_t)')
    ctor_c = rewrite(ctor, [
        ('C: constructor -> init function on explicit this', r'^  hash_t::hash_t\(\) \{', 'void hash_t_ctor(hash_t *this_) {', 1),
        ('C: implicit member access -> this_->member', r'(?<![\w.>])(initialized|h|sh)\b(?=\s*(\[|=))', r'this_->\1', None),
    ])
    fn_c = rewrite(fn, [
        ('C: signature', r'^  hash_t hash\(const void \*ptr, udim_t bytes\) \{', 'hash_t occa_hash(const void *ptr, udim_t bytes) {', 1),
        ('drop unused std::stringstream local', r'^\s*std::stringstream ss;\n', '', '*'),
        ('C: default construction made explicit', r'hash_t hash;', 'hash_t hash; hash_t_ctor(&hash);', 1),
        ('C: global-namespace qualifier', r'(?<![\w>])::(memcpy|memset)\(', r'\1(', '*'),
    ])
    src = '''#include <stddef.h>
#include <stdbool.h>
#include <stdint.h>
#include <string.h>
typedef unsigned long udim_t;
typedef struct hash_t { bool initialized; int h[8]; int sh[8]; } hash_t;
%s
%s
#define MAXN 9
unsigned long nondet_ulong(void); char nondet_char(void);
void h_determinism(void) {
  /* the same n bytes stored at two different places: different alignment, different neighbours */
  static char A[MAXN + 16] __attribute__((aligned(8))), B[MAXN + 16] __attribute__((aligned(8)));
  udim_t n = nondet_ulong(); const udim_t oa = OA, ob = OB;    /* placements enumerated, one group each */
  __CPROVER_assume(n <= MAXN);
  for (int i = 0; i < MAXN + 16; ++i) { A[i] = nondet_char(); B[i] = nondet_char(); }
  for (udim_t i = 0; i < MAXN; ++i) B[ob + i] = A[oa + i];     /* unconditional: both computations become the same term */
  hash_t x = occa_hash(A + oa, n), y = occa_hash(B + ob, n);
  int j = 0; unsigned long jj = nondet_ulong(); __CPROVER_assume(jj < 8); j = (int) jj;
  __CPROVER_assert(x.h[j] == y.h[j], "hashing equal bytes gives equal hashes wherever the bytes are stored (every word)");
  __CPROVER_assert(x.initialized && y.initialized, "hash result is initialized");
  /* sensitivity: a hash that ignores its input would satisfy the line above */
  if (n == 1 && A[oa] != 0) { hash_t z = occa_hash(A + oa, 0); __CPROVER_assert(z.h[0] != x.h[0] || z.h[1] != x.h[1] || z.h[2] != x.h[2] || z.h[3] != x.h[3], "hashing one non-zero byte differs from hashing nothing"); }
#ifdef CANARY
  __CPROVER_assert(n < MAXN, "canary");
#endif
}
''' % (ctor_c, fn_c)
    return [Group(name='hash/equal-bytes-equal-hash/offsets=%d,%d' % (oa, ob), sources={'hashdet.c': src}, entry='h_determinism', lang='c',
                  checks=['--bounds-check', '--pointer-check', '--div-by-zero-check', '--undefined-shift-check'],
                  unwind=28, min_obligations=10, functions=[fn, ctor, cls], canary='CANARY', canary_label='canary', solver='cvc5',
                  defines=['OA=%d' % oa, 'OB=%d' % ob], param='placement offsets %d / %d' % (oa, ob),
                  strength='bounded', bound='buffers of <= 9 bytes placed at offsets %d and %d of two 8-aligned arrays' % (oa, ob), timeout=600,
                  replay=replaylib.replay_hash_determinism)
            for oa, ob in ([(0, 1), (3, 5)] if ctx.tier == 'quick' else [(0, 1), (1, 2), (0, 3), (2, 0), (0, 4), (3, 5)])]


# ---------------------------------------------------------- hash_t members, C++

def cpp_unit(ctx):
    cls = hash_fields(ctx)
    fns = []
    def get(sig, name):
        f = extract_function(ctx, HASH_CPP, sig, name=name)
        fns.append(f)
        return f.text
    parts = [
        get(r'^  hash_t::hash_t\(\) \{', 'hash_t::hash_t()'),
        get(r'^  hash_t::hash_t\(const int \*h_\) \{', 'hash_t::hash_t(const int*)'),
        get(r'^  hash_t::hash_t\(const hash_t &hash\) \{', 'hash_t::hash_t(const hash_t&)'),
        get(r'^  hash_t& hash_t::operator = \(const hash_t &hash\) \{', 'hash_t::operator='),
        get(r'^  void hash_t::clear\(\) \{', 'hash_t::clear'),
        get(r'^  bool hash_t::operator < \(const hash_t &fo\) const \{', 'hash_t::operator<'),
        get(r'^  bool hash_t::operator == \(const hash_t &fo\) const \{', 'hash_t::operator=='),
        get(r'^  bool hash_t::operator != \(const hash_t &fo\) const \{', 'hash_t::operator!='),
        get(r'^  template <>\n  hash_t hash_t::operator \^ \(const hash_t &hash\) const \{', 'hash_t::operator^(hash_t)'),
        get(r'^  hash_t& hash_t::operator \^= \(const hash_t hash\) \{', 'hash_t::operator^='),
        get(r'^  int hash_t::getInt\(\) const \{', 'hash_t::getInt'),
        get(r'^  std::string hash_t::getFullString\(\) const \{', 'hash_t::getFullString'),
        get(r'^  std::string hash_t::getString\(\) const \{', 'hash_t::getString'),
        get(r'^  hash_t hash_t::fromString\(const std::string &s\) \{', 'hash_t::fromString'),
    ]
    hexes = []
    def geth(sig, name, rules=()):
        f = extract_function(ctx, STRING_HPP, sig, name=name)
        fns.append(f)
        return rewrite(f, list(rules))
    hexes.append(geth(r'^  inline char toHexChar\(const char c\) \{', 'toHexChar'))
    hexes.append(geth(r'^  inline char fromHexChar\(const char c\) \{', 'fromHexChar'))
    hexes.append(geth(r'^  template <class TM>\n  std::string toHex\(const TM &value\) \{', 'toHex<TM>', [
        ('de-template TM := int', r'template <class TM>\n', '', 1),
        ('de-template TM := int', r'\bTM\b', 'int', 1),
        ('sizeof(reference) is miscompiled by the front end: sizeof(value) -> sizeof(int)', r'sizeof\(value\)', 'sizeof(int)', 1),
    ]))
    hexes.append(geth(r'^  template <class TM>\n  void fromHex\(const std::string &str,\n\s+TM \*out,\n\s+const int bytes\) \{',
                      'fromHex<TM>(str, out, bytes)', [
        ('de-template TM := int', r'template <class TM>\n', '', 1),
        ('de-template TM := int', r'\bTM\b', 'int', 1),
    ]))
    cls_text = rewrite(cls, [
        ('template specialisation declared in-class is instantiated textually: operator^<hash_t>',
         r'template <class T>\n\s*hash_t operator \^ \(const T &t\) const;', 'hash_t operator ^ (const hash_t &t) const;', 1),
        ('friend operator<< dropped (iostream)', r'friend std::ostream& operator << \(std::ostream &out,\s*const hash_t &hash\);', '', 1),
    ])
    body = '\n'.join(parts)
    body = body.replace('  template <>\n  hash_t hash_t::operator ^', '  hash_t hash_t::operator ^')
    unit = '''#include <string>
#include <iostream>
typedef unsigned long udim_t;
namespace occa {
%s;
%s
%s
}
''' % (cls_text, '\n'.join(hexes), body)
    return unit, fns + [cls]


HARNESS = r'''
using namespace occa;

static void any_hash(hash_t &x) {
  /* arbitrary hash value with a constructor-consistent cache: sh is all
     zeros after every constructor/assignment, or equals h with h_string the
     cached short string after getString() */
  for (int i = 0; i < 8; ++i) { x.h[i] = nondet_int(); x.sh[i] = 0; }
  x.initialized = nondet_bool();
}

static int hexval(char c) { return (c >= '0' && c <= '9') ? c - '0' : (c >= 'a' && c <= 'f') ? 10 + c - 'a' : -1; }

extern "C" void h_hexchar() {
  char c = nondet_char();
  __CPROVER_assume(0 <= c && c < 16);
  char x = toHexChar(c);
  __CPROVER_assert(hexval(x) == c, "toHexChar yields the lower-case hex digit of a nibble");
  __CPROVER_assert(fromHexChar(x) == c, "fromHexChar(toHexChar(n)) == n for every nibble");
  char d = nondet_char();
  __CPROVER_assume(hexval(d) >= 0);
  __CPROVER_assert(fromHexChar(d) == hexval(d), "fromHexChar decodes every hex digit");
#ifdef CANARY
  __CPROVER_assert(x != 'f', "canary");
#endif
}

extern "C" void h_fullstring_roundtrip() {
  hash_t a; any_hash(a);
  std::string s = a.getFullString();
  __CPROVER_assert(s.size() == 64, "full string has 64 characters");
  size_t k = nondet_ulong(); __CPROVER_assume(k < 64);
  __CPROVER_assert(hexval(s[k]) >= 0, "full string is lower-case hex");
  hash_t b = hash_t::fromString(s);
  int j = nondet_int(); __CPROVER_assume(0 <= j && j < 8);
  __CPROVER_assert(b.h[j] == a.h[j], "fromString(getFullString(h)) == h (every word)");
  __CPROVER_assert(b == a && !(b != a), "fromString(getFullString(h)) == h (operator==)");
  __CPROVER_assert(b.initialized, "fromString result is initialized");
#ifdef CANARY
  __CPROVER_assert(b.h[j] != 77, "canary");
#endif
}

extern "C" void h_fullstring_injective() {
  hash_t a, b; any_hash(a); any_hash(b);
  std::string s = a.getFullString(), t = b.getFullString();
  if (s == t) __CPROVER_assert(a == b, "equal full strings imply equal hashes");
  if (a == b) __CPROVER_assert(s == t, "equal hashes have equal full strings");
#ifdef CANARY
  __CPROVER_assert(!(s == t), "canary");
#endif
}

static void check_short(const hash_t &x, const char *what) {
  std::string f = x.getFullString();
  std::string s = x.getString();
  __CPROVER_assert(s.size() == 16, "short string has 16 characters");
  size_t k = nondet_ulong(); __CPROVER_assume(k < 16);
  __CPROVER_assert(s.size() == 16 && s[k] == f[k], "short string is the first 16 characters of the full string");
  /* second call goes through the cache */
  std::string s2 = x.getString();
  __CPROVER_assert(s2 == s, "cached short string equals the first one");
}

extern "C" void h_short_fresh() {
  /* every way to obtain a hash value: constructor from words, copy, assignment, fromString */
  int w[8]; for (int i = 0; i < 8; ++i) w[i] = nondet_int();
  hash_t a(w);
  check_short(a, "hash_t(const int*)");
  hash_t b(a);
  check_short(b, "copy");
  hash_t c; c = a;
  check_short(c, "assigned");
  hash_t d;
  check_short(d, "default");
#ifdef CANARY
  __CPROVER_assert(a.h[0] != 5, "canary");
#endif
}

extern "C" void h_short_after_mutation() {
  /* cache filled for one value, then the value changes through every mutator */
  hash_t a; any_hash(a);
  std::string s0 = a.getString();
  hash_t b; any_hash(b);
  if (nondet_bool()) a ^= b; else if (nondet_bool()) a = b; else a.clear();
  check_short(a, "after mutation");
#ifdef CANARY
  __CPROVER_assert(a.h[0] != 5, "canary");
#endif
}

/* Representation invariant of the short-string cache: whenever the cache counts as valid
   (h_string non-empty and sh == h) the cached string IS the short string of h.  Every
   operation must preserve it from EVERY invariant state - this is what makes the short-string
   law hold after any history of assignments, copies, ^=, clear and getString calls. */
static void any_inv_state(hash_t &x) {
  for (int i = 0; i < 8; ++i) x.h[i] = nondet_int();
  x.initialized = nondet_bool();
  int kind = nondet_int(); __CPROVER_assume(0 <= kind && kind <= 2);
  if (kind == 0) {                       /* nothing cached, sh arbitrary */
    x.h_string = std::string(); for (int i = 0; i < 8; ++i) x.sh[i] = nondet_int();
  } else if (kind == 1) {                /* valid cache */
    std::string f = x.getFullString(); x.h_string = f.substr(0, 16); for (int i = 0; i < 8; ++i) x.sh[i] = x.h[i];
  } else {                               /* stale cache: cached for other words, any 16 characters */
    std::string t; for (int i = 0; i < 16; ++i) { char c = nondet_char(); __CPROVER_assume(c != 0); t += c; }
    x.h_string = t; bool differs = false;
    for (int i = 0; i < 8; ++i) { x.sh[i] = nondet_int(); if (x.sh[i] != x.h[i]) differs = true; }
    __CPROVER_assume(differs);
  }
}
static void check_inv(const hash_t &x, const char *what) {
  bool same = true; for (int i = 0; i < 8; ++i) if (x.sh[i] != x.h[i]) same = false;
  if (!x.h_string.empty() && same) {
    std::string f = x.getFullString();
    size_t k = nondet_ulong(); __CPROVER_assume(k < 16);
    __CPROVER_assert(x.h_string.size() == 16 && x.h_string[k] == f[k], "cache invariant: a cached short string that counts as valid is the short string of the current value");
  }
}
extern "C" void h_cache_invariant() {
  hash_t a, b; any_inv_state(a); any_inv_state(b);
#ifndef VERIF_OP
#define VERIF_OP 0
#endif
#if VERIF_OP == 0
  hash_t c(a); check_inv(c, "copy constructor"); check_short(c, "copy");
#elif VERIF_OP == 1
  a = b; check_inv(a, "operator="); check_short(a, "assigned");
#elif VERIF_OP == 2
  a ^= b; check_inv(a, "operator^="); check_short(a, "after ^=");
#elif VERIF_OP == 3
  a.clear(); check_inv(a, "clear"); check_short(a, "cleared");
#elif VERIF_OP == 4
  hash_t c = a ^ b; check_inv(c, "operator^"); check_short(c, "a ^ b");
#else
  std::string s = a.getString(); check_inv(a, "getString"); check_short(a, "after getString");
#endif
#ifdef CANARY
  __CPROVER_assert(b.h[0] != 5, "canary");      /* b is untouched by clear(): must be falsifiable */
#endif
}

extern "C" void h_short_combined() {
  hash_t a, b; any_hash(a); any_hash(b);
  hash_t c = a ^ b;
  check_short(c, "a ^ b");
  hash_t d = hash_t::fromString(a.getFullString());
  check_short(d, "fromString");
#ifdef CANARY
  __CPROVER_assert(c.h[0] != 0, "canary");
#endif
}

extern "C" void h_operators() {
  hash_t a, b, c; any_hash(a); any_hash(b); any_hash(c);
  int j = nondet_int(); __CPROVER_assume(0 <= j && j < 8);
  hash_t x = a ^ b;
  __CPROVER_assert(x.h[j] == (a.h[j] ^ b.h[j]), "operator^ is the word-wise xor");
  __CPROVER_assert(x.initialized, "operator^ result is initialized");
  hash_t y = a; y ^= b;
  __CPROVER_assert(y.h[j] == (a.h[j] ^ b.h[j]), "operator^= is the word-wise xor");
  bool eq = true;
  for (int i = 0; i < 8; ++i) if (a.h[i] != b.h[i]) eq = false;
  __CPROVER_assert((a == b) == eq, "operator== compares all eight words");
  __CPROVER_assert((a != b) == !eq, "operator!= is the negation of operator==");
  /* strict weak order, consistent with == */
  __CPROVER_assert(!(a < a), "operator< irreflexive");
  if (a < b) __CPROVER_assert(!(b < a), "operator< asymmetric");
  if (a < b && b < c) __CPROVER_assert(a < c, "operator< transitive");
  __CPROVER_assert((a == b) == (!(a < b) && !(b < a)), "operator< total: incomparable iff equal");
  hash_t d(a);
  __CPROVER_assert(d == a && d.initialized == a.initialized, "copy constructor copies value and flag");
  __CPROVER_assert(a.getInt() == a.h[0], "getInt is the first word");
#ifdef CANARY
  __CPROVER_assert(!(a < b), "canary");
#endif
}
'''


def build(ctx):
    groups = [c_hash_group(ctx)] + c_hash_determinism_group(ctx)
    unit, fns = cpp_unit(ctx)
    src = unit + HARNESS
    for entry, mino in [('h_hexchar', 3), ('h_fullstring_roundtrip', 6), ('h_fullstring_injective', 2),
                        ('h_short_fresh', 8), ('h_short_after_mutation', 3), ('h_short_combined', 6),
                        ('h_operators', 12)]:
        groups.append(Group(
            name='hash_t/' + entry[2:], sources={'hash_t.cpp': src}, entry=entry, lang='cpp',
            unwind=74, object_bits=12, min_obligations=mino, functions=fns, canary='CANARY', canary_label='canary',
            strength='proof', timeout=600,
            note='all loops have constant trip counts (8 words, 4 bytes, <= 64 characters); unwound with unwinding assertions',
            replay=replaylib.replay_hash_t))
    for op, opname in enumerate(['copy-construct', 'assign', 'xor-assign', 'clear', 'xor', 'getString']):
        groups.append(Group(
            name='hash_t/cache_invariant/' + opname, sources={'hash_t.cpp': src}, entry='h_cache_invariant', lang='cpp',
            unwind=74, object_bits=12, min_obligations=4, functions=fns, canary='CANARY', canary_label='canary',
            defines=['VERIF_OP=%d' % op], strength='proof', timeout=900,
            note='inductive step of the cache representation invariant; constant-trip loops fully unwound',
            replay=replaylib.replay_hash_t))
    return groups
