"""C18 - @tile covers the original loop's iterations exactly once.

Translation validation with a deductive back end (Engine B): every loop of the
family is written with @tile(...) into an OKL kernel, translated by the real
`occa translate --mode Serial`, and the emitted tiled loop nest is pasted
verbatim next to the original loop.  A ghost value v is counted by both; CBMC
proves `visits_original(v) == visits_tiled(v) <= 1` for every v and all
run-time bounds in a box, all loops fully unwound (unwinding assertions).
"""
import functools
import os
import re

from vp.core import Group, Undecided
from vp import engine_b as eb

LEVEL = 'translation_validation'
EXPLANATION = ('For every program of the family (tile size x step x comparison x operand order x check x attribute form) the '
               'tiled loop nest emitted by the real translator (Serial mode) is pasted verbatim into a C harness next to the '
               'original loop. A nondeterministic ghost value v is counted by both nests (the loop body `out[0] += (i == v)` is part '
               'of the translated program); CBMC proves that both visit v equally often and at most once, for every v and all '
               'run-time bounds in the box, with every loop fully unwound (unwinding assertions: exhaustive in the box). '
               'With check=false the statement is proved under the precondition that the iteration count is a multiple of the tile size.')
TRUSTED = ['cbmc 6.11.0 C front end, SAT back end (cadical)',
           'the harness generator (recipes/C18.py, vp/engine_b.py): location of the emitted nest; the original loop is written into the '
           'harness from the same strings that form the OKL text']
ASSUMPTIONS = ['run-time bounds in a box (quick: N in [-8,24], a in [-4,4]; thorough: N in [-16,48], a in [-8,8]); run-time tile size 1..8',
               'direction-consistent headers only; tile sizes are positive',
               'the enumerated family is checked program by program; nothing is claimed for loops outside it']
NOT_REACHED = ['nested @tile loops and tile::floatOuterLoopUp (2-D tiling)',
               'the GPU back ends applied to the tiled nest (launch sizes of tiled loops are C17-style obligations, not enumerated here)',
               'tile-size expressions other than a literal or a variable']

OPS = {'lt': '<', 'le': '<=', 'gt': '>', 'ge': '>='}
CMPS = {'ltL': ('lt', 'L', +1), 'leL': ('le', 'L', +1), 'gtR': ('gt', 'R', +1), 'geR': ('ge', 'R', +1),
        'gtL': ('gt', 'L', -1), 'geL': ('ge', 'L', -1), 'ltR': ('lt', 'R', -1), 'leR': ('le', 'R', -1)}
UPDATES = {+1: {'pre++': ('++i', 1), 'post++': ('i++', 1), '+=1': ('i += 1', 1), '+=2': ('i += 2', 2), '+=3': ('i += 3', 3)},
           -1: {'pre--': ('--i', 1), 'post--': ('i--', 1), '-=1': ('i -= 1', 1), '-=2': ('i -= 2', 2), '-=3': ('i -= 3', 3)}}
TILES = ['1', '2', '3', '4', '7', 'T']
CHECKS = {'default': '', 'true': ', check=true', 'false': ', check=false'}
FORMS = ['outer-inner', 'plain']
SIG = 'const int N, const int a, const int T, const int v, int *out'
BODY = 'out[0] += (i == v);'


class Prog:
    def __init__(self, tile, cmp, upd, check, form):
        self.tile, self.cmp, self.upd, self.check, self.form = tile, cmp, upd, check, form
        self.op, self.side, self.dir = CMPS[cmp]
        self.upd_text, self.step = UPDATES[self.dir][upd]
        # increasing loops run from a up to N, decreasing ones from N down to a
        self.init, self.bound = ('a', 'N') if self.dir > 0 else ('N', 'a')
        self.check_text = ('i %s %s' % (OPS[self.op], self.bound) if self.side == 'L'
                           else '%s %s i' % (self.bound, OPS[self.op]))
        self.loop = 'for (int i = %s; %s; %s)' % (self.init, self.check_text, self.upd_text)
        if form == 'outer-inner':
            attr = '@tile(%s, @outer, @inner%s)' % (tile, CHECKS[check])
            self.okl = ('@kernel void %s(%s) {\n  for (int i = %s; %s; %s; %s) {\n    %s\n  }\n}\n'
                        % (eb.KNAME, SIG, self.init, self.check_text, self.upd_text, attr, BODY))
        else:
            attr = '@tile(%s%s)' % (tile, CHECKS[check])
            self.okl = ('@kernel void %s(%s) {\n  for (int o = 0; o < 1; ++o; @outer) {\n    for (int t = 0; t < 1; ++t; @inner) {\n'
                        '      for (int i = %s; %s; %s; %s) {\n        %s\n      }\n    }\n  }\n}\n'
                        % (eb.KNAME, SIG, self.init, self.check_text, self.upd_text, attr, BODY))

    def shape(self):
        return 'tile=%s/%s/i%s/check=%s' % (self.tile, self.cmp, self.upd, 'false' if self.check == 'false' else 'true')

    def checked(self):
        return self.check != 'false'


def family(tier):
    fam = []
    tiles = TILES if tier == 'thorough' else ['2', '4']
    for tile in tiles:
        for cmp, (op, side, d) in CMPS.items():
            upds = list(UPDATES[d]) if tier == 'thorough' else [u for u in UPDATES[d] if u in ('pre++', 'pre--', '+=2', '-=2')]
            for upd in upds:
                for check in CHECKS:
                    for form in FORMS:
                        if tier == 'quick' and (check == 'true' or (form == 'plain' and not (tile == '4' and upd in ('+=2', 'pre--')))):
                            continue
                        fam.append(Prog(tile, cmp, upd, check, form))
    return fam


def dedent(nest):
    lines = nest.split('\n')
    ind = min([len(l) - len(l.lstrip()) for l in lines[1:] if l.strip()] or [0])
    return '\n'.join([lines[0]] + [l[ind:] for l in lines[1:]])


BOX = {'quick': (-8, 24, -4, 4), 'thorough': (-16, 48, -8, 8)}
TMAX = 8


def harness(pg, nest, box):
    nlo, nhi, alo, ahi = box
    pre = ''
    if not pg.checked():
        pre = ('  /* check=false: the statement holds whenever the iteration count is a multiple of the tile size */\n'
               '  __CPROVER_assume(verif_n %% (%s) == 0);\n' % pg.tile)
    return '''%s
void h(void) {
  int N = nondet_int(); __CPROVER_assume(%d <= N && N <= %d);
  int a = nondet_int(); __CPROVER_assume(%d <= a && a <= %d);
  int T = nondet_int(); __CPROVER_assume(1 <= T && T <= %d);     /* run-time tile size (used by @tile(T) programs only) */
  int v = nondet_int();                                           /* ghost value: any iterator value */
  /* ---- the original loop `%s` ---- */
  int verif_co = 0, verif_n = 0;
  %s { verif_co += (i == v); ++verif_n; }
%s  /* ---- tiled loop nest emitted by `occa translate --mode Serial` (@tile(%s ...)), verbatim ---- */
  int verif_ct[1] = { 0 };
  int *out = verif_ct;
  %s
  /* ---- contract (property C18) ---- */
#ifndef CANARY
  __CPROVER_assert(verif_ct[0] == verif_co, "tiled loops visit every iterator value exactly as often as the original loop");
  __CPROVER_assert(verif_ct[0] <= 1, "tiled loops visit no iterator value twice");
#else
  __CPROVER_assert(!(verif_co == 1 && verif_n >= 5), "canary: a loop with five iterations that visits v is reachable");
#endif
}
''' % (eb.NONDET_DECLS, nlo, nhi, alo, ahi, TMAX, pg.loop, pg.loop, pre,
       pg.tile, dedent(nest).replace('\n', '\n  '))


# -------------------------------------------------------------------- replay

def replay(pg, nest, ctx, g, o, inputs):
    vals = dict((p, eb.trace_int(inputs, p, 1)) for p in ('N', 'a', 'T'))
    src = '''#include <cstdio>
#include <cstdlib>
#include <vector>
#include <algorithm>
int main(int argc, char **argv) {
  const int N = atoi(argv[1]), a = atoi(argv[2]), T = atoi(argv[3]);
  std::vector<int> orig, tiled;
  /* the original loop */
  %s { orig.push_back(i); if (orig.size() > 100000) break; }
  /* the emitted tiled nest, verbatim; its body `out[0] += (i == v)` records i through v */
  #define v (tiled.push_back(i), i)
  int verif_ct[1] = { 0 }; int *out = verif_ct;
  %s
  #undef v
  printf("N=%%d a=%%d T=%%d\\n", N, a, T);
  printf("original `%s`: %%zu iterations:", orig.size());
  for (size_t q = 0; q < orig.size() && q < 16; ++q) printf(" %%d", orig[q]);
  printf("\\ntiled nest: %%zu iterations:", tiled.size());
  for (size_t q = 0; q < tiled.size() && q < 16; ++q) printf(" %%d", tiled[q]);
  printf("\\n");
  std::vector<int> x = orig, y = tiled; std::sort(x.begin(), x.end()); std::sort(y.begin(), y.end());
  bool same = (x == y);
  printf(same ? "SAME\\n" : "DIFFERENT\\n");
  return same ? 0 : 1;
}
''' % (pg.loop, nest, pg.loop)
    cands = [vals, dict(vals, N=10, a=0, T=4), dict(vals, N=9, a=-3, T=3), dict(vals, N=13, a=1, T=2)]
    last = None
    for v in cands:
        rc, out = eb.native_run(ctx, 'replay_c18', src, args=[v['N'], v['a'], v['T']], timeout=30)
        last = (v, out)
        if rc == 1 and 'DIFFERENT' in out:
            if not pg.checked():
                m = re.search(r'original `[^`]*`: (\d+) iterations', out)
                ts = v['T'] if pg.tile == 'T' else int(pg.tile)
                if m and int(m.group(1)) % ts != 0:
                    continue          # outside the check=false precondition
            from vp import replaylib
            pth = replaylib.keep_replay_source(ctx, g, src)
            return {'reproduced': True, 'input': v, 'from_counterexample': v is vals, 'program': pth, 'okl': pg.okl,
                    'how': 'original loop and emitted tiled nest compiled with g++ -O0; iteration multisets compared',
                    'output': out[-700:]}
    return {'reproduced': False, 'input': last[0], 'output': last[1][-700:]}


# --------------------------------------------------------------------- build

def PROGRAMS():
    return eb.programs_translated()


def build(ctx):
    fam = family(ctx.tier)
    box = BOX[ctx.tier]
    res = eb.translate(ctx, [pg.okl for pg in fam], [('Serial', False)])
    groups, seen = [], {}
    for idx, pg in enumerate(fam):
        try:
            fn = eb.need(res, idx, 'Serial', False, pg.shape())
            if len(fn) != 1:
                raise Undecided('Serial source has %d functions for the kernel' % len(fn))
            body = eb.function_body(fn[0][1])
            f = eb.find_for(body, '_occa_tiled_i')
            inner = eb.find_for(f['body'], 'i')
            if BODY not in inner['body']:
                raise Undecided('loop body statement not found inside the emitted tiled nest')
            if '@' in f['whole']:
                raise Undecided('attribute left in the emitted nest')
        except Undecided as e:
            groups.append(eb.undecided_group('C18/locate/%s/%s' % (pg.form, pg.shape()), str(e), pg.shape()))
            continue
        text = harness(pg, f['whole'], box)
        key = (text, pg.shape())
        if key in seen:
            seen[key].append(pg)
            continue
        seen[key] = [pg]
        span = (box[1] - box[0]) + (box[3] - box[2]) + 4
        groups.append((key, Group(
            name='C18/%s' % pg.shape(), sources={'tile.c': text}, entry='h', unwind=span,
            unwindset=['h.1:%d' % ((TMAX if pg.tile == 'T' else int(pg.tile)) + 2)],
            extra_cbmc=['--sat-solver', 'cadical'], min_obligations=3, timeout=1200, strength='bounded',
            bound='N in [%d,%d], a in [%d,%d], run-time tile size 1..%d; all loops fully unwound' % (box + (TMAX,)),
            canary='CANARY', canary_label='canary', param=pg.shape() + ' :: ' + ' '.join(f['header'].split()) + ' { ' +
            ' '.join(inner['header'].split()) + ' ... }',
            replay=functools.partial(replay, pg, dedent(f['whole'])),
            note='CBMC numbers the inner tiled loop h.1 (its back edge comes first); it is unwound tile size + 2 times')))
    out = []
    for g in groups:
        if isinstance(g, tuple):
            key, grp = g
            forms = sorted({'%s%s' % (p.form, '' if p.check != 'default' else '(default check)') for p in seen[key]})
            grp.param += ' [forms: %s]' % ', '.join(forms)
            out.append(grp)
        else:
            out.append(g)
    only = os.environ.get('VERIF_ONLY')          # development aid: restrict to groups matching a regex
    if only:
        out = [g for g in out if re.search(only, g.name)]
    return out
