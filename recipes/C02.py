"""C02 - device memory behaves like an aliased byte array; misuse raises errors."""
from vp.core import Group
from vp import memunit
from recipes import C01
from vp import replay_C02

LEVEL = 'proof'   # power-of-two element sizes: complete over the machine domain; other sizes are labelled bounded
EXPLANATION = ('The Serial memory stack (occa::memory validation layer, modeMemory_t::slice, serial::buffer::slice, '
               'serial::memory constructor and copy functions) is extracted verbatim and run from every state '
               'satisfying the view invariant V (0 <= offset, offset + size <= buffer.size, ptr == buffer.ptr + offset) '
               'with fully symbolic 64-bit counts and offsets; element sizes are enumerated.  Contracts: a request '
               'reaches the backend memcpy iff it is valid by the property\'s definition (unbounded arithmetic, '
               '__int128 ghost), the memcpy is asked for exactly the requested byte range inside both views '
               '(so slices alias their parent and nothing outside the view is touched), and every raise happens '
               'only for an invalid request and before any memcpy.  All harnesses are loop-free up to ring '
               'walks of length <= 2, so each is complete over the machine domain for its element sizes.')
TRUSTED = ['cbmc 6.11.0 C++ front end and SAT back end',
           'flattened class skeletons (vp/memunit.py): json as consistent lookup of use_host_pointer/own_host_pointer, '
           'dtype_t as (bytes, registered), modeDevice_t ring callbacks as counters, sys::malloc/free as counters, '
           'device::memoryProperties as identity',
           'libc memcpy contract: reads [src, src+n), writes [dst, dst+n) - recorded, not executed']
ASSUMPTIONS = ['delete-expressions are recorded, not executed, in this property (object lifetime is decided by C01)',
               'virtual calls resolve to the Serial-mode classes (OpenMP shares them)',
               'buffer sizes below 2^48 bytes and host addresses below 2^40 (so that host pointer arithmetic cannot wrap)',
               'element sizes enumerated: quick {1, 4, 12}, thorough {1, 2, 3, 4, 8, 12, 16, 64}',
               'count == -1 means "the whole length" for copies and "the rest" for slice, as the code documents it']
NOT_REACHED = ['clone() (device::malloc with a memory source; its parts are covered by C05 malloc + copyFrom)',
               'byte contents over long histories (implied by V + exact memcpy ranges, not replayed separately)',
               'other backends']

HARNESS = r'''
#ifndef DSZ_A
#define DSZ_A 4
#endif
#ifndef DSZ_B
#define DSZ_B 4
#endif
typedef __int128 wide;

static modeDevice_t g_dev;
static dtype_t g_dtA, g_dtB;
static json g_props;

struct view { modeBuffer_t *buf; modeMemory_t *mm; udim_t boff; };

/* any state satisfying the view invariant V */
static void mk_buffer(modeBuffer_t *&buf) {
  json p;
  buf = new modeBuffer_t(&g_dev, 0, p);
  udim_t base = nondet_ulong(), bsize = nondet_ulong();
#ifndef SIZE_BITS
#define SIZE_BITS 48
#endif
  __CPROVER_assume(base < (1ul << 40) && bsize < (1ul << SIZE_BITS));
  buf->ptr = verif_heap + base; buf->size = bsize; buf->isWrapped = nondet_bool();
  buf->modeMemoryRing.dontUseRefs();   /* object lifetime is C01's subject: the harness owns buffer and views */
}
static void mk_view(view &v, modeBuffer_t *buf, dtype_t *dt, int dsz) {
  v.buf = buf;
  dim_t off = nondet_long(); udim_t sz = nondet_ulong();
  __CPROVER_assume(0 <= off && (udim_t) off <= buf->size && sz <= buf->size - (udim_t) off);
  v.mm = new modeMemory_t(buf, sz, off);
  v.mm->serial_ctor_body(buf);
  v.mm->dontUseRefs();
  dt->bytes_ = dsz; dt->registered = true;
  v.mm->dtype_ = dt;
}
static bool V(const modeMemory_t *m) {
  return m->modeBuffer != 0 && m->offset >= 0 && (udim_t) m->offset <= m->modeBuffer->size
      && m->size <= m->modeBuffer->size - (udim_t) m->offset && m->ptr == m->modeBuffer->ptr + m->offset;
}

/* ---------------------------------------------------------------- host <-> device */
static void host_copy(bool to_device) {
  modeBuffer_t *buf; view a; mk_buffer(buf); mk_view(a, buf, &g_dtA, DSZ_A);
  bool init = nondet_bool();
  memory m; if (init) m.setModeMemory(a.mm);
  dim_t count = nondet_long(), offset = nondet_long();
  char *host = verif_heap + (1ul << 50) + (nondet_ulong() & 0xffffff);
  /* the property's definition, in elements: [offset, offset + cnt) must lie inside [0, length) */
  udim_t len = a.mm->size / DSZ_A;
  wide cnt = (count == -1) ? (wide) len : (wide) count;
  bool inrange = offset >= 0 && count >= -1 && (udim_t) offset <= len && (udim_t) cnt <= len - (udim_t) offset;
  verif_request_invalid = !(init && inrange);
  verif_memcpy_calls = 0;
  if (to_device) m.copyFrom((const void*) host, count, offset, g_props);
  else m.copyTo((void*) host, count, offset, g_props);
  /* reached only when no exception was raised */
  if (!init) {
    __CPROVER_assert(verif_memcpy_calls == 0, "uninitialized handle: no memory is touched");
    __CPROVER_assert(0, "uninitialized handle (silently ignored by design): host copy must raise occa::exception");
  } else {
    __CPROVER_assert(inrange, "out-of-range or negative host copy request must raise occa::exception");
    if (!inrange) return;
    __CPROVER_assert(verif_memcpy_calls == 1, "valid host copy performs exactly one backend copy");
    char *dev = a.buf->ptr + a.mm->offset + offset * DSZ_A;
    __CPROVER_assert(verif_memcpy_n == (udim_t) (cnt * DSZ_A), "host copy moves exactly count * sizeof(element) bytes");
    __CPROVER_assert((to_device ? verif_memcpy_dst : verif_memcpy_src) == (const void*) dev, "host copy addresses element `offset` of the view (slices alias their parent's bytes)");
    __CPROVER_assert((to_device ? verif_memcpy_src : verif_memcpy_dst) == (const void*) host, "host copy uses the host pointer it was given");
    udim_t devaddr = (udim_t) (to_device ? verif_memcpy_dst : verif_memcpy_src), lo = (udim_t) a.mm->ptr;
    __CPROVER_assert(devaddr >= lo && (wide) (devaddr - lo) + verif_memcpy_n <= (wide) a.mm->size, "host copy stays inside the view");
  }
#ifdef CANARY
  __CPROVER_assert(!init, "canary");
#endif
}
extern "C" void h_copyFrom_ptr() { host_copy(true); }
extern "C" void h_copyTo_ptr() { host_copy(false); }

/* ---------------------------------------------------------------- device <-> device */
static void dev_copy(bool from) {
  modeBuffer_t *b1, *b2; mk_buffer(b1);
  if (nondet_bool()) b2 = b1; else mk_buffer(b2);      /* views may alias the same buffer */
  view a, b; mk_view(a, b1, &g_dtA, DSZ_A); mk_view(b, b2, &g_dtB, DSZ_B);
  bool initA = nondet_bool(), initB = nondet_bool();
  memory x, y; if (initA) x.setModeMemory(a.mm); if (initB) y.setModeMemory(b.mm);
  dim_t count = nondet_long(), destOffset = nondet_long(), srcOffset = nondet_long();
  /* x.copyFrom(y, ...): dest = x (A), src = y (B);  x.copyTo(y, ...): src = x (A), dest = y (B) */
  wide len = a.mm->size / DSZ_A;                     /* count == -1: the caller's whole length */
  wide cnt = (count == -1) ? len : (wide) count;
  wide bytes = cnt * DSZ_A;
  modeMemory_t *D = from ? a.mm : b.mm, *S = from ? b.mm : a.mm;
  int dszD = from ? DSZ_A : DSZ_B, dszS = from ? DSZ_B : DSZ_A;
  bool inrange = count >= -1 && destOffset >= 0 && srcOffset >= 0
      && (wide) destOffset * dszD + bytes <= (wide) D->size
      && (wide) srcOffset * dszS + bytes <= (wide) S->size;
  verif_request_invalid = !(initA && initB && inrange);
  verif_memcpy_calls = 0;
  if (from) x.copyFrom(y, count, destOffset, srcOffset, g_props);
  else x.copyTo(y, count, destOffset, srcOffset, g_props);
  if (!(initA && initB)) {
    __CPROVER_assert(verif_memcpy_calls == 0, "uninitialized handle: no memory is touched");
    __CPROVER_assert(!initA && !initB, "exactly one uninitialized handle: device copy must raise occa::exception");
    if (!initA && !initB) __CPROVER_assert(0, "uninitialized handle (silently ignored by design): device copy with both handles uninitialized must raise occa::exception");
  } else {
    __CPROVER_assert(inrange, "out-of-range or negative device copy request must raise occa::exception");
    if (!inrange) return;
    __CPROVER_assert(verif_memcpy_calls == 1, "valid device copy performs exactly one backend copy");
    char *d = D->modeBuffer->ptr + D->offset + destOffset * dszD;
    char *s = S->modeBuffer->ptr + S->offset + srcOffset * dszS;
    __CPROVER_assert(verif_memcpy_n == (udim_t) bytes, "device copy moves exactly count * sizeof(element) bytes");
    __CPROVER_assert(verif_memcpy_dst == (const void*) d, "device copy writes at element destOffset of the destination view");
    __CPROVER_assert(verif_memcpy_src == (const void*) s, "device copy reads from element srcOffset of the source view");
    udim_t da = (udim_t) verif_memcpy_dst, sa = (udim_t) verif_memcpy_src, dlo = (udim_t) D->ptr, slo = (udim_t) S->ptr;
    __CPROVER_assert(da >= dlo && (wide) (da - dlo) + verif_memcpy_n <= (wide) D->size && sa >= slo && (wide) (sa - slo) + verif_memcpy_n <= (wide) S->size, "device copy stays inside both views");
  }
#ifdef CANARY
  __CPROVER_assert(!(initA && initB), "canary");
#endif
}
extern "C" void h_copyFrom_mem() { dev_copy(true); }
extern "C" void h_copyTo_mem() { dev_copy(false); }

/* ---------------------------------------------------------------- slice / operator+ / cast */
extern "C" void h_slice() {
  modeBuffer_t *buf; view a; mk_buffer(buf); mk_view(a, buf, &g_dtA, DSZ_A);
  bool init = nondet_bool();
  memory m; if (init) m.setModeMemory(a.mm);
  dim_t offset = nondet_long(), count = nondet_long();
#ifndef HOW
#define HOW 0
#endif
  const int how = HOW;                              /* 0: slice(offset, count)  1: operator+  2: cast */
  if (how == 1) count = -1;                       /* operator+ */
  if (how == 2) { count = -1; offset = 0; }       /* cast */
  udim_t len = a.mm->size / DSZ_A;
  bool inrange = offset >= 0 && count >= -1 && (udim_t) offset <= len && (count == -1 || (udim_t) count <= len - (udim_t) offset);
  wide cnt = (count == -1) ? (wide) len - offset : (wide) count;
  verif_request_invalid = !(init && inrange);
  udim_t size0 = a.mm->size; dim_t off0 = a.mm->offset; char *ptr0 = a.mm->ptr; udim_t bsize0 = buf->size; char *bptr0 = buf->ptr;
  memory r;
#if HOW == 0
  m.slice(r, offset, count);
#elif HOW == 1
  m.plus(r, offset);       /* operator+ */
#else
  m.cast(r, g_dtB);
#endif
  if (!init) {
    __CPROVER_assert(!r.isInitialized(), "uninitialized handle: slicing yields no memory");
    __CPROVER_assert(0, "uninitialized handle (silently ignored by design): slice must raise occa::exception");
  } else {
    __CPROVER_assert(inrange, "out-of-range or negative slice request must raise occa::exception");
    if (!inrange) return;
    modeMemory_t *s = r.modeMemory;
    __CPROVER_assert(s != 0 && s != a.mm, "slice is a new memory object");
    __CPROVER_assert(s->modeBuffer == buf, "slice shares its parent's buffer (aliases the same bytes)");
    __CPROVER_assert(V(s), "view invariant holds for the slice");
    __CPROVER_assert(s->offset == off0 + offset * DSZ_A && s->size == (udim_t) (cnt * DSZ_A), "slice covers elements [offset, offset + count) of its parent");
    __CPROVER_assert(s->ptr == ptr0 + offset * DSZ_A, "slice pointer is the parent's pointer plus the byte offset");
    __CPROVER_assert(s->offset >= off0 && (udim_t) s->offset + s->size <= (udim_t) off0 + size0, "slice lies inside its parent");
    __CPROVER_assert(s->dtype_ == ((how == 2) ? &g_dtB : &g_dtA), "slice keeps the element type (cast sets the new one)");
    __CPROVER_assert(a.mm->size == size0 && a.mm->offset == off0 && a.mm->ptr == ptr0 && buf->size == bsize0 && buf->ptr == bptr0 && a.mm->dtype_ == &g_dtA, "slicing does not modify the parent or the buffer");
    __CPROVER_assert(m.isInitialized() && m.modeMemory == a.mm, "slicing does not modify the handle");
  }
#ifdef CANARY
  __CPROVER_assert(!init, "canary");
#endif
}
'''

SIZES_QUICK = [1, 4, 12]
SIZES_THOROUGH = [1, 2, 3, 4, 8, 12, 16, 64]


def build(ctx):
    gc_text, gcfiles = C01.gc_unit(ctx)
    unit, fns = memunit.build_unit(ctx, gc_text)
    src = unit + HARNESS
    sizes = SIZES_QUICK if ctx.tier == 'quick' else SIZES_THOROUGH
    pairs = [(1, 1), (4, 4), (4, 12), (12, 1)] if ctx.tier == 'quick' else [(a, b) for a in sizes for b in sizes]
    groups = []

    def pow2(n):
        return n & (n - 1) == 0

    def sized(defs, *dsz, bits=16):
        """Non-power-of-two element sizes need multiplier reasoning that SAT only closes for small buffers."""
        if all(pow2(d) for d in dsz):
            return dict(defines=defs, strength='proof', bound='')
        return dict(defines=defs + ['SIZE_BITS=%d' % bits], strength='bounded',
                    bound='buffer sizes < 2^%d bytes for the non-power-of-two element size (counts and offsets stay full 64-bit)' % bits)
    checks = ['--bounds-check', '--pointer-check', '--div-by-zero-check', '--undefined-shift-check']
    common = dict(sources={'mem.cpp': src, 'helper.c': C01.HELPER_C}, lang='cpp', unwind=4, min_obligations=10, checks=checks,
                  functions=fns + gcfiles, canary='CANARY', canary_label='canary',
                  object_bits=10, timeout=900, ignore=r'^verif_alive: \[pointer_primitives\]')
    for entry in ['h_copyFrom_ptr', 'h_copyTo_ptr']:
        for a in sizes:
            groups.append(Group(name='%s/dsz=%d' % (entry[2:], a), entry=entry,
                                param='element size %d' % a, replay=replay_C02.replay,
                                **sized(['DSZ_A=%d' % a, 'DSZ_B=%d' % a, 'VERIF_RECORD_DELETES'], a), **common))
    for how, hname in enumerate(['slice', 'slice-operator+', 'slice-cast']):
        for a in sizes:
            groups.append(Group(name='%s/dsz=%d' % (hname, a), entry='h_slice',
                                param='element size %d' % a, replay=replay_C02.replay,
                                **sized(['DSZ_A=%d' % a, 'DSZ_B=%d' % (a + 1), 'HOW=%d' % how, 'VERIF_RECORD_DELETES'], a, bits=10), **common))
    for entry in ['h_copyFrom_mem', 'h_copyTo_mem']:
        for a, b in pairs:
            groups.append(Group(name='%s/dsz=%d,%d' % (entry[2:], a, b), entry=entry,
                                param='element sizes %d (caller), %d (argument)' % (a, b), replay=replay_C02.replay,
                                **sized(['DSZ_A=%d' % a, 'DSZ_B=%d' % b, 'VERIF_RECORD_DELETES'], a, b), **common))
    return groups
