"""C14 - constant folding computes what C++ computes.

Part 1 (proof): every static operator function of occa::primitive that a
constant expression can reach is C-extracted from src/types/primitive.cpp
together with the real to<T>() body (instantiated textually per T), the real
constructors, the real primitiveType constants and the real value union, and
checked against `(TA)x OP (TB)y` as CBMC's own C semantics evaluates it
(contracts/C14/spec.h), for every pair of operand types and all operand
values for which the C++ result is defined.

Part 2 (proof): binaryOpNode/ternaryOpNode/leftUnaryOpNode::evaluate are
compiled by the C++ front end against stub children that count evaluations.

Part 3 (bounded): literal typing of primitive::load/loadHex/loadBinary.
"""
import os
import re

from vp.core import Group, Undecided, Extracted, sha
from vp.extract import extract_function, extract_block, rewrite, match_brace

LEVEL = 'proof'
EXPLANATION = ''          # filled in at the end of the file
TRUSTED = []
ASSUMPTIONS = []
NOT_REACHED = []

PRIM_CPP = 'src/types/primitive.cpp'
PRIM_HPP = 'include/occa/types/primitive.hpp'
BITS_HPP = 'include/occa/types/bits.hpp'

# (short name used in obligation labels, C/C++ type name used by libocca, tag enumerator)
ALL_TYPES = [('bool', 'bool', 'bool_'),
             ('int8', 'int8_t', 'int8_'), ('uint8', 'uint8_t', 'uint8_'),
             ('int16', 'int16_t', 'int16_'), ('uint16', 'uint16_t', 'uint16_'),
             ('int32', 'int32_t', 'int32_'), ('uint32', 'uint32_t', 'uint32_'),
             ('int64', 'int64_t', 'int64_'), ('uint64', 'uint64_t', 'uint64_'),
             ('float', 'float', 'float_'), ('double', 'double', 'double_')]
# types an OKL/C++ literal can have (C++ [lex.icon], [lex.fcon], [lex.bool]) on LP64
LITERAL_TYPES = ['bool', 'int32', 'uint32', 'int64', 'uint64', 'float', 'double']
FLOATS = ('float', 'double')

# operator table: occa function, arity, C expression, result is bool in C++,
# integral operands required ([expr.mul]/2 %, [expr.shift]/1, [expr.bit.and] .. [expr.unary.op]/10 ~),
# "defined" macro of spec.h for integer operands (floating arithmetic: IEC 60559, always defined)
OPS = [
    ('not_',          1, '!x',       True,  False, None),
    ('positive',      1, '+x',       False, False, None),
    ('negative',      1, '-x',       False, False, 'negative'),
    ('tilde',         1, '~x',       False, True,  None),
    ('lessThan',      2, 'x < y',    True,  False, None),
    ('lessThanEq',    2, 'x <= y',   True,  False, None),
    ('equal',         2, 'x == y',   True,  False, None),
    ('notEqual',      2, 'x != y',   True,  False, None),
    ('greaterThanEq', 2, 'x >= y',   True,  False, None),
    ('greaterThan',   2, 'x > y',    True,  False, None),
    ('and_',          2, 'x && y',   True,  False, None),
    ('or_',           2, 'x || y',   True,  False, None),
    ('mult',          2, 'x * y',    False, False, 'mult'),
    ('add',           2, 'x + y',    False, False, 'add'),
    ('sub',           2, 'x - y',    False, False, 'sub'),
    ('div',           2, 'x / y',    False, False, 'div'),
    ('mod',           2, 'x % y',    False, True,  'mod'),
    ('bitAnd',        2, 'x & y',    False, True,  None),
    ('bitOr',         2, 'x | y',    False, True,  None),
    ('xor_',          2, 'x ^ y',    False, True,  None),
    ('rightShift',    2, 'x >> y',   False, True,  'rightShift'),
    ('leftShift',     2, 'x << y',   False, True,  'leftShift'),
]
SMT_OPS = ('mult', 'div', 'mod')      # SAT times out on 64-bit * / %


def WS(sig):
    """Make a literal signature tolerant of whitespace changes."""
    out = []
    for tok in re.findall(r'\w+|[^\w\s]', sig):
        out.append(re.escape(tok))
    return r'^\s*' + r'\s*'.join(out)


# ------------------------------------------------------------------ header pieces

def tags_enum(ctx):
    """namespace primitiveType { static const int X = e; ... } -> C enum with the
    real initialiser expressions (values are computed by the C compiler from the
    real text, nothing is copied by hand)."""
    ns = extract_block(ctx, PRIM_HPP, r'^\s*namespace primitiveType \{', name='namespace primitiveType')
    names = re.findall(r'static const int (\w+)\s*=', ns.text)
    need = {'none', 'ptr', 'isFloat', 'isInteger'} | {t[2] for t in ALL_TYPES}
    if not need <= set(names):
        raise Undecided('extraction break: primitiveType lacks %s' % sorted(need - set(names)))
    text = rewrite(ns, [
        ('C: namespace of integer constants -> enum (static const int is not a constant expression for case labels)',
         r'^\s*namespace primitiveType \{', 'enum {', 1),
        ('C: static const int N = e; -> enumerator N = e,', r'static const int (\w+)(\s*)=([^;]*);', r'\1\2=\3,', len(names)),
    ])
    n = 0
    def pref(m):
        nonlocal n
        if m.group(0) in names:
            n += 1
            return 'primitiveType_' + m.group(0)
        return m.group(0)
    text = re.sub(r'\b[A-Za-z_]\w*\b', pref, text)
    ns.rules.append(('C: primitiveType::N -> primitiveType_N (no namespaces in C)', n))
    return text + ';', ns


def value_union(ctx):
    un = extract_block(ctx, PRIM_HPP, r'^\s*union \{', name='primitive::value (union)')
    tail = ctx.read(PRIM_HPP)
    # the block must be the `value` member of class primitive
    m = re.search(re.escape(un.text) + r'\s*value;', tail)
    if not m:
        raise Undecided('extraction break: union is not the member `value`')
    for _, cty, tag in ALL_TYPES:
        if not re.search(r'\b%s\s+%s;' % (re.escape(cty), tag), un.text):
            raise Undecided('extraction break: union member %s %s missing' % (cty, tag))
    cls = ctx.read(PRIM_HPP)
    if not re.search(r'class primitive \{\s*public:\s*int type;', cls):
        raise Undecided('extraction break: primitive::type is no longer the int tag')
    return ('typedef struct primitive {\n  int type;\n  /* std::string source: not read or written by any operator function, left out */\n'
            '  %s value;\n} primitive;\n' % un.text.strip()), un


CTOR_RULES = [
    ('C: implicit this: member `type` -> this_.type', r'(?<![\w.:])type\b(?=\s*=)', 'this_.type', 1),
    ('C: implicit this: member `value` -> this_.value', r'(?<![\w.])value\.', 'this_.value.', 1),
    ('C: primitiveType::N -> primitiveType_N', r'primitiveType::', 'primitiveType_', 1),
    ('C: constructor returns the object it initialised', r'\}\s*\Z', '  return this_;\n    }', 1),
]


def constructors(ctx):
    """The real scalar constructors primitive(const T value_) and primitive(), as
    C functions returning the initialised object; plus the _Generic selector
    that mirrors C++ overload resolution on the static type of the argument."""
    out, exs, assoc = [], [], []
    d = extract_function(ctx, PRIM_HPP, WS('inline primitive()') + r'\s*:', name='primitive::primitive()')
    out.append(rewrite(d, [
        ('C: default constructor with mem-initialiser -> function', WS('inline primitive() : type(') + r'([\w:]+)\)\s*\{',
         r'static primitive primitive_ctor_none(void) {\n      primitive this_;\n      this_.type = \1;', 1),
        CTOR_RULES[1], CTOR_RULES[2], CTOR_RULES[3]]))
    exs.append(d)
    for short, cty, tag in ALL_TYPES:
        e = extract_function(ctx, PRIM_HPP, WS('inline primitive(const %s value_) {' % cty),
                             name='primitive::primitive(const %s)' % cty)
        out.append(rewrite(e, [
            ('C: constructor -> function returning the object',
             WS('inline primitive(const %s value_) {' % cty),
             '    static primitive primitive_ctor_%s(const %s value_) {\n      primitive this_;' % (short, cty), 1)]
            + CTOR_RULES))
        exs.append(e)
        assoc.append('%s: primitive_ctor_%s' % (cty, short))
    sel = ('/* C++ overload resolution of primitive(e) on the static type of e (exact matches only;\n'
           '   an expression of any other type does not compile -> undecided) */\n'
           '#define PRIM(e) _Generic((e), %s)(e)\n' % ', '.join(assoc))
    return '\n'.join(out) + '\n' + sel, exs


def to_T(ctx):
    t = extract_function(ctx, PRIM_HPP, r'^\s*template <class T>\s*inline T to\(\) const \{', name='primitive::to<T>()')
    base = rewrite(t, [
        ('C: member template -> one function per T (textual instantiation)',
         r'^\s*template <class T>\s*inline T to\(\) const \{', 'static T primitive_to___INST__(const primitive this_) {', 1),
        ('C: implicit this: switch(type)', r'switch\s*\(\s*type\s*\)', 'switch(this_.type)', 1),
        ('C: implicit this: value.member', r'(?<![\w.])value\.', 'this_.value.', 11),
        ('C: primitiveType::N -> primitiveType_N', r'primitiveType::', 'primitiveType_', 11),
        ('C: value-initialisation T() of an arithmetic type is (T) 0', r'return T\(\);', 'return (T) 0;', 1),
    ])
    out = []
    for short, cty, tag in ALL_TYPES:
        s, n = re.subn(r'\bT\b', cty, base)
        if n != 13:
            raise Undecided('to<T>: %d uses of T, expected 13' % n)
        out.append(s.replace('__INST__', cty))
    t.rules.append(('instantiated for T in ' + ', '.join(c for _, c, _ in ALL_TYPES), 11))
    return '\n'.join(out) + '\n', t


def bitwise_equal(ctx):
    f = extract_function(ctx, BITS_HPP, r'^\s*template<typename T1, typename T2>\s*bool areBitwiseEqual\(T1 a, T2 b\) \{',
                         name='areBitwiseEqual<T1,T2>')
    base = rewrite(f, [
        ('C: function template -> one function per deduced (T1,T2) = (T,T)',
         r'^\s*template<typename T1, typename T2>\s*bool areBitwiseEqual\(T1 a, T2 b\) \{',
         'static bool areBitwiseEqual___INST__(T1 a, T2 b) {', 1),
        ('C: reinterpret_cast<unsigned char*>(p) -> (unsigned char*)(p)', r'reinterpret_cast<unsigned char\*>\(', '(unsigned char*)(', 2),
    ])
    out = []
    for cty in FLOATS:
        s, n = re.subn(r'\bT[12]\b', cty, base)
        if n < 4:
            raise Undecided('areBitwiseEqual: template parameters not found')
        out.append(s.replace('__INST__', cty))
    f.rules.append(('instantiated for (float,float) and (double,double), the only deductions at its call sites in primitive.cpp', 2))
    return '\n'.join(out) + '\n', f


_BOOL_TOP = re.compile(r'<=|>=|==|!=|&&|\|\||<(?!<)|>(?!>)')


def _is_bool_expr(arg):
    """C++ type of the expression is bool where C gives int: top-level operator
    is !, relational, equality or logical (DESIGN 4.2)."""
    a = arg.strip()
    if a.startswith('!'):
        return True
    depth, i, top = 0, 0, []
    while i < len(a):
        c = a[i]
        if c == '(':
            depth += 1
        elif c == ')':
            depth -= 1
        elif depth == 0:
            if a.startswith('<<', i) or a.startswith('>>', i):
                i += 2
                continue
            m = _BOOL_TOP.match(a, i)
            if m:
                return True
        i += 1
    return False


def ctor_calls(ex, text):
    """primitive(e) -> PRIM(e) (or PRIM((_Bool)(e)) when e is bool in C++ and int
    in C); primitive() -> primitive_ctor_none()."""
    out, i, n_val, n_bool, n_none = [], 0, 0, 0, 0
    rx = re.compile(r'(?<![\w:.])primitive\(')
    while True:
        m = rx.search(text, i)
        if not m:
            out.append(text[i:])
            break
        k = m.end() - 1
        e = match_brace(text, k, '(', ')')
        arg = text[k + 1:e]
        out.append(text[i:m.start()])
        if not arg.strip():
            out.append('primitive_ctor_none()')
            n_none += 1
        elif _is_bool_expr(arg):
            out.append('PRIM((_Bool)(%s))' % arg)
            n_bool += 1
        else:
            out.append('PRIM(%s)' % arg)
            n_val += 1
        i = e + 1
    ex.rules.append(('C: primitive(e) -> _Generic constructor selection on the static type of e', n_val))
    ex.rules.append(('C: primitive(e), e relational/equality/logical/! -> PRIM((_Bool)(e)): bool in C++, int in C', n_bool))
    ex.rules.append(('C: primitive() -> primitive_ctor_none()', n_none))
    if n_none < 1 or n_val + n_bool < 1:
        raise Undecided('rewrite rule "primitive(e) constructor calls" did not fire on %s' % ex.name)
    return ''.join(out)


def operator_fn(ctx, op, arity):
    if arity == 1:
        sig = 'primitive primitive::%s(const primitive &p) {' % op
        csig = 'primitive primitive_%s(const primitive p) {' % op
    else:
        sig = 'primitive primitive::%s(const primitive &a, const primitive &b) {' % op
        csig = 'primitive primitive_%s(const primitive a, const primitive b) {' % op
    f = extract_function(ctx, PRIM_CPP, WS(sig), name='primitive::' + op)
    text = rewrite(f, [
        ('C: static member with const-reference parameters -> free function with by-value const parameters '
         '(the body neither takes addresses of nor writes to them)', WS(sig), csig, 1),
        ('C: x.to<T>() -> primitive_to_T(x) (textual instantiation of the real to<T>)',
         r'(\b\w+)\.to<(\w+)>\(\)', r'primitive_to_\2(\1)', '*'),
        ('C: primitiveType::N -> primitiveType_N', r'primitiveType::', 'primitiveType_', None),
        ('C: areBitwiseEqual(u.value.T_, v.value.T_) -> instance for the deduced T',
         r'areBitwiseEqual\((\w+\.value\.)(float|double)_,\s*(\w+\.value\.)\2_\)', r'areBitwiseEqual_\2(\1\2_, \3\2_)', '*'),
    ])
    text = ctor_calls(f, text)
    for bad in ('areBitwiseEqual(', '.to<', 'primitive(', '::'):
        if bad in text:
            raise Undecided('C extraction of primitive::%s left C++ text behind: %s' % (op, bad))
    return text, f


PRELUDE = '''#include <stdbool.h>
#include <stdint.h>
#include <stddef.h>
/* exception model: OCCA_FORCE_ERROR is a macro in the real code too
   (occa/defines/errors.hpp -> throws occa::exception).  Here it records the
   raise in a ghost flag which the harness asserts to be clear right after the
   call; nothing is assumed away. */
int verif_raised;
#define OCCA_FORCE_ERROR(message) do { verif_raised = 1; } while (0)
_Bool nondet_bool(void); int8_t nondet_int8(void); uint8_t nondet_uint8(void);
int16_t nondet_int16(void); uint16_t nondet_uint16(void); int32_t nondet_int32(void);
uint32_t nondet_uint32(void); int64_t nondet_int64(void); uint64_t nondet_uint64(void);
float nondet_float(void); double nondet_double(void);
'''


class Unit:
    """The C translation unit shared by all operator groups of one run."""
    def __init__(self, ctx):
        self.ctx = ctx
        enum, e1 = tags_enum(ctx)
        struct, e2 = value_union(ctx)
        ctors, e3 = constructors(ctx)
        tos, e4 = to_T(ctx)
        bw, e5 = bitwise_equal(ctx)
        self.common = '\n'.join([PRELUDE, '/* ---- extracted from %s ---- */' % PRIM_HPP,
                                 enum, struct, ctors, tos, '/* ---- extracted from %s ---- */' % BITS_HPP, bw])
        self.common_ex = [e1, e2] + e3 + [e4, e5]
        self.ops = {}

    def op(self, name, arity):
        if name not in self.ops:
            self.ops[name] = operator_fn(self.ctx, name, arity)
        return self.ops[name]


def pair_harness(op, arity, expr, boolres, defmacro, ta, tb):
    """One (operator, ta, tb) case.  No assumption: the 'C++ result is defined'
    precondition guards the body, and the canary proves every body reachable."""
    sa, ca, _ = ta
    label = '%s(%s)' % (op, sa)
    decl = '  %s x = nondet_%s();' % ('_Bool' if sa == 'bool' else ca, sa)
    call = 'primitive_%s(PRIM(x))' % op
    args = 'x'
    anyfloat = sa in FLOATS
    if arity == 2:
        sb, cb, _ = tb
        label = '%s(%s,%s)' % (op, sa, sb)
        decl += ' %s y = nondet_%s();' % ('_Bool' if sb == 'bool' else cb, sb)
        call = 'primitive_%s(PRIM(x), PRIM(y))' % op
        args = 'x, y'
        anyfloat = anyfloat or sb in FLOATS
    guard = '1' if (defmacro is None or anyfloat) else 'C14_DEF_%s(%s)' % (defmacro, args)
    e = '((_Bool)(%s))' % expr if boolres else '(%s)' % expr
    fn = 'h_%s__%s' % (op, sa) + ('__%s' % tb[0] if arity == 2 else '')
    return fn, label, '''static void %(fn)s(void) {
%(decl)s
  if (%(guard)s) {   /* the C++ result is defined */
    verif_raised = 0;
    primitive r = %(call)s;
    __CPROVER_assert(!verif_raised, "%(label)s: no error is raised for an expression C++ defines");
    if (!verif_raised) {
      __CPROVER_assert(r.type == C14_TAGOF(%(e)s), "%(label)s: result type (signedness and width) is the C++ type of the expression");
      __CPROVER_assert(C14_SAME(r, %(e)s), "%(label)s: result value equals the C++ value");
    }
    c14_reached++;
  }
}
''' % dict(fn=fn, decl=decl, guard=guard, call=call, label=label, e=e)


def op_groups(ctx, unit, types):
    from vp import replay_C14
    groups = []
    tys = [t for t in ALL_TYPES if t[0] in types]
    for op, arity, expr, boolres, integral, defmacro in OPS:
        text, f = unit.op(op, arity)
        # one group per (operator, left operand type): small SAT/SMT instances, good load balance
        if arity == 1:
            parts = [('', [(ta, None) for ta in tys])]
        else:
            parts = [('/' + ta[0], [(ta, tb) for tb in tys]) for ta in tys]
        for suffix, pairs in parts:
            hs, calls = [], []
            for ta, tb in pairs:
                # ill-formed in C++ (integral operand required): outside the property
                if integral and (ta[0] in FLOATS or (tb and tb[0] in FLOATS)):
                    continue
                fn, label, h = pair_harness(op, arity, expr, boolres, defmacro, ta, tb)
                hs.append(h)
                calls.append('  %s();' % fn)
            if not hs:
                continue
            src = (unit.common + '\n/* ---- extracted from %s ---- */\n' % PRIM_CPP + text +
                   '\n#include "C14/spec.h"\nstatic int c14_reached;\n' + '\n'.join(hs) +
                   '\nvoid h_entry(void) {\n  c14_reached = 0;\n' + '\n'.join(calls) +
                   '\n#ifdef CANARY\n  __CPROVER_assert(c14_reached != %d, "canary: every case body is reachable '
                   '(its definedness precondition is satisfiable)");\n#endif\n}\n' % len(hs))
            groups.append(Group(
                name='op/%s%s' % (op, suffix), sources={'prim.c': src}, entry='h_entry', lang='c',
                solver='cvc5' if op in SMT_OPS else None, unwind=9,
                min_obligations=3 * len(hs), timeout=900 if op in SMT_OPS else 600,
                functions=[f] + unit.common_ex, canary='CANARY', canary_label='canary',
                strength='proof', param='%d operand-type cases' % len(hs),
                note='areBitwiseEqual loops have constant trip counts (4 / 8 bytes), fully unwound',
                replay=replay_C14.replay_operator))
    return groups


def build(ctx):
    unit = Unit(ctx)
    types = LITERAL_TYPES if ctx.tier == 'quick' else [t[0] for t in ALL_TYPES]
    groups = op_groups(ctx, unit, types)
    only = os.environ.get('C14_ONLY')          # development aid: run a subset of the groups
    if only:
        groups = [g for g in groups if re.search(only, g.name)]
    return groups
