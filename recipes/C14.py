"""C14 - constant folding computes what C++ computes.

Part 1 (proof): every static operator function of occa::primitive that a
constant expression can reach is C-extracted from src/types/primitive.cpp
together with the real to<T>() body (instantiated textually per T), the real
constructors, the real primitiveType constants and the real value union, and
checked against `(TA)x OP (TB)y` as CBMC's own C semantics evaluates it
(contracts/C14/spec.h), for every pair of operand types and all operand
values for which the C++ result is defined.

Part 2 (proof): binaryOpNode/ternaryOpNode/leftUnaryOpNode::evaluate are
compiled by the C++ front end against stub children that count evaluations.

Part 3 (bounded): literal typing of primitive::load/loadHex/loadBinary (+ the real parseInt/parseBinary and lex
helpers) against the C++ literal grammar and type table in contracts/C14/literal_spec.h.
"""
import os
import re

from vp.core import Group, Undecided, Extracted, sha
from vp.extract import extract_function, extract_block, extract_span, rewrite, match_brace

LEVEL = 'proof'
EXPLANATION = (
    'Operators: the 22 static operator functions of occa::primitive that a constant expression can reach '
    '(not_ positive negative tilde, the six comparisons, and_ or_, mult add sub div mod, bitAnd bitOr xor_, '
    'rightShift leftShift) are C-extracted by script from src/types/primitive.cpp together with the real to<T>() '
    '(instantiated textually for the 11 T), the real scalar constructors, the real primitiveType constants and the '
    'real value union.  For every pair of concrete operand types and ALL operand bit patterns for which the C++ '
    'result is defined, CBMC proves: no error is raised, the result tag is the C++ type of the expression '
    '(_Generic on the expression itself) and the number held by the result equals the value of the expression as '
    "CBMC's own C semantics evaluates it (spec written from the standard in contracts/C14/spec.h, not from the code); "
    'plus freedom from signed overflow / division by zero / undefined shifts inside the folder under that precondition. '
    'Tree evaluation: binaryOpNode/ternaryOpNode/leftUnaryOpNode::evaluate are compiled from their real text by the '
    'C++ front end against ghost children that count evaluations: && / || with a deciding left operand do not evaluate '
    'the right one, ?: evaluates exactly one branch and has the common type, every other operand is evaluated exactly once. '
    'No loops except areBitwiseEqual (constant trip count 4/8, fully unwound): complete proofs, not bounded. '
    'Literal typing (bounded): primitive::load, loadHex, loadBinary, parseInt(const char*), parseBinary, uppercase and '
    'lex::skipWhitespace/skipFrom/inCharset are C-extracted and run on every text up to the stated length that is a C++ '
    'integer, decimal floating or boolean literal (decided by contracts/C14/literal_spec.h, written from [lex.icon] Table 7, '
    '[lex.fcon], [lex.bool]), followed by any character that ends the token: no error, result tag = the C++ type of the '
    'literal (first type of its list that holds the value), result value = the literal\'s value (integers, bool), cursor '
    'consumed exactly the literal, recorded spelling = the literal; floating literals: type, which text reaches the '
    'decimal-to-binary conversion and that its result is stored unchanged (rounded to float for f).  The recursive call of '
    'load on the exponent is replaced by a contract that group literal/exponent-contract proves of the same text.')
TRUSTED = ['cbmc 6.11.0 C front end; SAT back end (minisat) for integer and byte-level cases, cvc5 1.x (bit-vector + '
           'floating-point theories) for * / % and every case with a floating operand',
           'cbmc 6.11.0 C++ front end for the three evaluate() bodies (skeleton classes in contracts/C14/expr_skeleton.hpp: '
           'flattened node classes with the real member names, ghost children, ghost operator application, stub primitive '
           'with tag + truth value; real bitfield class, real rawOperatorType/operatorType definitions, real tag predicates)',
           'C extraction rules (each must-fire, listed per function in the evidence): const-reference parameters by value, '
           'x.to<T>() -> textual instance, primitiveType::N -> enumerator, primitive(e) -> _Generic constructor selection '
           'with (_Bool) where C++ yields bool and C yields int, OCCA_FORCE_ERROR -> ghost flag; cross-checked in the '
           'thorough tier by the fidelity groups (same concrete operands through the compiled library and the extracted text)',
           'contracts/C14/spec.h: tag-of-expression by _Generic, exact cross-type value comparison, definedness predicates',
           'GCC builtins __builtin_{add,sub,mul}_overflow as modelled by CBMC (used only in the definedness precondition)',
           'literal typing: contracts/C14/literal_spec.h (grammar, value and type of a C++ literal; C++17, LP64), '
           'contracts/C14/literal_harness.h (std::string(first,count)[+"suffix"] as a NUL-terminated copy, ghost record of '
           'primitive::source, OCCA_ERROR as failing assertion + end of path, exponent contract), CBMC library models of '
           'strlen/strncmp, SAT back end CaDiCaL; C extraction rules as for C12 (reference cursor -> pointer + alias macro)']
ASSUMPTIONS = ['LP64, two\'s complement, IEC 60559 float/double, round-to-nearest (CBMC default, = host default); '
               'int32_t=int, int64_t=long (static-asserted in spec.h)',
               'integer promotions and usual arithmetic conversions agree between C (CBMC) and C++ for bool, the eight '
               'fixed-width integer types, float and double; relational/logical/! results are bool in C++ (cast to _Bool in the spec)',
               '"defined" follows the strictest wording: no signed overflow, divisor != 0 (integers), no MIN / -1, shift count '
               'in [0, width of promoted left operand), signed << only for non-negative values whose result is representable '
               '(C++11/14); >> of negative values is arithmetic (implementation-defined before C++20, gcc/clang); floating '
               'arithmetic including x/0.0 is taken as IEC 60559 defines it (C++ leaves it formally undefined)',
               'a NaN result is matched by any NaN (C++ fixes neither sign nor payload)',
               'operator pairs that are ill-formed in C++ (% & | ^ << >> ~ with a floating operand) are outside the property and not checked',
               'tree evaluation: every entry of namespace op carries exactly one raw operator bit; a condition / left operand of && || '
               'is "false"/"true" by the real to<bool>() (abstracted as a free truth value per child); primitive tags are exactly '
               'one of none, the eleven arithmetic tags, ptr',
               'literal typing: libc is ASSUMED: ::atof(text) and sscanf(text, "%lf") return strtod(text), ::strtof(text, NULL) '
               'returns strtof(text) - the double / float nearest to the longest prefix of the text that is a decimal floating '
               'constant.  The conversion itself is not modelled: strtod(literal) and strtof(literal) are two unconstrained, '
               'unrelated values per run; the C++ value of a floating literal is strtod(text), of an f-suffixed one strtof(text)',
               'literal typing: the literal is followed by a character that ends the preprocessing token ([lex.ppnumber]: no '
               'identifier character, digit, period, digit separator; no sign after e E p P); the text starts at the cursor (no sign: '
               'a leading + or - is an operator in C++, the tokenizer only calls load on text that starts a literal)']
NOT_REACHED = ['literals longer than the bounds of the literal/* groups; long double literals (l/L on a floating literal: occa has no '
               'tag), hexadecimal floating literals, digit separators, user-defined literals, the z suffix; integer literals that '
               'fit no type of their list (ill-formed)',
               'the decimal-to-binary conversion of floating literals itself (libc strtod/strtof, assumed correctly rounded)',
               'load with a leading sign (includeSign and text starting with + or -), primitive(const char*) / primitive(std::string) '
               'constructors, the json number path (json.cpp calls load with the sign)',
               'compound-assignment and increment/decrement operator functions (assign, addEq ... leftShiftEq, leftIncrement ...): '
               'their operands must be lvalues, literals are not, so no constant expression of the property reaches them',
               'primitive::compare (<=> has no arithmetic result type in C++)',
               'binaryOperator_t::operator() / unaryOperator_t::operator() dispatch switch (operator.cpp) - modelled as a ghost application',
               'rightUnaryOpNode, parenthesesNode, primitiveNode::evaluate (one-line forwarders), expression parsing, preprocessor #if driver',
               'toString/source text of folded values']

PRIM_CPP = 'src/types/primitive.cpp'
PRIM_HPP = 'include/occa/types/primitive.hpp'
BITS_HPP = 'include/occa/types/bits.hpp'

# (short name used in obligation labels, C/C++ type name used by libocca, tag enumerator)
ALL_TYPES = [('bool', 'bool', 'bool_'),
             ('int8', 'int8_t', 'int8_'), ('uint8', 'uint8_t', 'uint8_'),
             ('int16', 'int16_t', 'int16_'), ('uint16', 'uint16_t', 'uint16_'),
             ('int32', 'int32_t', 'int32_'), ('uint32', 'uint32_t', 'uint32_'),
             ('int64', 'int64_t', 'int64_'), ('uint64', 'uint64_t', 'uint64_'),
             ('float', 'float', 'float_'), ('double', 'double', 'double_')]
# types an OKL/C++ literal can have (C++ [lex.icon], [lex.fcon], [lex.bool]) on LP64
LITERAL_TYPES = ['bool', 'int32', 'uint32', 'int64', 'uint64', 'float', 'double']
FLOATS = ('float', 'double')

# operator table: occa function, arity, C expression, result is bool in C++,
# integral operands required ([expr.mul]/2 %, [expr.shift]/1, [expr.bit.and] .. [expr.unary.op]/10 ~),
# "defined" macro of spec.h for integer operands (floating arithmetic: IEC 60559, always defined)
OPS = [
    ('not_',          1, '!x',       True,  False, None),
    ('positive',      1, '+x',       False, False, None),
    ('negative',      1, '-x',       False, False, 'negative'),
    ('tilde',         1, '~x',       False, True,  None),
    ('lessThan',      2, 'x < y',    True,  False, None),
    ('lessThanEq',    2, 'x <= y',   True,  False, None),
    ('equal',         2, 'x == y',   True,  False, None),
    ('notEqual',      2, 'x != y',   True,  False, None),
    ('greaterThanEq', 2, 'x >= y',   True,  False, None),
    ('greaterThan',   2, 'x > y',    True,  False, None),
    ('and_',          2, 'x && y',   True,  False, None),
    ('or_',           2, 'x || y',   True,  False, None),
    ('mult',          2, 'x * y',    False, False, 'mult'),
    ('add',           2, 'x + y',    False, False, 'add'),
    ('sub',           2, 'x - y',    False, False, 'sub'),
    ('div',           2, 'x / y',    False, False, 'div'),
    ('mod',           2, 'x % y',    False, True,  'mod'),
    ('bitAnd',        2, 'x & y',    False, True,  None),
    ('bitOr',         2, 'x | y',    False, True,  None),
    ('xor_',          2, 'x ^ y',    False, True,  None),
    ('rightShift',    2, 'x >> y',   False, True,  'rightShift'),
    ('leftShift',     2, 'x << y',   False, True,  'leftShift'),
]
# Back ends.  SAT cannot close the equivalence of two 64-bit (or floating-point) multipliers/dividers; cvc5
# does it in a fraction of a second (bit-vector and floating-point theories, terms are hash-consed).  The
# SMT back end of CBMC cannot translate byte-level access to a float (areBitwiseEqual), so the two
# operators that use it stay on SAT (they contain no multiplication).
ARITH_CHECKS = ['--signed-overflow-check', '--div-by-zero-check', '--undefined-shift-check']
PTR_CHECKS = ['--bounds-check', '--pointer-check', '--pointer-overflow-check']
INT_SMT_OPS = ('mult', 'div', 'mod')


def _chunks(prefix, solver, pairs, n):
    if len(pairs) <= n:
        return [(prefix, solver, pairs)]
    k = (len(pairs) + n - 1) // n
    size = (len(pairs) + k - 1) // k
    return [('%s-%d' % (prefix, i + 1), solver, pairs[i * size:(i + 1) * size]) for i in range(k)]


def plan(op, arity, integral, tys, bytewise=False):
    """Partition the operand-type cases of one operator into CBMC runs: [(name suffix, solver, cases)].
    Every run costs ~3 s of fixed overhead (twice with the canary run) and the SMT back end is not
    incremental, so SMT cases go in small batches and SAT cases in large ones.
      * integer x integer: SAT in one batch, except * / % (cvc5, one batch per left operand type);
      * any floating operand: cvc5 (hash-consed floating-point terms; SAT needs minutes for the int->float
        conversions and cannot do * and / at all), except when the operator text accesses floats byte-wise
        (areBitwiseEqual), which CBMC's SMT back end cannot translate -> SAT."""
    ints = [t for t in tys if t[0] not in FLOATS]
    flts = [] if integral else [t for t in tys if t[0] in FLOATS]
    if arity == 1:
        return [('', None, [(t, None) for t in ints + flts])]
    out = []
    if op in INT_SMT_OPS:
        for a in ints:
            out += _chunks('/%s-int' % a[0], 'cvc5', [(a, b) for b in ints], 6)
    else:
        out += _chunks('/int-int', None, [(a, b) for a in ints for b in ints], 50)
    if flts:
        solver = None if bytewise else 'cvc5'
        fl = [(a, b) for a in ints for b in flts] + [(a, b) for a in flts for b in ints + flts]
        if op in ('mult', 'div'):
            # expensive floating-point terms: small batches, by class of left operand
            n = 5 if op == 'div' else 12
            out += _chunks('/int-flt', solver, [(a, b) for a in ints for b in flts], n)
            for a in flts:
                out += _chunks('/%s-any' % a[0], solver, [(a, b) for b in ints + flts], n)
        else:
            out += _chunks('/flt', solver, fl, 12)
    return out


def WS(sig):
    """Make a literal signature tolerant of whitespace changes."""
    out = []
    for tok in re.findall(r'\w+|[^\w\s]', sig):
        out.append(re.escape(tok))
    return r'^\s*' + r'\s*'.join(out)


# ------------------------------------------------------------------ header pieces

def tags_enum(ctx):
    """namespace primitiveType { static const int X = e; ... } -> C enum with the
    real initialiser expressions (values are computed by the C compiler from the
    real text, nothing is copied by hand)."""
    ns = extract_block(ctx, PRIM_HPP, r'^\s*namespace primitiveType \{', name='namespace primitiveType')
    names = re.findall(r'static const int (\w+)\s*=', ns.text)
    need = {'none', 'ptr', 'isFloat', 'isInteger'} | {t[2] for t in ALL_TYPES}
    if not need <= set(names):
        raise Undecided('extraction break: primitiveType lacks %s' % sorted(need - set(names)))
    text = rewrite(ns, [
        ('C: namespace of integer constants -> enum (static const int is not a constant expression for case labels)',
         r'^\s*namespace primitiveType \{', 'enum {', 1),
        ('C: static const int N = e; -> enumerator N = e,', r'static const int (\w+)(\s*)=([^;]*);', r'\1\2=\3,', len(names)),
    ])
    n = 0
    def pref(m):
        nonlocal n
        if m.group(0) in names:
            n += 1
            return 'primitiveType_' + m.group(0)
        return m.group(0)
    text = re.sub(r'\b[A-Za-z_]\w*\b', pref, text)
    ns.rules.append(('C: primitiveType::N -> primitiveType_N (no namespaces in C)', n))
    return text + ';', ns


def tag_values(ctx):
    """Numeric values of the real primitiveType constants, by evaluating the real initialiser text."""
    ns = extract_block(ctx, PRIM_HPP, r'^\s*namespace primitiveType \{', name='namespace primitiveType')
    env = {}
    for name, expr in re.findall(r'static const int (\w+)\s*=([^;]*);', ns.text):
        if not re.fullmatch(r'[\w\s()|<&]+', expr):
            raise Undecided('extraction break: primitiveType::%s has an unexpected initialiser' % name)
        try:
            env[name] = int(eval(expr, {'__builtins__': {}}, dict(env)))
        except Exception as e:
            raise Undecided('extraction break: cannot evaluate primitiveType::%s (%s)' % (name, e))
    return env


def value_union(ctx):
    un = extract_block(ctx, PRIM_HPP, r'^\s*union \{', name='primitive::value (union)')
    tail = ctx.read(PRIM_HPP)
    # the block must be the `value` member of class primitive
    m = re.search(re.escape(un.text) + r'\s*value;', tail)
    if not m:
        raise Undecided('extraction break: union is not the member `value`')
    for _, cty, tag in ALL_TYPES:
        if not re.search(r'\b%s\s+%s;' % (re.escape(cty), tag), un.text):
            raise Undecided('extraction break: union member %s %s missing' % (cty, tag))
    cls = ctx.read(PRIM_HPP)
    if not re.search(r'class primitive \{\s*public:\s*int type;', cls):
        raise Undecided('extraction break: primitive::type is no longer the int tag')
    return ('typedef struct primitive {\n  int type;\n  /* std::string source: not read or written by any operator function, left out */\n'
            '  %s value;\n} primitive;\n' % un.text.strip()), un


CTOR_RULES = [
    ('C: implicit this: member `type` -> this_.type', r'(?<![\w.:])type\b(?=\s*=)', 'this_.type', 1),
    ('C: implicit this: member `value` -> this_.value', r'(?<![\w.])value\.', 'this_.value.', 1),
    ('C: primitiveType::N -> primitiveType_N', r'primitiveType::', 'primitiveType_', 1),
    ('C: constructor returns the object it initialised', r'\}\s*\Z', '  return this_;\n    }', 1),
]


def constructors(ctx):
    """The real scalar constructors primitive(const T value_) and primitive(), as
    C functions returning the initialised object; plus the _Generic selector
    that mirrors C++ overload resolution on the static type of the argument."""
    out, exs, assoc = [], [], []
    d = extract_function(ctx, PRIM_HPP, WS('inline primitive()') + r'\s*:', name='primitive::primitive()')
    out.append(rewrite(d, [
        ('C: default constructor with mem-initialiser -> function', WS('inline primitive() : type(') + r'([\w:]+)\)\s*\{',
         r'static primitive primitive_ctor_none(void) {\n      primitive this_;\n      this_.type = \1;', 1),
        CTOR_RULES[1], CTOR_RULES[2], CTOR_RULES[3]]))
    exs.append(d)
    for short, cty, tag in ALL_TYPES:
        e = extract_function(ctx, PRIM_HPP, WS('inline primitive(const %s value_) {' % cty),
                             name='primitive::primitive(const %s)' % cty)
        out.append(rewrite(e, [
            ('C: constructor -> function returning the object',
             WS('inline primitive(const %s value_) {' % cty),
             '    static primitive primitive_ctor_%s(const %s value_) {\n      primitive this_;' % (short, cty), 1)]
            + CTOR_RULES))
        exs.append(e)
        assoc.append('%s: primitive_ctor_%s' % (cty, short))
    sel = ('/* C++ overload resolution of primitive(e) on the static type of e (exact matches only;\n'
           '   an expression of any other type does not compile -> undecided) */\n'
           '#define PRIM(e) _Generic((e), %s)(e)\n' % ', '.join(assoc))
    return '\n'.join(out) + '\n' + sel, exs


def to_T(ctx):
    t = extract_function(ctx, PRIM_HPP, r'^\s*template <class T>\s*inline T to\(\) const \{', name='primitive::to<T>()')
    base = rewrite(t, [
        ('C: member template -> one function per T (textual instantiation)',
         r'^\s*template <class T>\s*inline T to\(\) const \{', 'static T primitive_to___INST__(const primitive this_) {', 1),
        ('C: implicit this: switch(type)', r'switch\s*\(\s*type\s*\)', 'switch(this_.type)', 1),
        ('C: implicit this: value.member', r'(?<![\w.])value\.', 'this_.value.', 11),
        ('C: primitiveType::N -> primitiveType_N', r'primitiveType::', 'primitiveType_', 11),
        ('C: value-initialisation T() of an arithmetic type is (T) 0', r'return T\(\);', 'return (T) 0;', 1),
    ])
    out = []
    for short, cty, tag in ALL_TYPES:
        s, n = re.subn(r'\bT\b', cty, base)
        if n != 13:
            raise Undecided('to<T>: %d uses of T, expected 13' % n)
        out.append(s.replace('__INST__', cty))
    t.rules.append(('instantiated for T in ' + ', '.join(c for _, c, _ in ALL_TYPES), 11))
    return '\n'.join(out) + '\n', t


def bitwise_equal(ctx):
    f = extract_function(ctx, BITS_HPP, r'^\s*template<typename T1, typename T2>\s*bool areBitwiseEqual\(T1 a, T2 b\) \{',
                         name='areBitwiseEqual<T1,T2>')
    base = rewrite(f, [
        ('C: function template -> one function per deduced (T1,T2) = (T,T)',
         r'^\s*template<typename T1, typename T2>\s*bool areBitwiseEqual\(T1 a, T2 b\) \{',
         'static bool areBitwiseEqual___INST__(T1 a, T2 b) {', 1),
        ('C: reinterpret_cast<unsigned char*>(p) -> (unsigned char*)(p)', r'reinterpret_cast<unsigned char\*>\(', '(unsigned char*)(', 2),
    ])
    out = []
    for cty in FLOATS:
        s, n = re.subn(r'\bT[12]\b', cty, base)
        if n < 4:
            raise Undecided('areBitwiseEqual: template parameters not found')
        out.append(s.replace('__INST__', cty))
    f.rules.append(('instantiated for (float,float) and (double,double), the only deductions at its call sites in primitive.cpp', 2))
    return '\n'.join(out) + '\n', f


_BOOL_TOP = re.compile(r'<=|>=|==|!=|&&|\|\||<(?!<)|>(?!>)')


def _is_bool_expr(arg):
    """C++ type of the expression is bool where C gives int: top-level operator
    is !, relational, equality or logical (DESIGN 4.2)."""
    a = arg.strip()
    if a.startswith('!'):
        return True
    depth, i, top = 0, 0, []
    while i < len(a):
        c = a[i]
        if c == '(':
            depth += 1
        elif c == ')':
            depth -= 1
        elif depth == 0:
            if a.startswith('<<', i) or a.startswith('>>', i):
                i += 2
                continue
            m = _BOOL_TOP.match(a, i)
            if m:
                return True
        i += 1
    return False


def ctor_calls(ex, text):
    """primitive(e) -> PRIM(e) (or PRIM((_Bool)(e)) when e is bool in C++ and int
    in C); primitive() -> primitive_ctor_none()."""
    out, i, n_val, n_bool, n_none = [], 0, 0, 0, 0
    rx = re.compile(r'(?<![\w:.])primitive\(')
    while True:
        m = rx.search(text, i)
        if not m:
            out.append(text[i:])
            break
        k = m.end() - 1
        e = match_brace(text, k, '(', ')')
        arg = text[k + 1:e]
        out.append(text[i:m.start()])
        if not arg.strip():
            out.append('primitive_ctor_none()')
            n_none += 1
        elif _is_bool_expr(arg):
            out.append('PRIM((_Bool)(%s))' % arg)
            n_bool += 1
        else:
            out.append('PRIM(%s)' % arg)
            n_val += 1
        i = e + 1
    ex.rules.append(('C: primitive(e) -> _Generic constructor selection on the static type of e', n_val))
    ex.rules.append(('C: primitive(e), e relational/equality/logical/! -> PRIM((_Bool)(e)): bool in C++, int in C', n_bool))
    ex.rules.append(('C: primitive() -> primitive_ctor_none()', n_none))
    if n_none < 1 or n_val + n_bool < 1:
        raise Undecided('rewrite rule "primitive(e) constructor calls" did not fire on %s' % ex.name)
    return ''.join(out)


def operator_fn(ctx, op, arity):
    if arity == 1:
        sig = 'primitive primitive::%s(const primitive &p) {' % op
        csig = 'primitive primitive_%s(const primitive p) {' % op
    else:
        sig = 'primitive primitive::%s(const primitive &a, const primitive &b) {' % op
        csig = 'primitive primitive_%s(const primitive a, const primitive b) {' % op
    f = extract_function(ctx, PRIM_CPP, WS(sig), name='primitive::' + op)
    text = rewrite(f, [
        ('C: static member with const-reference parameters -> free function with by-value const parameters '
         '(the body neither takes addresses of nor writes to them)', WS(sig), csig, 1),
        ('C: x.to<T>() -> primitive_to_T(x) (textual instantiation of the real to<T>)',
         r'(\b\w+)\.to<(\w+)>\(\)', r'primitive_to_\2(\1)', '*'),
        ('C: primitiveType::N -> primitiveType_N', r'primitiveType::', 'primitiveType_', None),
        ('C: areBitwiseEqual(u.value.T_, v.value.T_) -> instance for the deduced T',
         r'areBitwiseEqual\((\w+\.value\.)(float|double)_,\s*(\w+\.value\.)\2_\)', r'areBitwiseEqual_\2(\1\2_, \3\2_)', '*'),
    ])
    text = ctor_calls(f, text)
    for bad in ('areBitwiseEqual(', '.to<', 'primitive(', '::'):
        if bad in text:
            raise Undecided('C extraction of primitive::%s left C++ text behind: %s' % (op, bad))
    return text, f


PRELUDE = '''#include <stdbool.h>
#include <stdint.h>
#include <stddef.h>
/* exception model: OCCA_FORCE_ERROR is a macro in the real code too
   (occa/defines/errors.hpp -> throws occa::exception).  Here it records the
   raise in a ghost flag which the harness asserts to be clear right after the
   call; nothing is assumed away. */
int verif_raised;
#define OCCA_FORCE_ERROR(message) do { verif_raised = 1; } while (0)
_Bool nondet_bool(void); int8_t nondet_int8(void); uint8_t nondet_uint8(void);
int16_t nondet_int16(void); uint16_t nondet_uint16(void); int32_t nondet_int32(void);
uint32_t nondet_uint32(void); int64_t nondet_int64(void); uint64_t nondet_uint64(void);
float nondet_float(void); double nondet_double(void);
'''


class Unit:
    """The C translation unit shared by all operator groups of one run."""
    def __init__(self, ctx):
        self.ctx = ctx
        enum, e1 = tags_enum(ctx)
        struct, e2 = value_union(ctx)
        ctors, e3 = constructors(ctx)
        tos, e4 = to_T(ctx)
        bw, e5 = bitwise_equal(ctx)
        self.common = '\n'.join([PRELUDE, '/* ---- extracted from %s ---- */' % PRIM_HPP,
                                 enum, struct, ctors, tos, '/* ---- extracted from %s ---- */' % BITS_HPP, bw])
        self.common_ex = [e1, e2] + e3 + [e4, e5]
        self.ops = {}

    def op(self, name, arity):
        if name not in self.ops:
            self.ops[name] = operator_fn(self.ctx, name, arity)
        return self.ops[name]


def pair_harness(op, arity, expr, boolres, defmacro, ta, tb):
    """One (operator, ta, tb) case.  No assumption: the 'C++ result is defined'
    precondition guards the body, and the canary proves every body reachable."""
    sa, ca, _ = ta
    label = '%s(%s)' % (op, sa)
    decl = '  %s x = nondet_%s();' % ('_Bool' if sa == 'bool' else ca, sa)
    call = 'primitive_%s(PRIM(x))' % op
    args = 'x'
    anyfloat = sa in FLOATS
    if arity == 2:
        sb, cb, _ = tb
        label = '%s(%s,%s)' % (op, sa, sb)
        decl += ' %s y = nondet_%s();' % ('_Bool' if sb == 'bool' else cb, sb)
        call = 'primitive_%s(PRIM(x), PRIM(y))' % op
        args = 'x, y'
        anyfloat = anyfloat or sb in FLOATS
    guard = '1' if (defmacro is None or anyfloat) else 'C14_DEF_%s(%s)' % (defmacro, args)
    e = '((_Bool)(%s))' % expr if boolres else '(%s)' % expr
    fn = 'h_%s__%s' % (op, sa) + ('__%s' % tb[0] if arity == 2 else '')
    return fn, label, '''static void %(fn)s(void) {
%(decl)s
  if (%(guard)s) {   /* the C++ result is defined */
    verif_raised = 0;
    primitive r = %(call)s;
#ifndef CANARY   /* the canary run only asks whether this point is reachable */
    __CPROVER_assert(!verif_raised, "%(label)s: no error is raised for an expression C++ defines");
    if (!verif_raised) {
      __CPROVER_assert(r.type == C14_TAGOF(%(e)s), "%(label)s: result type (signedness and width) is the C++ type of the expression");
      __CPROVER_assert(C14_SAME(r, %(e)s), "%(label)s: result value equals the C++ value");
    }
#endif
    c14_reached += (r.type != 0);
  }
}
''' % dict(fn=fn, decl=decl, guard=guard, call=call, label=label, e=e)


def op_groups(ctx, unit, types):
    from vp import replay_C14
    groups = []
    tys = [t for t in ALL_TYPES if t[0] in types]
    for op, arity, expr, boolres, integral, defmacro in OPS:
        text, f = unit.op(op, arity)
        parts = plan(op, arity, integral, tys, bytewise='areBitwiseEqual' in text)
        for suffix, solver, pairs in parts:
            hs, calls = [], []
            for ta, tb in pairs:
                fn, label, h = pair_harness(op, arity, expr, boolres, defmacro, ta, tb)
                hs.append(h)
                calls.append('  %s();' % fn)
            if not hs:
                continue
            src = (unit.common + '\n/* ---- extracted from %s ---- */\n' % PRIM_CPP + text +
                   '\n#include "C14/spec.h"\nstatic int c14_reached;\n' + '\n'.join(hs) +
                   '\nvoid h_entry(void) {\n  c14_reached = 0;\n' + '\n'.join(calls) +
                   '\n#ifdef CANARY\n  __CPROVER_assert(c14_reached != %d, "canary: every case body is reachable '
                   '(its definedness precondition is satisfiable)");\n#endif\n}\n' % len(hs))
            groups.append(Group(
                name='op/%s%s' % (op, suffix), sources={'prim.c': src}, entry='h_entry', lang='c',
                solver=solver, unwind=9, checks=ARITH_CHECKS + (PTR_CHECKS if 'areBitwiseEqual' in text else []),
                min_obligations=3 * len(hs), timeout=int(os.environ.get('C14_TIMEOUT', '600')),
                functions=[f] + unit.common_ex, canary='CANARY', canary_label='canary',
                strength='proof', param='%d operand-type cases' % len(hs),
                note='areBitwiseEqual loops have constant trip counts (4 / 8 bytes), fully unwound',
                replay=None if os.environ.get('C14_NO_REPLAY') else replay_C14.replay_operator))
    return groups


# ------------------------------------------------------------------ fidelity of the C extraction (thorough)

FID_VALUES = {
    'bool': ['0', '1'],
    'signed': ['0', '1', '2', '5', '-1', '-7'],
    'unsigned': ['0', '1', '2', '5', '~0'],
    'float': ['0.0', '1.5', '-2.5', '3.0'],
}
SMALL = ('0', '1', '2', '5')


def _fid_class(t):
    return 'bool' if t == 'bool' else 'float' if t in FLOATS else 'unsigned' if t.startswith('u') else 'signed'


def _fid_lit(t, v):
    cty = dict((x[0], x[1]) for x in ALL_TYPES)[t]
    if t == 'float':
        return '%sf' % v
    if t == 'double':
        return v
    return '((%s) %s)' % (cty, v)


def fidelity_cases(types, bytewise_ops=()):
    """Concrete operand vectors on which every operator is defined in C++ (small magnitudes: no signed
    overflow, no zero divisor, shift counts 0..5 on non-negative left operands)."""
    cases = []
    tys = [t for t in ALL_TYPES if t[0] in types]
    k = 0
    for op, arity, expr, boolres, integral, defmacro in OPS:
        for ta in tys:
            for tb in (tys if arity == 2 else [None]):
                if integral and (ta[0] in FLOATS or (tb and tb[0] in FLOATS)):
                    continue
                if op in bytewise_ops and tb and ta[0] != tb[0] and (ta[0] in FLOATS or tb[0] in FLOATS):
                    # the unfixed equal/notEqual read union bytes the constructor never wrote (indeterminate):
                    # no deterministic native result to compare with; the defect itself is reported by op/equal, op/notEqual
                    continue
                xs = FID_VALUES[_fid_class(ta[0])]
                ys = FID_VALUES[_fid_class(tb[0])] if tb else [None]
                combos = [(x, y) for x in xs for y in ys]
                if op in ('div', 'mod'):
                    combos = [(x, y) for x, y in combos if y not in ('0', '0.0') or tb[0] in FLOATS]
                if op in ('leftShift', 'rightShift'):
                    combos = [(x, y) for x, y in combos if y in SMALL and (x in SMALL or (op == 'rightShift' and x != '~0'))]
                # two vectors per case, chosen by a fixed stride so that different cases see different values
                for j in range(2):
                    if not combos:
                        break
                    x, y = combos[(k * 5 + j * 7) % len(combos)]
                    cases.append((op, arity, ta[0], x, tb[0] if tb else None, y))
                k += 1
    return cases


FID_PROG = r"""
#include <occa/types/primitive.hpp>
#include <cstdio>
#include <cstring>
using occa::primitive;
int main() {
  primitive r; bool raised; unsigned long long bits;
@BODY@
  return 0;
}
"""


def fidelity_groups(ctx, unit, types):
    """Front-end / translation fidelity (DESIGN 3.5): the real compiled library and the extracted C text,
    run on the same concrete operands, must agree on (raised, tag, value bits)."""
    from vp import replaylib
    tv = tag_values(ctx)
    cases = fidelity_cases(types, [o[0] for o in OPS if 'areBitwiseEqual' in unit.op(o[0], o[1])[0]])
    body = []
    for i, (op, arity, ta, x, tb, y) in enumerate(cases):
        args = 'primitive(%s)' % _fid_lit(ta, x) + (', primitive(%s)' % _fid_lit(tb, y) if arity == 2 else '')
        body.append('  raised = false; r = primitive(); try { r = primitive::%s(%s); } catch (...) { raised = true; }\n'
                    '  bits = 0; memcpy(&bits, &r.value, r.sizeof_() <= 8 ? r.sizeof_() : 8); '
                    'printf("%d %%d %%d %%llu\\n", (int) raised, r.type, bits);' % (op, args, i))
    try:
        rc, out, src = replaylib.compile_run(ctx, 'fidelity', FID_PROG.replace('@BODY@', '\n'.join(body)), timeout=300)
    except Exception as e:
        raise Undecided('fidelity test: native program could not be built/run: %s' % str(e)[-400:])
    native = {}
    for l in out.splitlines():
        f = l.split()
        if len(f) == 4 and f[0].isdigit():
            native[int(f[0])] = (int(f[1]), int(f[2]), int(f[3]))
    if rc != 0 or len(native) != len(cases):
        raise Undecided('fidelity test: native run gave %d of %d results (rc=%s)' % (len(native), len(cases), rc))
    groups = []
    byop = {}
    for i, c in enumerate(cases):
        byop.setdefault(c[0], []).append((i, c))
    opnames = [o[0] for o in OPS]
    batches = [opnames[i:i + 4] for i in range(0, len(opnames), 4)]
    for bi, batch in enumerate(batches):
        texts, fns, hs = [], [], []
        for op in batch:
            arity = [o[1] for o in OPS if o[0] == op][0]
            t, f = unit.op(op, arity)
            texts.append(t)
            fns.append(f)
            for i, (op_, ar, ta, x, tb, y) in byop.get(op, []):
                raised, tag, bits = native[i]
                args = 'PRIM(%s)' % _fid_lit(ta, x).replace('(bool)', '(_Bool)') + \
                       (', PRIM(%s)' % _fid_lit(tb, y).replace('(bool)', '(_Bool)') if ar == 2 else '')
                label = 'fidelity %s(%s%s) on (%s%s): the extracted C text computes what the compiled library computes' % (
                    op, ta, ',' + tb if tb else '', x, ',' + y if y is not None else '')
                isnan = ((tag == tv['float_'] and (bits & 0x7fffffff) > 0x7f800000) or
                         (tag == tv['double_'] and (bits & 0x7fffffffffffffff) > 0x7ff0000000000000))
                val = 'c14_isnan(r)' if isnan else 'c14_bits(r) == %dul' % bits      # NaN sign/payload is not fixed by C++
                hs.append('  { verif_raised = 0; primitive r = primitive_%s(%s);\n'
                          '    __CPROVER_assert(verif_raised == %d && (verif_raised || (r.type == %d && %s)), "%s"); ++n; }'
                          % (op, args, raised, tag, val, label))
        src = (unit.common + '\n' + '\n'.join(texts) + r"""
static unsigned long c14_bits(primitive r) {   /* the bytes of the member the tag designates */
  switch (r.type) {
  case primitiveType_bool_: return r.value.bool_;
  case primitiveType_int8_: case primitiveType_uint8_: return r.value.uint8_;
  case primitiveType_int16_: case primitiveType_uint16_: return r.value.uint16_;
  case primitiveType_int32_: case primitiveType_uint32_: return r.value.uint32_;
  case primitiveType_float_: { union { float f; uint32_t u; } c; c.f = r.value.float_; return c.u; }
  case primitiveType_int64_: case primitiveType_uint64_: return r.value.uint64_;
  case primitiveType_double_: { union { double f; uint64_t u; } c; c.f = r.value.double_; return c.u; }
  default: return 0;
  }
}
static _Bool c14_isnan(primitive r) {
  return r.type == primitiveType_float_ ? (r.value.float_ != r.value.float_) : (r.value.double_ != r.value.double_);
}
void h_entry(void) {
  int n = 0;
""" + '\n'.join(hs) + '\n#ifdef CANARY\n  __CPROVER_assert(n != %d, "canary: all fidelity vectors executed");\n#endif\n}\n' % len(hs))
        groups.append(Group(
            name='fidelity/%d-%s' % (bi + 1, '+'.join(batch)), sources={'prim.c': src}, entry='h_entry', lang='c',
            unwind=9, checks=ARITH_CHECKS, min_obligations=len(hs), timeout=900, functions=fns + unit.common_ex,
            canary='CANARY', canary_label='canary', strength='proof', param='%d concrete vectors' % len(hs),
            note='concrete operands; expected (raised, tag, bits) printed by a native program linked against the freshly built libocca'))
    return groups


# ------------------------------------------------------------------ part 2: unevaluated operands

OPERATOR_CPP = 'src/occa/internal/lang/operator.cpp'
NODES = [('binaryOpNode', 'src/occa/internal/lang/expr/binaryOpNode.cpp', 'src/occa/internal/lang/expr/binaryOpNode.hpp',
          ['exprNode *leftValue, *rightValue;']),
         ('ternaryOpNode', 'src/occa/internal/lang/expr/ternaryOpNode.cpp', 'src/occa/internal/lang/expr/ternaryOpNode.hpp',
          ['exprNode *checkValue, *trueValue, *falseValue;']),
         ('leftUnaryOpNode', 'src/occa/internal/lang/expr/leftUnaryOpNode.cpp', 'src/occa/internal/lang/expr/leftUnaryOpNode.hpp',
          ['exprNode *value;'])]


def eval_groups(ctx):
    from vp import replay_C14
    exs = []
    tags = extract_block(ctx, PRIM_HPP, r'^\s*namespace primitiveType \{', name='namespace primitiveType')
    bf = extract_block(ctx, BITS_HPP, r'^\s*class bitfield \{', name='class bitfield')
    raw = extract_block(ctx, OPERATOR_CPP, r'^\s*namespace rawOperatorType \{', name='namespace rawOperatorType (definitions)')
    opt = extract_block(ctx, OPERATOR_CPP, r'^\s*namespace operatorType \{', name='namespace operatorType (definitions)')
    exs += [tags, bf, raw, opt]
    ntags = len(re.findall(r'static const int (\w+)\s*=', tags.text))
    tags_cpp = rewrite(tags, [
        ('static const int N = e; -> enumerator (the C++ front end gives constants that are DERIVED from other constants, '
         'e.g. isInteger = isSigned | isUnsigned, a wrong value; enumerators are folded correctly)',
         r'static const int (\w+)(\s*)=([^;]*);', r'\1\2=\3,', ntags),
        ('... inside one anonymous enum of the same namespace', r'(namespace primitiveType \{)', r'\1 enum {', 1),
        ('... inside one anonymous enum of the same namespace', r'\}\s*\Z', '}; }', 1)])
    raw_text = rewrite(raw, [
        ('direct-initialisation of a const scalar `const T n (e);` -> `const T n = e;` (same meaning [dcl.init]; the '
         'parenthesised form crashes the front end)', r'const rawOpType_t (\w+)(\s*)\((.*?)\);', r'const rawOpType_t \1\2= \3;', None)])
    # skeleton fidelity: the members the skeleton declares are the real ones
    hpp = ctx.read('src/occa/internal/lang/expr/exprOpNode.hpp')
    if not re.search(r'const operator_t &op;', hpp):
        raise Undecided('extraction break: exprOpNode::op is no longer `const operator_t &op`')
    bodies = []
    for cls, cpp, hdr, members in NODES:
        h = ctx.read(hdr)
        for m in members:
            if m not in h:
                raise Undecided('extraction break: %s no longer declares `%s`' % (cls, m))
        f = extract_function(ctx, cpp, WS('primitive %s::evaluate() const {' % cls), name='%s::evaluate' % cls)
        bodies.append(f.text)
        exs.append(f)
    preds = []
    for nm in ('isNaN', 'isBool', 'isSigned', 'isUnsigned', 'isInteger', 'isFloat', 'isPointer'):
        pf = extract_function(ctx, PRIM_HPP, WS('inline bool %s() const {' % nm), name='primitive::%s' % nm)
        preds.append(pf.text)
        exs.append(pf)
    skeleton = ctx.contract('C14/expr_skeleton.hpp')
    if skeleton.count('/*@PRIMITIVE_PREDICATES@*/') != 1:
        raise Undecided('expr_skeleton.hpp: placeholder missing')
    skeleton = skeleton.replace('/*@PRIMITIVE_PREDICATES@*/', '\n'.join(preds))
    cond = ['#include <stdint.h>\n#include <stdbool.h>\n' + tags_enum(ctx)[0],
            '#define C14_NO_PRIMITIVE\n#include "C14/spec.h"',
            'static const int c14_tags[] = { %s };' % ', '.join('primitiveType_' + t[2] for t in ALL_TYPES),
            'int c14_ntags(void) { return %d; }' % len(ALL_TYPES),
            'int c14_tag_at(int i) { return c14_tags[i]; }',
            '/* tag of the conditional expression for every pair of operand types, by CBMC\'s C typing\n'
            '   ([expr.cond]/7: usual arithmetic conversions; same in C 6.5.15) */',
            'int c14_cond_tag(int ta, int tb) {']
    for a in ALL_TYPES:
        for b in ALL_TYPES:
            ca = '_Bool' if a[0] == 'bool' else a[1]
            cb = '_Bool' if b[0] == 'bool' else b[1]
            cond.append('  if (ta == primitiveType_%s && tb == primitiveType_%s) return C14_TAGOF(1 ? (%s)0 : (%s)0);'
                        % (a[2], b[2], ca, cb))
    cond.append('  return -1;\n}')
    unit = '\n'.join([
        '#include <verif_base.h>',
        'namespace occa {', '  typedef uint64_t udim_t;', tags_cpp, bf.text + ';', '}',
        skeleton,
        'namespace occa { namespace lang {', raw_text, opt.text] + bodies + ['}}',
        ctx.contract('C14/expr_harness.cpp')])
    groups = []
    for entry, mino in [('h_binary', 8), ('h_ternary', 6), ('h_leftUnary', 2)]:
        groups.append(Group(
            name='eval/' + entry[2:], sources={'expr.cpp': unit, 'condtag.c': '\n'.join(cond)}, entry=entry, lang='cpp',
            checks=[], min_obligations=mino, functions=exs, canary='CANARY', canary_label='canary',
            strength='proof', timeout=300, unwind=2, object_bits=12,
            note='no loops; children are ghost nodes counting evaluations; operator application is a ghost record',
            replay=None if os.environ.get('C14_NO_REPLAY') else replay_C14.replay_eval))
    return groups


# ------------------------------------------------------------------ part 3: literal typing

LEX_CPP = 'src/occa/internal/utils/lex.cpp'
STRING_CPP = 'src/occa/internal/utils/string.cpp'
STRING_HPP = 'src/occa/internal/utils/string.hpp'
TYPEDEFS_HPP = 'include/occa/types/typedefs.hpp'

REF_OPEN = '\n#define c (*c_)'
REF_CLOSE = ('C: end of the reference alias `#define c (*c_)`', r'\}\s*\Z', '#undef c\n}', 1)
SUBSTR = r'std::string\(\s*(\w+)\s*,\s*(\w+)\s*-\s*(\w+)\s*\)'


def _ptr_sig(ret, name, params):
    return WS('%s %s(%s) {' % (ret, name, params))


def lit_lex(ctx):
    """lex::whitespaceCharset, inCharset, skipFrom, skipWhitespace (real text, C)."""
    ws = extract_span(ctx, LEX_CPP, r'^[ \t]*const char whitespaceCharset\[\]\s*=', r';', name='lex::whitespaceCharset')
    out = [rewrite(ws, [('C: lex::whitespaceCharset -> lex_whitespaceCharset', r'\bwhitespaceCharset\b', 'lex_whitespaceCharset', 1),
                        ('C: namespace-scope const -> static const', r'^[ \t]*const char', 'static const char', 1)])]
    sig = _ptr_sig('bool', 'inCharset', 'const char c, const char *charset')
    f1 = extract_function(ctx, LEX_CPP, sig, name='lex::inCharset')
    out.append(rewrite(f1, [('C: lex::inCharset -> static lex_inCharset', sig,
                             'static bool lex_inCharset(const char c, const char *charset) {', 1)]))
    sig = _ptr_sig('void', 'skipFrom', 'const char *&c, const char *delimiters')
    f2 = extract_function(ctx, LEX_CPP, sig, name='lex::skipFrom')
    out.append(rewrite(f2, [('C: reference parameter `const char *&c` -> pointer c_ + alias `#define c (*c_)` around the verbatim body',
                             sig, 'static void lex_skipFrom(const char **c_, const char *delimiters) {' + REF_OPEN, 1),
                            ('C: lex::inCharset -> lex_inCharset', r'\binCharset\(', 'lex_inCharset(', 1), REF_CLOSE]))
    sig = _ptr_sig('void', 'skipWhitespace', 'const char *&c')
    f3 = extract_function(ctx, LEX_CPP, sig, name='lex::skipWhitespace')
    out.append(rewrite(f3, [('C: reference parameter -> pointer', sig, 'static void lex_skipWhitespace(const char **c_) {', 1),
                            ('C: skipFrom(c, whitespaceCharset): reference argument -> c_, lex_ names',
                             r'\bskipFrom\(\s*c\s*,\s*whitespaceCharset\s*\)', 'lex_skipFrom(c_, lex_whitespaceCharset)', 1)]))
    return '\n\n'.join(t.strip() for t in out), [ws, f1, f2, f3]


def lit_parse(ctx):
    """uppercase(char), parseBinary(const char*), parseInt(const char*) (real text, C).  parseInt(const std::string&)
    is the one-line forwarder `return occa::parseInt((const char*) str.c_str());` (checked), modelled by the call itself."""
    if not re.search(r'typedef\s+uint64_t\s+udim_t\s*;', ctx.read(TYPEDEFS_HPP)):
        raise Undecided('extraction break: udim_t is no longer `typedef uint64_t udim_t`')
    src = ctx.read(STRING_CPP)
    if not re.search(r'udim_t\s+parseInt\s*\(\s*const\s+std::string\s*&\s*str\s*\)\s*\{\s*return\s+occa::parseInt\(\(const char\*\)\s*str\.c_str\(\)\);\s*\}', src):
        raise Undecided('extraction break: parseInt(const std::string&) is no longer the forwarder to parseInt(const char*)')
    # parseFloat / parseDouble are libc calls (assumed contracts): which libc function each one is, is read off the real text
    def oneliner(sig, body):
        return re.search(r'double\s+%s\s*\{\s*%s\s*\}' % (sig, body), src)
    fwd = r'return\s+(?:occa::)?%s\(str\.c_str\(\)\);'
    if oneliner(r'parseFloat\s*\(\s*const\s+std::string\s*&\s*str\s*\)', r'return\s+::atof\(str\.c_str\(\)\);'):
        strtof = 0
    elif (oneliner(r'parseFloat\s*\(\s*const\s+std::string\s*&\s*str\s*\)', fwd % 'parseFloat') and
          oneliner(r'parseFloat\s*\(\s*const\s+char\s*\*\s*c\s*\)', r'(?://[^\n]*\s*)*return\s+::strtof\(c,\s*NULL\);')):
        strtof = 1
    else:
        raise Undecided('extraction break: parseFloat is neither ::atof(text) nor ::strtof(text, NULL) (assumed contract: libc)')
    if not (oneliner(r'parseDouble\s*\(\s*const\s+std::string\s*&\s*str\s*\)', fwd % 'parseDouble') and
            re.search(r'double\s+parseDouble\s*\(\s*const\s+char\s*\*\s*c\s*\)\s*\{\s*double\s+ret;\s*#if[^\n]*\n\s*sscanf\(c,\s*"%lf",\s*&ret\);', src)):
        raise Undecided('extraction break: parseDouble(text) is no longer sscanf(text, "%lf") (assumed contract: strtod of the text)')
    up = extract_function(ctx, STRING_HPP, WS('inline char uppercase(const char c) {'), name='uppercase(char)')
    out = [rewrite(up, [('C: inline -> static', r'\binline\b', 'static', 1)])]
    sig = _ptr_sig('udim_t', 'parseBinary', 'const char*c')
    pb = extract_function(ctx, STRING_CPP, sig, name='parseBinary(const char*)')
    out.append(rewrite(pb, [('C: occa::parseBinary -> static occa_parseBinary', sig, 'static udim_t occa_parseBinary(const char *c) {', 1),
                            ('C: lex::skipWhitespace(c) on the by-value parameter: reference argument -> &c',
                             r'\blex::skipWhitespace\(\s*c\s*\)', 'lex_skipWhitespace(&c)', 1)]))
    sig = _ptr_sig('udim_t', 'parseInt', 'const char *c')
    pi = extract_function(ctx, STRING_CPP, sig, name='parseInt(const char*)')
    out.append(rewrite(pi, [('C: occa::parseInt -> static occa_parseInt', sig, 'static udim_t occa_parseInt(const char *c) {', 1),
                            ('C: lex::skipWhitespace(c) on the by-value parameter: reference argument -> &c',
                             r'\blex::skipWhitespace\(\s*c\s*\)', 'lex_skipWhitespace(&c)', 1),
                            ('C: parseBinary -> occa_parseBinary', r'\bparseBinary\(', 'occa_parseBinary(', 1)]))
    return '\n\n'.join(t.strip() for t in out), [up, pb, pi], strtof


def _scalar_to_primitive(ex, text, is_load=False):
    """C++ converts a scalar to primitive through the converting constructor selected by the static type;
    in C the selection is spelled PRIM(e) (_Generic on the type of e, see constructors())."""
    rules = [
        ('C: p = true/false -> PRIM((_Bool) 1/0): the bool constructor (true/false are int in C)',
         r'\bp\s*=\s*(true|false)\s*;', r'p = PRIM((_Bool) \1);', 2 if is_load else 0),
        ('C: x.to<T>() -> primitive_to_T(x) (textual instantiation of the real to<T>)',
         r'(\b\w+)\.to<(\w+)>\(\)', r'primitive_to_\2(\1)', None if is_load else 0),
        ('C: p = <scalar of type T>; -> p = PRIM(...): converting constructor selected by the type of the cast / of to<T>()',
         r'\bp\s*=\s*(\((?:float|double|u?int(?:8|16|32|64)_t)\)\s*[^;]+|primitive_to_\w+\(p\))\s*;', r'p = PRIM(\1);', None if is_load else 0),
        ('C: default construction `primitive p;` made explicit', r'\bprimitive\s+p\s*;', 'primitive p = primitive_ctor_none();', '*'),
    ]
    ex2 = Extracted(name=ex.name, file=ex.file, line0=ex.line0, line1=ex.line1, sha256=ex.sha256, text=text)
    text = rewrite(ex2, rules)
    ex.rules += ex2.rules
    # primitive(e) / primitive()
    out, i, nv, nn = [], 0, 0, 0
    rx = re.compile(r'(?<![\w:.])primitive\(')
    while True:
        m = rx.search(text, i)
        if not m:
            out.append(text[i:])
            break
        k = m.end() - 1
        e = match_brace(text, k, '(', ')')
        arg = text[k + 1:e]
        out.append(text[i:m.start()])
        if arg.strip():
            if _is_bool_expr(arg):
                raise Undecided('extraction break: %s constructs a primitive from a bool expression (no rule)' % ex.name)
            out.append('PRIM(%s)' % arg)
            nv += 1
        else:
            out.append('primitive_ctor_none()')
            nn += 1
        i = e + 1
    ex.rules.append(('C: primitive(e) -> _Generic constructor selection on the static type of e', nv))
    ex.rules.append(('C: primitive() -> primitive_ctor_none()', nn))
    text = ''.join(out)
    # every assignment to p now has a primitive-valued right-hand side
    for m in re.finditer(r'\bp\s*=(?!=)\s*([^;]+);', text):
        if not re.match(r'(PRIM\(|primitive_\w+\()', m.group(1)):
            raise Undecided('extraction break: %s: assignment `p = %s` has no C translation rule' % (ex.name, m.group(1)[:40]))
    return text


def lit_load(ctx):
    """primitive::loadBinary, loadHex, load (real text, C); load twice: the literal itself and, for the
    recursive call on the exponent, a second textual instance."""
    if not re.search(r'static\s+primitive\s+load\s*\(\s*const\s+char\s*\*\s*&\s*c\s*,\s*const\s+bool\s+includeSign\s*=\s*true\s*\)',
                     ctx.read(PRIM_HPP)):
        raise Undecided('extraction break: default argument includeSign = true of primitive::load changed')
    out, exs = [], []
    for kind in ('loadBinary', 'loadHex'):
        sig = _ptr_sig('primitive', 'primitive::' + kind, 'const char *&c, const bool isNegative')
        ex = extract_function(ctx, PRIM_CPP, sig, name='primitive::' + kind)
        text = rewrite(ex, [('C: static member, reference parameter `const char *&c` -> pointer c_ + alias `#define c (*c_)`',
                             sig, 'static primitive primitive_%s(const char **c_, const bool isNegative) {' % kind + REF_OPEN, 1),
                            REF_CLOSE])
        out.append(_scalar_to_primitive(ex, text))
        exs.append(ex)
    sig = _ptr_sig('primitive', 'primitive::load', 'const char *&c, const bool includeSign')
    ex = extract_function(ctx, PRIM_CPP, sig, name='primitive::load(const char*&, bool)')
    text = rewrite(ex, [
        ('C: static member, reference parameter -> pointer c_ + alias', sig,
         'static primitive @LOAD@(const char **c_, const bool includeSign) {' + REF_OPEN, 1),
        ('C: p.source = "literal" -> ghost record of the spelling (struct primitive carries no std::string)',
         r'\bp\.source\s*=\s*("[a-z]+")\s*;', r'verif_set_source_lit(\1);', 2),
        ('C: p.source = std::string(a, b - a) -> ghost record of the spelling',
         r'\bp\.source\s*=\s*' + SUBSTR + r'\s*;', r'verif_set_source(\1, \2 - \3);', 2),
        ('C: occa::parseFloat/parseDouble(std::string(a, b - a)) -> assumed contract (strtod of that text) on the std::string model',
         r'\bocca::parse(Float|Double)\(\s*' + SUBSTR + r'\s*\)', r'occa_parse\1(verif_string(\2, \3 - \4, ""))', 2),
        ('C: parseInt(std::string(a, b - a) [+ "suffix"]) -> real parseInt(const char*) on the std::string model',
         r'\bparseInt\(\s*' + SUBSTR + r'(?:\s*\+\s*"(\w*)")?\s*\)', r'occa_parseInt(verif_string(\1, \2 - \3, "\4"))', 1),
        ('C: primitiveType::x -> primitiveType_x', r'\bprimitiveType::', 'primitiveType_', None),
        ('C: lex::skipWhitespace(c) -> lex_skipWhitespace(c_)  (reference argument)', r'\blex::skipWhitespace\(\s*c\s*\)', 'lex_skipWhitespace(c_)', 1),
        ('C: primitive::loadBinary/loadHex(++c, negative): reference argument -> (++c, c_)',
         r'\bprimitive::(loadBinary|loadHex)\(\s*\+\+c\s*,\s*negative\s*\)', r'primitive_\1((++c, c_), negative)', 2),
        ('C: recursive primitive::load(++c) -> next textual instance; default argument includeSign = true made explicit',
         r'\bprimitive::load\(\s*\+\+c\s*\)', '@LOAD_REC@((++c, c_), true)', 1),
        REF_CLOSE])
    text = _scalar_to_primitive(ex, text, is_load=True)
    for bad in ('std::', '.to<', 'primitive(', '::', '.source'):
        if bad in re.sub(r'//[^\n]*', '', text):
            raise Undecided('C extraction of primitive::load left C++ text behind: %s' % bad)
    ex.rules.append(('the recursive call on the exponent is replaced by its contract (contracts/C14/literal_harness.h: '
                     'c14_exponent_spec), which group literal/exponent-contract proves of this same text', 1))
    inst1 = text.replace('@LOAD@', 'primitive_load').replace('@LOAD_REC@', 'primitive_load_exponent')
    out.append(inst1)
    exs.append(ex)
    return '\n\n'.join(t.strip() for t in out), exs


# shapes of literal text, one CBMC run each
def lit_shapes(tier):
    q = tier == 'quick'
    def shape(name, setup, filt, nmax, what, integer=True, tail=False):
        return dict(name=name, setup=setup, filt=filt, nmax=nmax, what=what, integer=integer, tail=tail)
    # digits: decimal, hexadecimal, octal (after the leading 0), binary; characters: any text, floating literal.
    # quick: every boundary between int, unsigned, long (2^31, 2^32) is crossed in base 10, 16 and 8;
    # thorough: the largest bounds that were measured to finish (binary crosses 2^32 as well).  Bounds that cross
    # 2^63 / 2^64 in every base are C14_LIT_BOUNDS=20,16,22,64,11,14 (not measured; raise C14_TIMEOUT with them)
    dd, hd, od, bd, na, nf = (10, 9, 11, 12, 7, 9) if q else (11, 9, 12, 33, 8, 10)
    if os.environ.get('C14_LIT_BOUNDS'):          # development aid
        dd, hd, od, bd, na, nf = [int(x) for x in os.environ['C14_LIT_BOUNDS'].split(',')]
    INT = 'c14_spec.kind == C14_LIT_INT && c14_spec.base == %d'
    shapes = [
        shape('any-text', '', '1', na, 'every text of at most %d characters over all 256 byte values that is a literal' % na,
              integer=False, tail=True),
        shape('decimal', '', INT % 10, dd + 3,
              'every decimal integer literal of at most %d digits with every integer-suffix' % dd),
        shape('octal', "c14_text[0] = '0';", INT % 8, 1 + od + 3,
              'every octal integer literal of at most %d digits after the leading 0 with every integer-suffix' % od),
    ]
    # the prefix letter is concrete (symbolic execution then folds the dispatch on it); the capital forms: thorough
    # tier (quick: inside literal/any-text up to its length)
    for x in ('x',) if q else ('x', 'X'):
        shapes.append(shape('hexadecimal-' + x, "c14_text[0] = '0'; c14_text[1] = '%s';" % x, INT % 16, 2 + hd + 3,
                            'every hexadecimal integer literal 0%s... of at most %d digits with every integer-suffix' % (x, hd)))
    for b in ('b',) if q else ('b', 'B'):
        shapes.append(shape('binary-' + b, "c14_text[0] = '0'; c14_text[1] = '%s';" % b, INT % 2, 2 + bd + 3,
                            'every binary integer literal 0%s... of at most %d digits with every integer-suffix' % (b, bd)))
    shapes.append(shape('floating', '', 'c14_spec.kind == C14_LIT_FLOAT', nf,
                        'every decimal floating literal (double, or float by f/F suffix) of at most %d characters' % nf,
                        integer=False))
    return shapes


def literal_groups(ctx, unit):
    from vp import replay_C14
    lex_c, e1 = lit_lex(ctx)
    parse_c, e2, strtof = lit_parse(ctx)
    load_c, e3 = lit_load(ctx)
    body = '\n'.join([
        unit.common, '#include <string.h>', 'typedef uint64_t udim_t;',
        '#define OCCA_UNSAFE 0   /* CMakeLists.txt: set(OCCA_UNSAFE OFF) */',
        '#define C14_PARSEFLOAT_IS_STRTOF %d   /* read off the real body of occa::parseFloat */' % strtof,
        '#include "C14/spec.h"', '#include "C14/literal_spec.h"',
        '#define C14_LITERAL_MODELS\n#include "C14/literal_harness.h"\n#undef C14_LITERAL_MODELS',
        '/* ---- extracted from %s ---- */' % LEX_CPP, lex_c,
        '/* ---- extracted from %s, %s ---- */' % (STRING_HPP, STRING_CPP), parse_c,
        '/* ---- extracted from %s ---- */' % PRIM_CPP, load_c,
        '#define C14_LITERAL_HARNESS\n#include "C14/literal_harness.h"\n'])
    groups = []
    shapes = lit_shapes(ctx.tier)
    # longest exponent text (sign, digits, f) inside the longest literal that can have one: digit e <exponent>
    emax = max(sh['nmax'] for sh in shapes if not sh['integer']) - 2
    for sh in shapes:
        n = sh['nmax']
        defines = ['C14_LIT_MAX=%d' % n, 'C14_SHAPE_SETUP=%s' % sh['setup'], 'C14_SHAPE_FILTER=%s' % sh['filt']]
        if sh['integer']:
            defines.append('C14_LIT_NO_EXPONENT')
        else:
            defines.append('C14_EXP_MAX=%d' % emax)
        if sh['tail']:
            defines.append('C14_LIT_TAIL')
        g = Group(
            name='literal/' + sh['name'], sources={'literal.c': body}, entry='h_literal', lang='c', defines=defines,
            unwind=n + 3, checks=ARITH_CHECKS + (PTR_CHECKS if sh['tail'] else []), min_obligations=8,
            timeout=int(os.environ.get('C14_TIMEOUT', '900' if ctx.tier == 'quick' else '2400')),
            functions=e3 + e2 + e1 + unit.common_ex, canary='CANARY', canary_label='canary',
            strength='bounded',
            bound=sh['what'] + ', followed by any character that ends the token' +
                  (' and then by arbitrary text' if sh['tail'] else ' and the end of the buffer'),
            param='literal length <= %d' % n,
            assumptions=['libc: ::atof and sscanf "%lf" return strtod(text), ::strtof returns strtof(text): the double / the float nearest '
                         'to the longest prefix of the text that is a decimal floating constant; the conversion is not modelled, the '
                         'two results are unconstrained and unrelated (so (float) strtod(text) is NOT taken to be strtof(text))',
                         'std::string(first, count) [+ "suffix"] . c_str() is modelled by a NUL-terminated copy (contracts/C14/literal_harness.h)',
                         'strlen/strncmp: CBMC library models'],
            note='loops unwound to the buffer length (unwinding assertions on); the recursive call of load on the exponent is '
                 'replaced by its contract (integer shapes: by a stub that fails when reached); pointer/bounds '
                 'checks only in literal/any-text and literal/exponent-contract (cursor safety of load is C12)',
            replay=None if os.environ.get('C14_NO_REPLAY') else replay_C14.replay_literal)
        g.extra_cbmc = ['--sat-solver', 'cadical']
        groups.append(g)
    common = groups[0]
    g = Group(
        name='literal/exponent-contract', sources={'literal.c': body}, entry='h_exponent', lang='c',
        defines=['C14_LIT_MAX=%d' % (emax + 2), 'C14_EXP_MAX=%d' % emax, 'C14_SHAPE_SETUP=', 'C14_SHAPE_FILTER=1', 'C14_LIT_NO_EXPONENT'],
        unwind=emax + 5, checks=ARITH_CHECKS + PTR_CHECKS, min_obligations=4, timeout=common.timeout,
        functions=e3 + e2 + e1 + unit.common_ex, canary='CANARY', canary_label='canary', strength='bounded',
        bound='every exponent text `sign? digits (f|F)?` of at most %d characters, followed by any character that ends '
              'the token, and the end of the buffer' % emax,
        param='exponent length <= %d' % emax, assumptions=common.assumptions,
        note='proves the contract by which literal/floating and literal/any-text replace the recursive call of primitive::load',
        replay=None)
    g.extra_cbmc = ['--sat-solver', 'cadical']
    groups.append(g)
    if ctx.tier == 'thorough' or os.environ.get('C14_FIDELITY'):
        groups.append(literal_fidelity_group(ctx, body, e3 + e2 + e1 + unit.common_ex))
    return groups


LITFID_PROG = r'''
#include <occa/types/primitive.hpp>
#include <cstdio>
#include <cstring>
#include <string>
using occa::primitive;
static void one(int i, const char *text) {
  const char *c = text; primitive r; bool raised = false; unsigned long long bits = 0;
  try { r = primitive::load(c, false); } catch (...) { raised = true; }
  if (!raised && r.type != occa::primitiveType::none) memcpy(&bits, &r.value, r.sizeof_() <= 8 ? r.sizeof_() : 8);
  printf("%d %d %d %llu %ld\n", i, (int) raised, r.type, bits, (long) (c - text));
}
int main() {
@BODY@
  return 0;
}
'''


def literal_fidelity_group(ctx, body, exs):
    """Translation fidelity (DESIGN 3.5) for the literal unit: concrete literal texts through the compiled library
    (native) and through the extracted C text (CBMC) must give the same (raised, tag, value bits, characters consumed).
    Floating values come from libc (assumed): only tag and cursor are compared for them."""
    from vp import replaylib, replay_C14
    tv = tag_values(ctx)
    lits = list(replay_C14.LIT_EDGES) + ['0X1F', '0B101', '1.5L', '12abc', '0x', '09', '.', 'truex', '1ulx', '0b102']
    prog = LITFID_PROG.replace('@BODY@', '\n'.join('  one(%d, "%s");' % (i, t) for i, t in enumerate(lits)))
    try:
        rc, out, src = replaylib.compile_run(ctx, 'literal_fidelity', prog, timeout=300)
    except Exception as e:
        raise Undecided('literal fidelity: native program could not be built/run: %s' % str(e)[-400:])
    native = {}
    for l in out.splitlines():
        f = l.split()
        if len(f) == 5 and f[0].isdigit():
            native[int(f[0])] = tuple(int(x) for x in f[1:])
    if rc != 0 or len(native) != len(lits):
        raise Undecided('literal fidelity: native run gave %d of %d results (rc=%s)' % (len(native), len(lits), rc))
    nmax = max(len(t) for t in lits) + 1
    hs = []
    for i, t in enumerate(lits):
        raised, tag, bits, used = native[i]
        isf = tag in (tv['float_'], tv['double_'])
        val = '1' if (isf or raised or tag == tv['none']) else 'c14_value_bits(r) == %dul' % bits
        hs.append('  { c14_set_text("%s"); const char *cur = c14_text; verif_raised = 0; c14_fp_value = nondet_double();\n'
                  '    primitive r = primitive_load(&cur, 0);\n'
                  '    __CPROVER_assert(verif_raised == %d && (verif_raised || (r.type == %d && %s && cur - c14_text == %d)), '
                  '"fidelity literal %s: the extracted C text computes what the compiled library computes (tag, value bits, cursor)"); ++n; }'
                  % (t, raised, tag, val, used, t))
    src = body + '''
static void c14_set_text(const char *t) {
  size_t k = 0;
  for (; t[k] != 0; ++k) c14_text[k] = t[k];
  for (; k < C14_LIT_MAX + 2; ++k) c14_text[k] = 0;
}
static unsigned long c14_value_bits(primitive r) {
  switch (r.type) {
  case primitiveType_bool_: return r.value.bool_;
  case primitiveType_int8_: case primitiveType_uint8_: return r.value.uint8_;
  case primitiveType_int16_: case primitiveType_uint16_: return r.value.uint16_;
  case primitiveType_int32_: case primitiveType_uint32_: return r.value.uint32_;
  case primitiveType_int64_: case primitiveType_uint64_: return r.value.uint64_;
  default: return 0;
  }
}
void h_literal_fidelity(void) {
  int n = 0;
''' + '\n'.join(hs) + '\n#ifdef CANARY\n  __CPROVER_assert(n != %d, "canary: all literal fidelity vectors executed");\n#endif\n}\n' % len(hs)
    g = Group(
        name='literal/fidelity', sources={'literal.c': src}, entry='h_literal_fidelity', lang='c',
        defines=['C14_LIT_MAX=%d' % nmax, 'C14_EXP_MAX=%d' % nmax, 'C14_SHAPE_SETUP=', 'C14_SHAPE_FILTER=1', 'C14_LIT_TAIL'],
        unwind=nmax + 4, checks=ARITH_CHECKS + PTR_CHECKS, min_obligations=len(hs), timeout=900, functions=exs,
        canary='CANARY', canary_label='canary', strength='proof', param='%d concrete literal texts' % len(hs),
        note='concrete texts; expected (raised, tag, bits, cursor) printed by a native program linked against the freshly built libocca')
    g.extra_cbmc = ['--sat-solver', 'cadical']
    return g


def build(ctx):
    unit = Unit(ctx)
    types = LITERAL_TYPES if ctx.tier == 'quick' else [t[0] for t in ALL_TYPES]
    # the literal groups are the longest single runs: scheduled first
    groups = literal_groups(ctx, unit) + op_groups(ctx, unit, types) + eval_groups(ctx)
    if ctx.tier == 'thorough' or os.environ.get('C14_FIDELITY'):
        groups += fidelity_groups(ctx, unit, types)
    only = os.environ.get('C14_ONLY')          # development aid: run a subset of the groups
    if only:
        groups = [g for g in groups if re.search(only, g.name)]
    return groups
