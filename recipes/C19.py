"""C19 - @dim array access computes the documented linear index.

Translation validation with a deductive back end (Engine B): kernels with
`x(ARG0, ..., ARGk)` on a `@dim(D0, ..., Dk) [@dimOrder(...)]` variable are
translated by the real `occa translate`; the emitted `x[E]` index expression is
pasted verbatim into a C function and CBMC proves it equal to the documented
mixed-radix index of the argument *values* (docs/guide/okl/attributes.md).
"""
import functools
import itertools
import os
import re

from vp.core import Group, Undecided
from vp import engine_b as eb

LEVEL = 'translation_validation'
EXPLANATION = ('For every program of the family (arity 1-4 x @dimOrder permutation x one index or dimension argument drawn from '
               'each operator-precedence class) the emitted subscript `x[E]` is pasted verbatim into a C function; CBMC proves, '
               'for all argument values in the stated box for which the documented formula does not overflow, that E equals '
               'a[p0] + D[p0]*(a[p1] + D[p1]*(...)) computed from the values of the arguments, each argument evaluated as a whole '
               'expression first. For plain arguments with dimensions up to 15 it also proves 0 <= E < prod(D), injectivity on in-range '
               'index tuples and surjectivity (digit witness), i.e. a bijection onto [0, prod D).')
TRUSTED = ['cbmc 6.11.0 C front end, SAT back end (cadical)',
           'the harness generator (recipes/C19.py, vp/engine_b.py): location of the emitted subscript, the documented formula '
           'written out from docs/guide/okl/attributes.md (xy(1,2) with @dim(X,Y) -> xy[1 + (2 * X)]; @dimOrder(1,0) -> yx[2 + (1 * 3)])']
ASSUMPTIONS = ['index equality: all 32-bit operand values, both sides in int arithmetic modulo 2^32 (CBMC wrap-around; equal as C values '
               'whenever the documented formula does not overflow); absence of undefined behaviour in the emitted text: operands with '
               '|v| <= 2^7, for which the documented formula cannot overflow (bounded)',
               'bijectivity part: 1 <= D_k <= 15 (<= 7 for arity 4), plain variable arguments (larger dimension bounds did not finish on the SAT back end)',
               'the enumerated family is checked program by program; nothing is claimed for accesses outside it']
NOT_REACHED = ['@dim on typedef-ed types and on locals (the same dim::applyCodeTransformations path, not enumerated)',
               'arguments with side effects', 'arity > 4']

IDX = ['i', 'j', 'k', 'l']
DIM = ['D0', 'D1', 'D2', 'D3']
VARS = IDX + ['c'] + DIM
SIG = ', '.join('const int ' + v for v in VARS)
IPARAMS = ', '.join('int ' + v for v in VARS)
V = '(1 << 28)'

# one representative per operator-precedence class; {v} is the position's variable, {w} another variable
ARG_CLASSES = {
    'primary': '{v}', 'unary': '-{v}', 'cast': '(int) {v}', 'mult': '{v} * 2', 'div': '{v} / 2', 'mod': '{v} % 3',
    'add': '{v} + 1', 'shift': '{v} >> 1',
    'rel': '{v} < {w}', 'eq': '{v} == {w}', 'bitand': '{v} & 1', 'xor': '{v} ^ 1', 'bitor': '{v} | 1',
    'and': '{v} && {w}', 'or': '{v} || {w}', 'ternary': 'c ? {v} : 0', 'comma': '({w}, {v})',
}
DIM_CLASSES = {
    'primary': '{v}', 'mult': '{v} * 2', 'add': '{v} + 1', 'shift': '{v} >> 1', 'bitand': '{v} & 7',
    'ternary': 'c ? {v} : 2', 'comma': '({w}, {v})', 'cast': '(int) {v}',
}


class Prog:
    def __init__(self, n, order, args, dims, tag):
        self.n, self.order, self.args, self.dims, self.tag = n, order, args, dims, tag
        attr = '@dim(%s)' % ', '.join(dims)
        if order is not None:
            attr += ' @dimOrder(%s)' % ', '.join(str(o) for o in order)
        self.access = 'x(%s)' % ', '.join(args)
        self.decl = 'int *x ' + attr
        self.okl = ('@kernel void %s(%s, %s, const int N) {\n'
                    '  for (int o = 0; o < N; ++o; @outer) {\n'
                    '    for (int t = 0; t < 4; ++t; @inner) {\n'
                    '      %s = 1;\n'
                    '    }\n  }\n}\n' % (eb.KNAME, SIG, self.decl, self.access))

    def label(self):
        return '%s with %s' % (self.access, self.decl[7:])

    def perm(self):
        return list(self.order) if self.order is not None else list(range(self.n))


QUICK3 = ('ternary', 'bitand', 'add', 'comma', 'div')      # classes kept for arity 3 in the quick tier


def other(p, n, pool):
    return pool[(p + 1) % max(n, 2)]


def family(tier):
    fam = []          # (group key, Prog)
    for n in (1, 2, 3, 4):
        perms = [None] + list(itertools.permutations(range(n)))
        if tier == 'quick':
            if n == 4:
                continue
            perms = {1: [None], 2: [None, (1, 0)], 3: [(1, 2, 0)]}[n]
        for order in perms:
            oname = 'none' if order is None else ','.join(str(o) for o in order)
            plain_a = [IDX[p] for p in range(n)]
            plain_d = [DIM[p] for p in range(n)]
            fam.append((('plain', n, oname), Prog(n, order, plain_a, plain_d, 'plain')))
            for p in range(n):
                for cls, pat in ARG_CLASSES.items():
                    if cls == 'primary' or (tier == 'quick' and n == 3 and cls not in QUICK3):
                        continue
                    a = list(plain_a)
                    a[p] = pat.format(v=IDX[p], w=other(p, n, IDX))
                    fam.append((('args', n, oname), Prog(n, order, a, plain_d, 'arg%d=%s' % (p, cls))))
                for cls, pat in DIM_CLASSES.items():
                    if cls == 'primary' or (tier == 'quick' and n == 3 and cls not in QUICK3):
                        continue
                    d = list(plain_d)
                    d[p] = pat.format(v=DIM[p], w=other(p, n, DIM))
                    fam.append((('dims', n, oname), Prog(n, order, plain_a, d, 'dim%d=%s' % (p, cls))))
    return fam


# ------------------------------------------------------------------ harnesses

PRELUDE = eb.NONDET_DECLS + '''typedef unsigned long verif_ul;
'''


def spec_block(pg, u):
    """Documented index from the argument values, innermost first."""
    p = pg.perm()
    n = pg.n
    lines = ['  int verif_idx = verif_A%d;' % p[n - 1]]
    for t in range(n - 2, -1, -1):
        lines.append('  verif_idx = verif_A%d + verif_M%d * verif_idx;' % (p[t], p[t]))
    return '\n'.join(lines)


SMALL = 7        # box exponent of the overflow-freedom part: |v| <= 2^7 keeps the documented formula of arity 4 below 2^31


def unit(pg, E, u):
    names = ', '.join('%s_%d' % (v, u) for v in VARS)
    decl = '\n'.join('  int %s_%d = nondet_int();' % (v, u) for v in VARS)
    small = '\n'.join('  __CPROVER_assume(-(1 << %d) <= %s_%d && %s_%d <= (1 << %d));' % (SMALL, v, u, v, u, SMALL) for v in VARS)
    vals = '\n'.join('  const int verif_A%d = (%s);' % (q, pg.args[q]) for q in range(pg.n)) + '\n' + \
           '\n'.join('  const int verif_M%d = (%s);' % (q, pg.dims[q]) for q in range(pg.n))
    lab = pg.label().replace('"', "'")
    return '''/* ---- %s ---- */
static int em_%d(%s) {
  return /* emitted subscript, verbatim: */ %s;
}
#pragma CPROVER check push
#pragma CPROVER check disable "signed-overflow"
static int emw_%d(%s) {      /* the same text under wrap-around int arithmetic (for the comparison modulo 2^32) */
  return /* emitted subscript, verbatim: */ %s;
}
static int spec_%d(%s) {
  /* every index and dimension argument evaluated as a complete expression */
%s
%s
  return verif_idx;
}
#pragma CPROVER check pop
static void unit_%d(void) {
%s
#ifndef CANARY
#ifdef PART_EQ32
  /* all 32-bit operand values */
  __CPROVER_assert(emw_%d(%s) == spec_%d(%s),
                   "%s: emitted index equals the documented mixed-radix index of the argument values (all 32-bit values, int arithmetic modulo 2^32)");
#else
  /* small operands, for which the documented formula cannot overflow: the emitted text has no undefined behaviour and the same value */
%s
  __CPROVER_assert(em_%d(%s) == spec_%d(%s),
                   "%s: emitted index is defined and equals the documented index for small operands");
#endif
#else
  __CPROVER_assert(spec_%d(%s) != 77, "canary: %s reachable");
#endif
}
''' % (lab, u, IPARAMS, E, u, IPARAMS, E, u, IPARAMS, vals, spec_block(pg, u), u, decl,
       u, names, u, names, lab, small, u, names, u, names, lab, u, names, lab)


def bij_unit(pg, E, u):
    """In-range tuples, 8-bit dimensions: range, injectivity, surjectivity (digit witness)."""
    n = pg.n
    p = pg.perm()
    D = ['d%d' % q for q in range(4)]
    dmax = 15 if n <= 3 else 7             # larger dimensions: the SAT back end does not finish (63: > 15 min)
    decl = '\n'.join('  int %s = nondet_int(); __CPROVER_assume(1 <= %s && %s <= %d);' % (d, d, d, dmax) for d in D)
    tup = lambda s: '\n'.join('  int %s%d = nondet_int(); __CPROVER_assume(0 <= %s%d && %s%d < d%d);' % (s, q, s, q, s, q, q)
                              for q in range(n)) + ''.join('\n  int %s%d = 0;' % (s, q) for q in range(n, 4))
    call = lambda s: 'em_%d(%s, 0, %s)' % (u, ', '.join('%s%d' % (s, q) for q in range(4)), ', '.join(D))
    prod = ' * '.join('(long) d%d' % q for q in range(n))
    # digit witness for the documented order: a[p0] is the fastest digit
    wit = ['  unsigned int verif_r = (unsigned int) verif_v;'] + ['  int w%d = 0;' % q for q in range(4)]
    for t in range(n):
        wit.append('  w%d = (int) (verif_r %% (unsigned int) d%d); verif_r = verif_r / (unsigned int) d%d;' % (p[t], p[t], p[t]))
    return '''static void bij_%d(void) {
%s
%s
%s
  const long verif_prod = %s;
  const int ea = %s, eb_ = %s;
#ifndef CANARY
  __CPROVER_assert(0 <= ea && ea < verif_prod, "%s: in-range indices map into [0, prod D)");
  __CPROVER_assert(ea != eb_ || (%s), "%s: two in-range index tuples with the same linear index are equal");
  long verif_v = nondet_long(); __CPROVER_assume(0 <= verif_v && verif_v < verif_prod);
%s
  __CPROVER_assert(%s == verif_v, "%s: every value of [0, prod D) is the linear index of an in-range tuple");
#else
  __CPROVER_assert(ea != 3, "canary: %s bijectivity reachable");
#endif
}
''' % (u, decl, tup('a'), tup('b'), prod, call('a'), call('b'), pg.label(),
       ' && '.join('a%d == b%d' % (q, q) for q in range(n)), pg.label(),
       '\n'.join(wit), call('w'), pg.label(), pg.label())


# -------------------------------------------------------------------- replay

def cstr(t):
    return '"' + t.replace('\\', '\\\\').replace('"', '\\"').replace('\n', ' ') + '"'


def replay(units, ctx, g, o, inputs):
    m = re.search(r'_(\d+)$', o.function or '')
    if not m or int(m.group(1)) >= len(units):
        return {'reproduced': False, 'error': 'failing unit not identified from %r' % o.function}
    u = int(m.group(1))
    pg, E = units[u]
    vals = dict((v, eb.trace_int(inputs, '%s_%d' % (v, u), 1)) for v in VARS)
    p, n = pg.perm(), pg.n
    spec = 'A[%d]' % p[n - 1]
    for t in range(n - 2, -1, -1):
        spec = 'A[%d] + M[%d] * (%s)' % (p[t], p[t], spec)
    src = ('#include <cstdio>\n#include <cstdlib>\nint main(int argc, char **argv) {\n'
           '  const int ' + ', '.join('%s = atoi(argv[%d])' % (v, q + 1) for q, v in enumerate(VARS)) + ';\n'
           '  /* the access as written: each argument evaluated as a complete expression */\n'
           '  const long A[4] = { ' + ', '.join(['(%s)' % x for x in pg.args] + ['0'] * (4 - n)) + ' };\n'
           '  const long M[4] = { ' + ', '.join(['(%s)' % x for x in pg.dims] + ['0'] * (4 - n)) + ' };\n'
           '  const long documented = ' + spec + ';\n'
           '  /* the subscript emitted by the translator, verbatim */\n'
           '  const long emitted = ' + E + ';\n'
           '  printf("' + ' '.join('%s=%%d' % v for v in VARS) + '\\n", ' + ', '.join(VARS) + ');\n'
           '  printf("%s\\n", ' + cstr(pg.label()) + ');\n'
           '  printf("documented index %ld, emitted x[%s] = %ld\\n", documented, ' + cstr(E) + ', emitted);\n'
           '  printf(documented == emitted ? "SAME\\n" : "DIFFERENT\\n");\n'
           '  return documented == emitted ? 0 : 1;\n}\n')
    cands = [vals, dict(vals, i=3, j=5, k=7, l=2, c=1, D0=11, D1=13, D2=17, D3=19),
             dict(vals, i=3, j=5, k=7, l=2, c=0, D0=11, D1=13, D2=17, D3=19)]
    last = None
    for v in cands:
        rc, out = eb.native_run(ctx, 'replay_c19', src, args=[v[x] for x in VARS], timeout=30)
        last = (v, out)
        if rc == 1 and 'DIFFERENT' in out:
            from vp import replaylib
            pth = replaylib.keep_replay_source(ctx, g, src)
            return {'reproduced': True, 'input': v, 'from_counterexample': v is vals, 'program': pth, 'okl': pg.okl,
                    'how': 'the access with its arguments evaluated first (documented formula) and the emitted subscript, compiled with g++ -O0',
                    'output': out[-600:]}
    return {'reproduced': False, 'input': last[0], 'output': last[1][-600:]}


# --------------------------------------------------------------------- build

def PROGRAMS():
    return eb.programs_translated()


def build(ctx):
    fam = family(ctx.tier)
    res = eb.translate(ctx, [pg.okl for _, pg in fam], [('Serial', False)])
    groups = []
    bykey = {}
    for idx, (key, pg) in enumerate(fam):
        name = 'C19/%s/arity=%d/order=%s' % key
        try:
            fn = eb.need(res, idx, 'Serial', False, pg.label())
            if len(fn) != 1:
                raise Undecided('Serial source has %d functions for the kernel' % len(fn))
            subs = eb.find_subscripts(eb.function_body(fn[0][1]), 'x')
            if len(subs) != 1:
                raise Undecided('%d subscripts of x in the emitted kernel (need exactly 1)' % len(subs))
            if re.search(r'\bx\s*\(', eb.function_body(fn[0][1])):
                raise Undecided('the access x(...) was not rewritten')
        except Undecided as e:
            groups.append(eb.undecided_group('C19/locate/%s/%s' % (name[4:], pg.tag), str(e), pg.label()))
            continue
        bykey.setdefault(name, []).append((pg, subs[0].strip()))
    CH = int(os.environ.get('VERIF_C19_CHUNK', '6'))
    for name, allitems in bykey.items():
        for c0 in range(0, len(allitems), CH):
            items = allitems[c0:c0 + CH]
            cname = name + ('' if len(allitems) <= CH else '/part-%d' % (c0 // CH))
            text = PRELUDE
            calls, bcalls = [], []
            for u, (pg, E) in enumerate(items):
                text += unit(pg, E, u)
                calls.append('  unit_%d();' % u)
                if pg.tag == 'plain':
                    text += bij_unit(pg, E, u)
                    bcalls.append('  bij_%d();' % u)
            text += 'void h(void) {\n%s\n}\n' % '\n'.join(calls)
            text += 'void h_bij(void) {\n%s\n}\n' % '\n'.join(bcalls)
            tags = '; '.join(pg.tag for pg, _ in items)[:300]
            groups.append(Group(
                name=cname.replace('C19/', 'C19/eq32/'), sources={'dim.c': text}, entry='h', defines=['PART_EQ32'],
                solver='z3', min_obligations=len(items), timeout=900, strength='proof',
                canary='CANARY', canary_label='canary', param='%d programs: %s' % (len(items), tags),
                replay=functools.partial(replay, items)))
            groups.append(Group(
                name=cname.replace('C19/', 'C19/small/'), sources={'dim.c': text}, entry='h',
                extra_cbmc=['--sat-solver', 'cadical'], min_obligations=len(items), timeout=900, strength='bounded',
                bound='|operands| <= 2^7 (the documented formula cannot overflow)',
                canary='CANARY', canary_label='canary', param='%d programs: %s' % (len(items), tags),
                replay=functools.partial(replay, items)))
            if bcalls:
                groups.append(Group(
                    name=cname.replace('C19/', 'C19/bijection/'), sources={'dim.c': text}, entry='h_bij',
                    extra_cbmc=['--sat-solver', 'cadical'], min_obligations=3, timeout=900, strength='bounded',
                    bound='dimensions 1..15 (1..7 for arity 4), in-range indices',
                    canary='CANARY', canary_label='canary', param=tags, replay=functools.partial(replay, items)))
    only = os.environ.get('VERIF_ONLY')          # development aid: restrict to groups matching a regex
    if only:
        groups = [g for g in groups if re.search(only, g.name)]
    return groups
