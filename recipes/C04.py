"""C04 - memory-pool accounting matches its live reservations (same translation unit as C03)."""
from recipes import C03

LEVEL = 'other'
EXPLANATION = ('Same translation unit and harness as C03 (see there); this property owns the accounting obligations: '
               'numReservations() == number of live reservations, reserved() == size of the union of the live ranges rounded '
               'out to the alignment (reference computed by a sweep over the sorted ranges, a different algorithm from the '
               'incremental one in the code), size() >= reserved(), reserved() == 0 once everything is released, resizing below '
               'reserved() and alignment 0 raise, and the device accounting of the backing buffers (C05 for pools).')
TRUSTED = C03.TRUSTED
ASSUMPTIONS = C03.ASSUMPTIONS
NOT_REACHED = C03.NOT_REACHED


def build(ctx):
    return C03.build(ctx, prop='C04')
