"""C10 - kernel argument validation accepts exactly the compatible argument lists
(decision logic of modeKernel_t::setupRun only) + safety of the cast rule.

Part A: the real text of modeKernel_t::setupRun, kernelArgData::getModeMemory,
kernelMetadata_t::isInitialized and primitive::isNaN/isPointer/isNull compiled by the
C++ front end inside a skeleton (contracts/C10/skeleton.hpp); argument and parameter
lists of <= N entries with fully symbolic entries; canBeCastedTo an uninterpreted but
consistent predicate.  Contract = the property's sentence.

Part B: the real text of dtype_t::canBeCastedTo, isCyclic, operator==, operator!=,
self() over arbitrary flattened type vectors of <= F entries: no division by zero,
no out-of-range access; isCyclic's functional contract.
"""
import os
import re

from vp.core import Group, Undecided
from vp.extract import extract_function, extract_block, rewrite
from recipes.C14 import WS

LEVEL = 'other'
EXPLANATION = (
    'Decision logic of modeKernel_t::setupRun: the real function text (plus kernelArgData::getModeMemory, '
    'kernelMetadata_t::isInitialized, primitive::isNull/isNaN/isPointer) is compiled by the C++ front end inside a skeleton; for '
    'every argument list and parameter list of at most N entries (N = 2 quick, 3 thorough) with fully symbolic entries '
    '(memory or not, any primitive tag bits, NULL or non-NULL pointer, any of 3 dtype identities, isPtr flag), any cast relation '
    '(uninterpreted but consistent) and any value of metadata.initialized / type_validation, CBMC proves: the run raises when the '
    'counts differ, when memory-vs-pointer kinds mismatch, when a memory dtype cannot be cast; every compatible list returns '
    'normally; exactly those; nothing is modified.  Cast rule: dtype_t::canBeCastedTo/isCyclic real text over arbitrary flattened '
    'vectors of at most F entries (F = 3 quick, 4 thorough): absence of division by zero and out-of-range access, and the '
    'functional contract of isCyclic.  Bounded by N and F (loops unwound with unwinding assertions).')
TRUSTED = ['cbmc 6.11.0 C++ front end, SAT back end',
           'contracts/C10/skeleton.hpp: skeleton classes (member names/types checked against the real headers each run), fixed-capacity '
           'vector stubs with asserted indices, json::get<bool> as an uninterpreted-but-consistent lookup, OCCA_ERROR/OCCA_FORCE_ERROR as '
           '"record and return" (setupRun is void and calls nothing that raises), message operands dropped',
           'contracts/C10/cast_skeleton.hpp: dtype_t reduced to ref + flatDtype, setFlattenedDtype() a no-op over arbitrary vectors']
ASSUMPTIONS = ['at most N arguments / parameters and F flattened entries (stated bound)',
               'canBeCastedTo is an uninterpreted but consistent predicate of (memory dtype, parameter dtype) in Part A; 3 dtype identities',
               'a live modeMemory_t has a non-NULL dtype_ (set by every modeMemory_t constructor)',
               '"null" is primitive::isNull (real text): the none tag bit, or the ptr tag bit with a NULL pointer',
               'validation is on: metadata.isInitialized() and properties type_validation (default true); otherwise the code checks nothing, stated as its own obligation']
NOT_REACHED = ['the cast lattice itself (its only specification is the code) beyond safety and the equal-length case',
               'metadata extraction by the parser (parser_t::setSourceMetadata), metadata read back from build.json: fresh-vs-cached equality',
               'kernel::run / kernelArg flattening of nested arguments (kernelArg::add), the launch itself',
               'dtype_t::setFlattenedDtype / addFlatDtypes (recursive over struct/tuple/union maps)']

KERNEL_CPP = 'src/occa/internal/core/kernel.cpp'
KERNEL_HPP = 'src/occa/internal/core/kernel.hpp'
KARG_CPP = 'src/core/kernelArg.cpp'
KARG_HPP = 'include/occa/core/kernelArg.hpp'
META_CPP = 'src/occa/internal/lang/kernelMetadata.cpp'
META_HPP = 'src/occa/internal/lang/kernelMetadata.hpp'
PRIM_HPP = 'include/occa/types/primitive.hpp'
MEM_HPP = 'src/occa/internal/core/memory.hpp'
DTYPE_CPP = 'src/dtype/dtype.cpp'
DTYPE_HPP = 'include/occa/dtype/dtype.hpp'


def need(ctx, rel, rx, what):
    if not re.search(rx, ctx.read(rel), re.S):
        raise Undecided('extraction break: %s: %s' % (rel, what))


def unit_a(ctx):
    fns = []
    need(ctx, KERNEL_HPP, r'std::vector<kernelArgData> arguments;\s*lang::kernelMetadata_t metadata;', 'modeKernel_t::arguments/metadata')
    need(ctx, KERNEL_HPP, r'std::string name;.*?occa::json properties;\s*hash_t hash;', 'modeKernel_t::name/properties/hash')
    need(ctx, KARG_HPP, r'class kernelArgData \{\s*public:\s*primitive value;\s*udim_t ptrSize;\s*occa::modeMemory_t \*modeMemory;', 'kernelArgData members')
    need(ctx, META_HPP, r'class argMetadata_t \{\s*public:\s*bool isConst;\s*bool isPtr;\s*dtype_t dtype;', 'argMetadata_t members')
    need(ctx, META_HPP, r'bool initialized;.*?std::vector<argMetadata_t> arguments;', 'kernelMetadata_t members')
    need(ctx, MEM_HPP, r'const dtype_t \*dtype_;', 'modeMemory_t::dtype_')
    need(ctx, PRIM_HPP, r'char\* ptr;\s*\} value;', 'primitive::value.ptr')
    tags = extract_block(ctx, PRIM_HPP, r'^\s*namespace primitiveType \{', name='namespace primitiveType')
    fns.append(tags)
    ntags = len(re.findall(r'static const int (\w+)\s*=', tags.text))
    tags_cpp = rewrite(tags, [
        ('static const int N = e; -> enumerator (the C++ front end gives constants DERIVED from other constants a wrong value; '
         'enumerators are folded correctly)', r'static const int (\w+)(\s*)=([^;]*);', r'\1\2=\3,', ntags),
        ('... inside one anonymous enum of the same namespace', r'(namespace primitiveType \{)', r'\1 enum {', 1),
        ('... inside one anonymous enum of the same namespace', r'\}\s*\Z', '}; }', 1)])
    preds = []
    for nm in ('isNaN', 'isPointer', 'isNull'):
        f = extract_function(ctx, PRIM_HPP, WS('inline bool %s() const {' % nm), name='primitive::%s' % nm)
        fns.append(f)
        preds.append(f.text)
    skel = ctx.contract('C10/skeleton.hpp')
    for ph in ('/*@PRIMITIVE_TYPE@*/', '/*@PRIMITIVE_PREDICATES@*/'):
        if skel.count(ph) != 1:
            raise Undecided('skeleton.hpp: placeholder %s missing' % ph)
    skel = skel.replace('/*@PRIMITIVE_TYPE@*/', tags_cpp).replace('/*@PRIMITIVE_PREDICATES@*/', '\n'.join(preds))
    gm = extract_function(ctx, KARG_CPP, WS('occa::modeMemory_t* kernelArgData::getModeMemory() const {'), name='kernelArgData::getModeMemory')
    ii = extract_function(ctx, META_CPP, WS('bool kernelMetadata_t::isInitialized() const {'), name='kernelMetadata_t::isInitialized')
    sr = extract_function(ctx, KERNEL_CPP, WS('void modeKernel_t::setupRun() {'), name='modeKernel_t::setupRun')
    fns += [gm, ii, sr]
    text = '\n'.join([skel, 'namespace occa {', gm.text, 'namespace lang {', ii.text, '}', sr.text, '}', ctx.contract('C10/harness.cpp')])
    return text, fns


def unit_b(ctx):
    fns = []
    need(ctx, DTYPE_HPP, r'const dtype_t \*ref;', 'dtype_t::ref')
    need(ctx, DTYPE_HPP, r'mutable dtypeVector_t flatDtype;', 'dtype_t::flatDtype')
    need(ctx, DTYPE_HPP, r'typedef std::vector<const dtype_t\*>\s+dtypeVector_t;', 'dtypeVector_t')
    selfx = extract_function(ctx, DTYPE_HPP, WS('inline const dtype_t& self() const {'), name='dtype_t::self')
    fns.append(selfx)
    skel = ctx.contract('C10/cast_skeleton.hpp')
    if skel.count('/*@SELF@*/') != 1:
        raise Undecided('cast_skeleton.hpp: placeholder missing')
    self_text = rewrite(selfx, [
        ('conditional lvalue `ref ? *ref : *this` -> `*(ref ? ref : this)` (same object, [expr.cond]/[expr.unary.op]); symbolic execution '
         'crashes on the conditional lvalue, and the front end mistypes the const reference return, hence the cast',
         r'return ref \? \*ref : \*this;', 'return *((dtype_t*) (ref ? ref : this));', 1)])
    skel = skel.replace('/*@SELF@*/', self_text)
    parts = []
    for sig, name in [('bool dtype_t::operator == (const dtype_t &other) const {', 'dtype_t::operator=='),
                      ('bool dtype_t::operator != (const dtype_t &other) const {', 'dtype_t::operator!='),
                      ('bool dtype_t::canBeCastedTo(const dtype_t &other) const {', 'dtype_t::canBeCastedTo'),
                      ('bool dtype_t::isCyclic(const dtypeVector_t &vec, const int cycleLength) {', 'dtype_t::isCyclic')]:
        f = extract_function(ctx, DTYPE_CPP, WS(sig), name=name)
        fns.append(f)
        parts.append(f.text)
    text = '\n'.join([skel, 'namespace occa {'] + parts + ['}', ctx.contract('C10/cast_harness.cpp')])
    return text, fns


def build(ctx):
    from vp import replay_C10
    thorough = ctx.tier == 'thorough'
    rep = None if os.environ.get('C10_NO_REPLAY') else replay_C10.replay
    groups = []
    ta, fa = unit_a(ctx)
    for n in ([2, 3] if thorough else [2]):
        groups.append(Group(
            name='setupRun/args<=%d' % n, sources={'c10.cpp': ta}, entry='h_setupRun', lang='cpp',
            defines=['VERIF_MAXARGS=%d' % n], unwind=max(n + 2, 17), object_bits=10, min_obligations=10, functions=fa,
            canary='CANARY', canary_label='canary', strength='bounded', bound='at most %d arguments and parameters, 3 dtype identities' % n,
            timeout=600, param='N=%d' % n, replay=rep,
            note='unwind covers the argument loop (N+1) and the 16-character key comparison of the json stub'))
    tb, fb = unit_b(ctx)
    f = 4 if thorough else 3
    for entry, mino in [('h_isCyclic', 4), ('h_canBeCastedTo', 6)]:
        groups.append(Group(
            name='cast/%s' % entry[2:], sources={'cast.cpp': tb}, entry=entry, lang='cpp',
            defines=['VERIF_FLAT=%d' % f], unwind=f + 2, object_bits=10, min_obligations=mino, functions=fb,
            canary='CANARY', canary_label='canary', strength='bounded', bound='flattened types of at most %d entries' % f,
            timeout=600, param='F=%d' % f, replay=rep))
    only = os.environ.get('C10_ONLY')
    if only:
        groups = [g for g in groups if re.search(only, g.name)]
    return groups
