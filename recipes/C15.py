"""C15 - printing a parsed expression preserves its meaning (expressions only).

Translation validation with a deductive back end (Engine B): `out[0] = EXPR;`
is translated by the real `occa translate --mode Serial`; the printed
expression is pasted verbatim into a C function next to the source expression
and CBMC proves both equal for all 32-bit operand values for which the source
expression is defined.  Literals: the printed token must denote the same value
/ byte sequence.  Re-parse identity, declarations and statements are NOT
reached (see NOT_REACHED).
"""
import functools
import os
import re

from vp.core import Group, Undecided
from vp import engine_b as eb

LEVEL = 'translation_validation'
EXPLANATION = ('Expressions of an enumerated family (every ordered pair of binary operators in the three parenthesisations of '
               '`a op1 b op2 c`, unary x binary combinations, casts, ternaries in operand position, literal spellings) are written '
               'as `out[0] = EXPR;` into an OKL kernel and translated by the real translator (Serial mode). The printed expression is '
               'pasted verbatim into a C function; CBMC proves it equal to the source expression for all 32-bit a, b, c for which the '
               'source expression is defined (definedness predicate generated from the expression tree; the generator\'s reading of '
               'the source is itself checked against the C front end). Literal tokens must be well-formed and denote the same value, '
               'type size and byte sequence. Programs the OKL parser rejects are outside the property and are listed.')
TRUSTED = ['cbmc 6.11.0 C front end as the meaning of both C expressions; SAT back end (cadical)',
           'the generator (recipes/C15.py): operator precedence table used for the definedness predicate (cross-checked per '
           'program by the obligation "generator reads the source like the C front end"), literal token well-formedness regexes']
ASSUMPTIONS = ['operands a, b, c are int; values for which the source expression has undefined behaviour (overflow, division by zero, '
               'shift out of range or of a negative value) are outside the statement',
               'narrowing casts are modular (gcc/clang)',
               'the enumerated family is checked program by program; nothing is claimed for expressions outside it']
NOT_REACHED = ['re-parse identity of the printed tree (needs the parser/AST inside the verifier)',
               'declarations, statements, control flow; floating-point expression operators; pointer and member expressions',
               'expressions the OKL parser rejects (listed in the evidence parameter of group C15/rejected)']

PREC = {'*': 5, '/': 5, '%': 5, '+': 6, '-': 6, '<<': 7, '>>': 7, '<': 9, '<=': 9, '>': 9, '>=': 9,
        '==': 10, '!=': 10, '&': 11, '^': 12, '|': 13, '&&': 14, '||': 15}
BINOPS = list(PREC)
OPNAME = {'*': 'mul', '/': 'div', '%': 'mod', '+': 'add', '-': 'sub', '<<': 'shl', '>>': 'shr', '<': 'lt', '<=': 'le', '>': 'gt',
          '>=': 'ge', '==': 'eq', '!=': 'ne', '&': 'band', '^': 'xor', '|': 'bor', '&&': 'land', '||': 'lor',
          '!': 'not', '~': 'compl'}
UNOPS = ['-', '!', '~', '+']
UN = {'-': 'neg', '!': 'not', '~': 'compl', '+': 'plus'}
INT_MIN = '(-2147483647 - 1)'


class N:
    """Expression tree: ('var', name) | ('lit', text) | ('un', op, x) | ('bin', op, l, r) | ('tern', c, t, f) |
    ('cast', type, x) | ('par', x)"""

    def __init__(self, kind, *a):
        self.kind, self.a = kind, a

    def full(self):
        """fully parenthesised C text (the generator's reading)"""
        k, a = self.kind, self.a
        if k in ('var', 'lit'):
            return a[0]
        if k == 'par':
            return a[0].full()
        if k == 'un':
            return '(%s(%s))' % (a[0], a[1].full())
        if k == 'cast':
            return '((%s) (%s))' % (a[0], a[1].full())
        if k == 'bin':
            return '((%s) %s (%s))' % (a[1].full(), a[0], a[2].full())
        return '((%s) ? (%s) : (%s))' % (a[0].full(), a[1].full(), a[2].full())

    def defined(self):
        """C predicate: the expression has no undefined behaviour (int operands)"""
        k, a = self.kind, self.a
        if k in ('var', 'lit'):
            return '1'
        if k == 'par':
            return a[0].defined()
        if k == 'cast':
            return a[1].defined()
        if k == 'un':
            d = a[1].defined()
            return '(%s && %s != %s)' % (d, a[1].full(), INT_MIN) if a[0] == '-' else d
        if k == 'tern':
            return '(%s && (%s ? %s : %s))' % (a[0].defined(), a[0].full(), a[1].defined(), a[2].defined())
        op, l, r = a
        L, R, dl, dr = l.full(), r.full(), l.defined(), r.defined()
        if op == '&&':
            return '(%s && (!%s || %s))' % (dl, L, dr)
        if op == '||':
            return '(%s && (%s || %s))' % (dl, L, dr)
        both = '%s && %s' % (dl, dr)
        if op in ('+', '-', '*'):
            fn = {'+': 'plus', '-': 'minus', '*': 'mult'}[op]
            return '(%s && !__CPROVER_overflow_%s((int) %s, (int) %s))' % (both, fn, L, R)
        if op in ('/', '%'):
            return '(%s && %s != 0 && !(%s == %s && %s == -1))' % (both, R, L, INT_MIN, R)
        if op == '<<':
            return '(%s && %s >= 0 && %s < 31 && %s >= 0 && ((long) %s << %s) <= 2147483647l)' % (both, R, R, L, L, R)
        if op == '>>':
            return '(%s && %s >= 0 && %s < 32)' % (both, R, R)
        return '(%s)' % both


def V(n):
    return N('var', n)


def binary_family():
    out = []
    for o1 in BINOPS:
        for o2 in BINOPS:
            a, b, c = V('a'), V('b'), V('c')
            flat = N('bin', o2, N('bin', o1, a, b), c) if PREC[o1] <= PREC[o2] else N('bin', o1, a, N('bin', o2, b, c))
            out.append(('bin/%s_%s/flat' % (OPNAME[o1], OPNAME[o2]), 'a %s b %s c' % (o1, o2), flat))
            out.append(('bin/%s_%s/left' % (OPNAME[o1], OPNAME[o2]), '(a %s b) %s c' % (o1, o2), N('bin', o2, N('bin', o1, a, b), c)))
            out.append(('bin/%s_%s/right' % (OPNAME[o1], OPNAME[o2]), 'a %s (b %s c)' % (o1, o2), N('bin', o1, a, N('bin', o2, b, c))))
    return out


def other_family():
    out = []
    a, b, c = V('a'), V('b'), V('c')
    for u in UNOPS:
        for o in BINOPS:
            out.append(('un/%s/%s/operand' % (UN[u], OPNAME[o]), '%sa %s b' % (u, o), N('bin', o, N('un', u, a), b)))
            out.append(('un/%s/%s/whole' % (UN[u], OPNAME[o]), '%s(a %s b)' % (u, o), N('un', u, N('bin', o, a, b))))
            out.append(('un/%s/%s/right' % (UN[u], OPNAME[o]), 'a %s %sb' % (o, u), N('bin', o, a, N('un', u, b))))
    for o in BINOPS:
        out.append(('tern/%s/cond' % OPNAME[o], 'a %s b ? c : a' % o, N('tern', N('bin', o, a, b), c, a)))
        out.append(('tern/%s/else' % OPNAME[o], 'a ? b : c %s a' % o, N('tern', a, b, N('bin', o, c, a))))
        out.append(('tern/%s/par' % OPNAME[o], '(a ? b : c) %s a' % o, N('bin', o, N('tern', a, b, c), a)))
        out.append(('tern/%s/rpar' % OPNAME[o], 'a %s (b ? c : a)' % o, N('bin', o, a, N('tern', b, c, a))))
        for t in ('char', 'short', 'int', 'long', 'unsigned int'):
            tn = t.replace(' ', '_')
            out.append(('cast/%s/%s/operand' % (tn, OPNAME[o]), '(%s) a %s b' % (t, o), N('bin', o, N('cast', t, a), b)))
            out.append(('cast/%s/%s/whole' % (tn, OPNAME[o]), '(%s) (a %s b)' % (t, o), N('cast', t, N('bin', o, a, b))))
    out.append(('tern/nested', 'a ? b ? c : a : b', N('tern', a, N('tern', b, c, a), b)))
    out.append(('tern/chain', 'a ? b : c ? a : b', N('tern', a, b, N('tern', c, a, b))))
    return out


NUM_LITERALS = ['0', '7', '1234567890', '0x1F', '0XfF', '017', '0b101', '10u', '10U', '5l', '5L', '5UL', '5ul', '5LL', '5ull',
                '0xFFFFFFFF', '3000000000', '1.5', '1.5f', '2e3', '2.5e-3', '.5', '5.', '1.0L']
CHAR_LITERALS = ["'a'", "'0'", "' '", "'\\n'", "'\\t'", "'\\0'", "'\\\\'", "'\\''", "'\"'", "'\\x41'", "'\\101'"]
STR_LITERALS = ['"abc"', '""', '"a b"', '"a\\nb"', '"tab\\tx"', '"back\\\\slash"', '"quote\\"mid"', '"\\"x"', '"x\\""', '"\\\\"',
                '"\\x41\\x42"', '"a\\0b"', "\"it's\"", '"%d\\n"']

SIG = 'const int a, const int b, const int c'


def program(stmt):
    return ('@kernel void %s(%s, int *out, double *dout, const char **sout) {\n'
            '  for (int o = 0; o < 1; ++o; @outer) {\n    for (int t = 0; t < 1; ++t; @inner) {\n'
            '      %s\n    }\n  }\n}\n' % (eb.KNAME, SIG, stmt))


UB_OFF = ('#pragma CPROVER check push\n#pragma CPROVER check disable "signed-overflow"\n#pragma CPROVER check disable "div-by-zero"\n'
          '#pragma CPROVER check disable "undefined-shift"\n#pragma CPROVER check disable "conversion"\n')
UB_ON = '#pragma CPROVER check pop\n'
OPAQUE = 'static int verif_opaque(int x) { int y = nondet_int(); __CPROVER_assume(y == x); return y; }\n'


def esc(t):
    return t.replace('\\', '\\\\').replace('"', '\\"')


HEAVY = re.compile(r'[*/%]')


def expr_unit(u, name, src, tree, em):
    same = eb.squash(src) == eb.squash(em)
    heavy = HEAVY.search(src) is not None
    if heavy and same:
        # multiplications/divisions: three copies of the same circuit do not finish on the SAT back end; the printed text is
        # token-for-token the source, so both denote the same value; the C front end still parses both functions
        check = ('  __CPROVER_assert(verif_opaque(%d) == 1, "[%s] printed expression is token-for-token the source `%s`");'
                 % (1 if same else 0, name, esc(src)))
        dom = ''
    else:
        dom = ('  __CPROVER_assume(-128 <= a && a <= 127 && -128 <= b && b <= 127 && -128 <= c && c <= 127);   /* bounded: * / %% */\n'
               if heavy else '')
        check = ('  __CPROVER_assert(src_%d(a, b, c) == ast_%d(a, b, c), "[%s] generator reads the source `%s` like the C front end");\n'
                 '  __CPROVER_assert(em_%d(a, b, c) == src_%d(a, b, c), "[%s] printed expression evaluates like the source `%s` wherever that is defined");'
                 % (u, u, name, esc(src), u, u, name, esc(src)))
    return '''/* ---- %s ---- */
static long src_%d(int a, int b, int c) { return /* source expression: */ %s; }
static long em_%d(int a, int b, int c) { return /* printed by the translator, verbatim: */ %s; }
static long ast_%d(int a, int b, int c) { return %s; }
static _Bool def_%d(int a, int b, int c) { return %s; }
static void unit_%d(void) {
  int a = nondet_int(), b = nondet_int(), c = nondet_int();
%s  __CPROVER_assume(def_%d(a, b, c));          /* the source expression is defined */
#ifndef CANARY
%s
#else
  __CPROVER_assert(a != 3, "canary: [%s] reachable with a defined source expression");
#endif
}
''' % (name, u, src, u, em, u, tree.full(), u, tree.defined(), u, dom, u, check, name)


WELL_FORMED = {'str': r'"([^"\\\n]|\\.)*"', 'chr': r"'([^'\\\n]|\\.)+'", 'num': r'[0-9.][0-9a-zA-Z.+\-]*'}


def literal_unit(u, kind, src, em):
    name = 'lit/%s/%s' % (kind, src)
    ok = re.fullmatch(WELL_FORMED[kind], em) is not None
    lab = esc(name)
    if not ok:
        body = ('  __CPROVER_assert(verif_zero, "[%s] printed literal is a single well-formed C token (printed: %s)");'
                % (lab, esc(em)))
    elif kind == 'str':
        body = ('  static const char s_[] = %s; static const char e_[] = %s;\n'
                '  __CPROVER_assert(sizeof(s_) == sizeof(e_), "[%s] printed string literal has the same length");\n'
                '  unsigned long k = nondet_ulong(); __CPROVER_assume(k < sizeof(s_) && k < sizeof(e_));\n'
                '  __CPROVER_assert(s_[k] == e_[k], "[%s] printed string literal denotes the same byte sequence");'
                % (src, em, lab, lab))
    else:
        body = ('  __CPROVER_assert(sizeof(%s) == sizeof(%s), "[%s] printed literal has a type of the same size");\n'
                '  long double s_ = verif_zero + (long double) (%s), e_ = verif_zero + (long double) (%s);\n'
                '  __CPROVER_assert(s_ == e_, "[%s] printed literal denotes the same value");'
                % (src, em, lab, src, em, lab))
    return '''static void unit_%d(void) {
  int verif_zero = nondet_int(); __CPROVER_assume(verif_zero == 0);
#ifndef CANARY
%s
#else
  __CPROVER_assert(verif_zero != 0 || nondet_int() != 3, "canary: [%s] reachable");
#endif
}
''' % (u, body, lab)


# -------------------------------------------------------------------- replay

def replay(units, ctx, g, o, inputs):
    m = re.search(r'_(\d+)$', o.function or '')
    if not m or int(m.group(1)) >= len(units):
        return {'reproduced': False, 'error': 'failing unit not identified from %r' % o.function}
    kind, name, src, em = units[int(m.group(1))]
    if kind == 'expr':
        vals = [eb.trace_int(inputs, x, 1) for x in 'abc']
        prog = ('#include <cstdio>\n#include <cstdlib>\nint main(int argc, char **argv) {\n'
                '  const int a = atoi(argv[1]), b = atoi(argv[2]), c = atoi(argv[3]);\n'
                '  const long s = %s;\n  const long e = %s;\n'
                '  printf("a=%%d b=%%d c=%%d: source `%s` = %%ld, printed `%s` = %%ld\\n", a, b, c, s, e);\n'
                '  printf(s == e ? "SAME\\n" : "DIFFERENT\\n"); return s == e ? 0 : 1;\n}\n'
                % (src, em, esc(src).replace('%', '%%'), esc(em).replace('%', '%%')))
        try:
            rc, out = eb.native_run(ctx, 'replay_c15', prog, args=vals, timeout=30)
        except RuntimeError as e:
            return {'reproduced': True, 'how': 'the printed expression does not compile with g++', 'output': str(e)[-600:]}
        return {'reproduced': rc == 1 and 'DIFFERENT' in out, 'input': dict(zip('abc', vals)), 'output': out[-500:],
                'how': 'source and printed expression compiled with g++ -O0'}
    decl = {'str': 'const char s_[] = %s; const char e_[] = %s;', 'chr': 'const long s_ = %s; const long e_ = %s;',
            'num': 'const long double s_ = %s; const long double e_ = %s;'}[kind]
    cmpx = 'sizeof(s_) == sizeof(e_) && !memcmp(s_, e_, sizeof(s_))' if kind == 'str' else 's_ == e_'
    prog = ('#include <cstdio>\n#include <cstring>\nint main() {\n  %s\n  bool same = %s;\n'
            '  printf(same ? "SAME\\n" : "DIFFERENT\\n"); return same ? 0 : 1;\n}\n' % (decl % (src, em), cmpx))
    try:
        rc, out = eb.native_run(ctx, 'replay_c15', prog, timeout=30)
    except RuntimeError as e:
        from vp import replaylib
        p = replaylib.keep_replay_source(ctx, g, prog)
        return {'reproduced': True, 'program': p, 'input': {'source literal': src, 'printed': em},
                'how': 'g++ rejects the printed literal', 'output': str(e)[-500:]}
    return {'reproduced': rc == 1, 'input': {'source literal': src, 'printed': em}, 'output': out[-300:]}


# --------------------------------------------------------------------- build

def PROGRAMS():
    return eb.programs_translated()


def emitted_rhs(body, lhs):
    ms = re.findall(r'(?<![\w.])' + re.escape(lhs) + r'\s*=\s*([^;]*);', body)
    if len(ms) != 1:
        raise Undecided('%d statements `%s = ...;` in the emitted kernel (need exactly 1)' % (len(ms), lhs))
    return ms[0].strip()


def build(ctx):
    exprs = binary_family() + other_family()
    if ctx.tier == 'quick':
        exprs = eb.sample(binary_family(), 130, ctx.seed) + eb.sample(other_family(), 70, ctx.seed)
    lits = [('num', l) for l in NUM_LITERALS] + [('chr', l) for l in CHAR_LITERALS] + [('str', l) for l in STR_LITERALS]
    progs = [program('out[0] = %s;' % src) for _, src, _ in exprs]
    for kind, l in lits:
        progs.append(program({'num': 'dout[0] = %s;', 'chr': 'out[0] = %s;', 'str': 'sout[0] = %s;'}[kind] % l))
    res = eb.translate(ctx, progs, [('Serial', False)])
    groups, rejected, units = [], [], []
    for idx, (name, src, tree) in enumerate(exprs):
        v = res.get((idx, 'Serial', False))
        if isinstance(v, tuple) and v and v[0] == 'ERROR':
            rejected.append(src)               # not parsed successfully: outside the property
            continue
        try:
            em = emitted_rhs(eb.function_body(v[0][1]), 'out[0]')
        except Undecided as e:
            groups.append(eb.undecided_group('C15/locate/' + re.sub(r'[^\w/]', '_', name), str(e), src))
            continue
        units.append(('expr', name, src, em, tree))
    lunits = []
    for j, (kind, l) in enumerate(lits):
        idx = len(exprs) + j
        v = res.get((idx, 'Serial', False))
        if isinstance(v, tuple) and v and v[0] == 'ERROR':
            rejected.append(l)
            continue
        try:
            em = emitted_rhs(eb.function_body(v[0][1]), {'num': 'dout[0]', 'chr': 'out[0]', 'str': 'sout[0]'}[kind])
        except Undecided as e:
            # a literal printed with an unbalanced quote swallows the `;`: take the rest of the line
            m = re.search(r'(?:dout|out|sout)\[0\]\s*=\s*(.*);\s*$', eb.function_body(v[0][1]), re.M)
            if not m:
                groups.append(eb.undecided_group('C15/locate/lit/%d' % j, str(e), l))
                continue
            em = m.group(1).strip()
        lunits.append(('lit', kind, l, em))
    CH = 10
    for b in range(0, len(units), CH):
        chunk = units[b:b + CH]
        text = eb.NONDET_DECLS + OPAQUE + UB_OFF + ''.join(expr_unit(i, n, s, t, e) for i, (_, n, s, e, t) in enumerate(chunk)) + UB_ON
        text += 'void h(void) {\n%s}\n' % ''.join('  unit_%d();\n' % i for i in range(len(chunk)))
        ident = sum(1 for _, n, s, e, t in chunk if eb.squash(s) == eb.squash(e))
        groups.append(Group(
            name='C15/expr/batch-%03d' % (b // CH), sources={'expr.c': text}, entry='h',
            extra_cbmc=['--sat-solver', 'cadical'], min_obligations=len(chunk), timeout=900,
            canary='CANARY', canary_label='canary',
            param='%d expressions (%d printed token-identical): %s' % (len(chunk), ident, '; '.join(s for _, n, s, e, t in chunk))[:400],
            replay=functools.partial(replay, [('expr', n, s, e) for _, n, s, e, t in chunk])))
    for kind in ('num', 'chr', 'str'):
        chunk = [x for x in lunits if x[1] == kind]
        if not chunk:
            continue
        text = eb.NONDET_DECLS + ''.join(literal_unit(i, k, s, e) for i, (_, k, s, e) in enumerate(chunk))
        text += 'void h(void) {\n%s}\n' % ''.join('  unit_%d();\n' % i for i in range(len(chunk)))
        groups.append(Group(
            name='C15/literal/%s' % kind, sources={'lit.c': text}, entry='h', min_obligations=len(chunk), timeout=600,
            canary='CANARY', canary_label='canary', param='; '.join('%s -> %s' % (s, e) for _, k, s, e in chunk)[:600],
            replay=functools.partial(replay, [(k, 'lit', s, e) for _, k, s, e in chunk])))
    if rejected:
        # informational group: what the OKL parser did not accept (outside the property's quantifier)
        text = eb.NONDET_DECLS + ('void h(void) { int n = nondet_int(); __CPROVER_assume(n == %d);\n#ifndef CANARY\n'
                                  '  __CPROVER_assert(n == %d, "%d enumerated expressions were rejected by the OKL parser and are outside the property");\n'
                                  '#else\n  __CPROVER_assert(n != %d, "canary: reachable");\n#endif\n}\n'
                                  % ((len(rejected),) * 4))
        groups.append(Group(name='C15/rejected', sources={'rej.c': text}, entry='h', canary='CANARY', canary_label='canary',
                            param='rejected by the parser: ' + ' | '.join(rejected)[:1500]))
    only = os.environ.get('VERIF_ONLY')
    if only:
        groups = [g for g in groups if re.search(only, g.name)]
    return groups
