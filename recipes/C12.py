"""C12 - the tokenizer never crashes and re-reads its own token spellings (leaf level).

Scanner memory safety / termination / stop conditions by function and loop
contracts on the mechanically C-extracted real text (dfcc), and the
escape/unescape codec through the C++ front end (bounded)."""
import re

from vp.core import Group, Undecided
from vp.extract import extract_function, extract_block, extract_span, rewrite, insert_loop_contracts

LEVEL = 'other'
EXPLANATION = (
    'Leaf level of C12.  (1) Every function of lex.cpp, (2) the cursor loops of tokenizer_t '
    '(skipTo x2, skipFrom, the loops of countSkippedLines and getRawString) and (3) the cursor handling of '
    'primitive::load/loadHex/loadBinary are C-extracted by must-fire rewrite rules from the current tree and '
    'proved against CBMC function contracts + loop contracts (dfcc) for a NUL-terminated buffer of ANY length '
    '<= 10^8 with arbitrary content (further NULs may occur anywhere): the cursor stays in the buffer object, '
    'never moves backwards, the function terminates (decreases clauses), stops at NUL or at its documented '
    'delimiter, passed-over positions satisfy the documented skip condition (ghost index), and nothing but the '
    'cursor (and line bookkeeping) is assigned.  Callers are checked against callee contracts.  '
    '(4) escape/unescape are compiled by the C++ front end from their real text: round trip and '
    '"every quote in the output is escaped" for every byte string up to the tier bound (bounded).')
TRUSTED = ['cbmc 6.11.0 C and C++ front ends, goto-instrument --dfcc (contract instrumentation), SAT back end',
           'C extraction rules of DESIGN 4.2: reference parameter -> pointer + #define alias, ns::name -> ns_name, '
           'overloads numbered by signature, bool -> _Bool (stdbool.h)',
           'stubs/string: fixed-capacity std::string (capacity asserted on every append)',
           'C mirror of class filePosition generated from the real member list (names checked every run)',
           'C model of class primitive reduced to its `type` field; primitiveType enumerators parsed from the real header']
ASSUMPTIONS = [
    'LP64, two\'s complement',
    'buffers are at most 10^8 bytes (is_fresh with symbolic size needs a bound far below 2^63; 10^8 exceeds any source file)',
    'set membership is specified exactly (quantifier free) only for character sets of at most 64 characters without '
    'interior NUL (longest set literal in libocca: 63); memory safety and termination hold for sets of any length',
    'tokenizer loops: fp.line + buffer length < 2^31 (no signed overflow of the line counter)',
    'getRawString end-pattern loop: the end pattern `)delim"` has at most 64 characters and no interior NUL '
    '(it is built from a buffer span that skipTo has passed over)',
    'assumed (not proved) contracts of libc strlen/strncmp and of parseInt/parseFloat/parseDouble, primitive '
    'constructors/to<T>() (reduced to the type tag) and std::string(c0, n) (checked: [c0, c0+n) is readable)',
]
NOT_REACHED = ['getToken/peek/shallowPeek dispatch, token classes, token printing (STL/AST)',
               'the token-sequence round trip as a whole; operator longest match is C28',
               'typing/value of literals (C14)']

LEX_CPP = 'src/occa/internal/utils/lex.cpp'
TOK_CPP = 'src/occa/internal/lang/tokenizer.cpp'
FILE_HPP = 'src/occa/internal/lang/file.hpp'
PRIM_CPP = 'src/types/primitive.cpp'
PRIM_HPP = 'include/occa/types/primitive.hpp'
STRING_CPP = 'src/occa/internal/utils/string.cpp'
STRING_HPP = 'src/occa/internal/utils/string.hpp'

GHOSTS = '''const char *verif_buf; size_t verif_len; size_t verif_g;
const char *verif_cs; size_t verif_cs_len;
'''

WS = r'\s*'


def sig(s):
    """Signature regex tolerant of whitespace: every blank run in s matches \\s*/\\s+."""
    parts = [re.escape(p) for p in s.split(' ')]
    return r'^[ \t]*' + r'\s*'.join(parts)


# ------------------------------------------------------------------ lex.cpp

REF_OPEN = '\n{\n#define c (*c_)'
REF_CLOSE = ('C: end of the reference alias', r'\}\s*\Z', '#undef c\n}', 1)

LEX_FUNCS = [
    # (C name, C signature, signature regex, extra rules, n loops, by-reference cursor)
    ('lex_inCharset', '_Bool lex_inCharset(const char c, const char *charset)',
     r'^[ \t]*bool\s+inCharset\s*\(\s*const\s+char\s+c\s*,\s*const\s+char\s*\*\s*charset\s*\)\s*\{', [], 1, False),
    ('lex_skipTo_c', 'void lex_skipTo_c(const char **c_, const char delimiter)',
     r'^[ \t]*void\s+skipTo\s*\(\s*const\s+char\s*\*\s*&\s*c\s*,\s*const\s+char\s+delimiter\s*\)\s*\{', [], 1, True),
    ('lex_skipTo_ce', 'void lex_skipTo_ce(const char **c_, const char delimiter, const char escapeChar)',
     r'^[ \t]*void\s+skipTo\s*\(\s*const\s+char\s*\*\s*&\s*c\s*,\s*const\s+char\s+delimiter\s*,\s*const\s+char\s+escapeChar\s*\)\s*\{',
     [], 1, True),
    ('lex_skipTo_s', 'void lex_skipTo_s(const char **c_, const char *delimiters)',
     r'^[ \t]*void\s+skipTo\s*\(\s*const\s+char\s*\*\s*&\s*c\s*,\s*const\s+char\s*\*\s*delimiters\s*\)\s*\{',
     [('C: lex::inCharset -> lex_inCharset', r'\binCharset\(', 'lex_inCharset(', 1)], 1, True),
    ('lex_skipTo_se', 'void lex_skipTo_se(const char **c_, const char *delimiters, const char escapeChar)',
     r'^[ \t]*void\s+skipTo\s*\(\s*const\s+char\s*\*\s*&\s*c\s*,\s*const\s+char\s*\*\s*delimiters\s*,\s*const\s+char\s+escapeChar\s*\)\s*\{',
     [('C: lex::inCharset -> lex_inCharset', r'\binCharset\(', 'lex_inCharset(', 1)], 1, True),
    ('lex_skipFrom', 'void lex_skipFrom(const char **c_, const char *delimiters)',
     r'^[ \t]*void\s+skipFrom\s*\(\s*const\s+char\s*\*\s*&\s*c\s*,\s*const\s+char\s*\*\s*delimiters\s*\)\s*\{',
     [('C: lex::inCharset -> lex_inCharset', r'\binCharset\(', 'lex_inCharset(', 1)], 1, True),
    ('lex_isWhitespace', '_Bool lex_isWhitespace(const char c)',
     r'^[ \t]*bool\s+isWhitespace\s*\(\s*const\s+char\s+c\s*\)\s*\{',
     [('C: lex::inCharset(c, whitespaceCharset) -> lex_ names', r'\binCharset\(c,\s*whitespaceCharset\)',
       'lex_inCharset(c, lex_whitespaceCharset)', 1)], 0, False),
    ('lex_skipWhitespace', 'void lex_skipWhitespace(const char **c_)',
     r'^[ \t]*void\s+skipWhitespace\s*\(\s*const\s+char\s*\*\s*&\s*c\s*\)\s*\{',
     [('C: reference argument c -> pointer c_, lex_ names', r'\bskipFrom\(c,\s*whitespaceCharset\)',
       'lex_skipFrom(c_, lex_whitespaceCharset)', 1)], 0, True),
    ('lex_skipToWhitespace', 'void lex_skipToWhitespace(const char **c_)',
     r'^[ \t]*void\s+skipToWhitespace\s*\(\s*const\s+char\s*\*\s*&\s*c\s*\)\s*\{',
     [('C: overload skipTo(const char*&, const char*) -> lex_skipTo_s, reference argument c -> pointer c_',
       r'\bskipTo\(c,\s*whitespaceCharset\)', 'lex_skipTo_s(c_, lex_whitespaceCharset)', 1)], 0, True),
]


def lex_unit(ctx):
    """All of lex.cpp as C text with contract macros attached; returns (text, {name: Extracted}, {name: nloops})."""
    src = ctx.read(LEX_CPP)
    # whole-file check: every function definition of lex.cpp is one we extract
    ndefs = len(re.findall(r'^[ \t]*(?:bool|void)\s+\w+\s*\([^)]*\)\s*\{', src, re.M))
    if ndefs != len(LEX_FUNCS):
        raise Undecided('extraction break: lex.cpp defines %d functions, the recipe knows %d' % (ndefs, len(LEX_FUNCS)))
    ws = extract_span(ctx, LEX_CPP, r'^[ \t]*const char whitespaceCharset\[\]\s*=', r';', name='lex::whitespaceCharset')
    ws_c = rewrite(ws, [('C: lex::whitespaceCharset -> lex_whitespaceCharset', r'\bwhitespaceCharset\b', 'lex_whitespaceCharset', 1)])
    parts = [ws_c.strip()]
    exs = {'lex::whitespaceCharset': ws}
    for cname, csig, rx, extra, nloops, byref in LEX_FUNCS:
        ex = extract_function(ctx, LEX_CPP, rx, name=cname.replace('lex_', 'lex::'))
        rules = [('C: signature (+ contract macro)', rx,
                  csig + '\nCONTRACT_' + cname + (REF_OPEN if byref else '\n{'), 1)] + list(extra)
        if byref:
            rules.append(REF_CLOSE)
        text = rewrite(ex, rules)
        if nloops:
            text, found = insert_loop_contracts(text, {i: 'LOOP_%s_%d' % (cname, i) for i in range(nloops)}, cname)
            if found != nloops:
                raise Undecided('extraction break: %s has %d loops, contracts exist for %d' % (cname, found, nloops))
        parts.append(text)
        exs[cname] = ex
    return '\n\n'.join(parts), exs


LEX_HARNESS = {
    'lex_inCharset': 'char c; const char *cs; lex_inCharset(c, cs);',
    'lex_skipTo_c': 'const char **c; char d; lex_skipTo_c(c, d);',
    'lex_skipTo_ce': 'const char **c; char d, e; lex_skipTo_ce(c, d, e);',
    'lex_skipTo_s': 'const char **c; const char *ds; lex_skipTo_s(c, ds);',
    'lex_skipTo_se': 'const char **c; const char *ds; char e; lex_skipTo_se(c, ds, e);',
    'lex_skipFrom': 'const char **c; const char *ds; lex_skipFrom(c, ds);',
    'lex_isWhitespace': 'char c; verif_cs = lex_whitespaceCharset; verif_cs_len = sizeof(lex_whitespaceCharset) - 1; lex_isWhitespace(c);',
    'lex_skipWhitespace': 'const char **c; verif_cs = lex_whitespaceCharset; verif_cs_len = sizeof(lex_whitespaceCharset) - 1; lex_skipWhitespace(c);',
    'lex_skipToWhitespace': 'const char **c; verif_cs = lex_whitespaceCharset; verif_cs_len = sizeof(lex_whitespaceCharset) - 1; lex_skipToWhitespace(c);',
}
LEX_REPLACE = {
    'lex_skipTo_s': ['lex_inCharset'], 'lex_skipTo_se': ['lex_inCharset'], 'lex_skipFrom': ['lex_inCharset'],
    'lex_isWhitespace': ['lex_inCharset'], 'lex_skipWhitespace': ['lex_skipFrom'],
    'lex_skipToWhitespace': ['lex_skipTo_s'],
}
# canary: the state after the call must be reachable (requires satisfiable, loop invariants not vacuous)
CANARY_BUF = ('\n#ifdef CANARY\n  __CPROVER_assert(!(verif_len == 3 && verif_g == 1), '
              '"canary: state after the call is reachable");\n#endif\n')
CANARY_CS = ('\n#ifdef CANARY\n  __CPROVER_assert(verif_cs_len != 2, '
             '"canary: state after the call is reachable");\n#endif\n')


def lex_groups(ctx):
    unit, exs = lex_unit(ctx)
    src = '#include "C12/lex_contracts.h"\n' + GHOSTS + unit + '\n\n'
    for cname, body in LEX_HARNESS.items():
        canary = CANARY_CS if cname in ('lex_inCharset',) else CANARY_BUF
        if cname == 'lex_isWhitespace':
            canary = ('\n#ifdef CANARY\n  __CPROVER_assert(c != 11, "canary: state after the call is reachable");\n#endif\n')
        src += 'void h_%s(void) {\n  %s%s}\n' % (cname, body, canary)
    groups = []
    for cname, csig, rx, extra, nloops, byref in LEX_FUNCS:
        groups.append(Group(
            name='lex/' + cname[4:], sources={'lex.c': src}, entry='h_' + cname, lang='c',
            enforce=[cname], replace=LEX_REPLACE.get(cname, []), loop_contracts=True,
            expect_loops=nloops, min_obligations=10, functions=[exs[cname], exs['lex::whitespaceCharset']],
            canary='CANARY', canary_label='canary', strength='proof', timeout=600,
            note='buffer of symbolic length <= 10^8, arbitrary content; loop closed by loop contract'))
    return groups


def build(ctx):
    groups = []
    groups += lex_groups(ctx)
    return groups
