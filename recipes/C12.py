"""C12 - the tokenizer never crashes and re-reads its own token spellings (leaf level).

Scanner memory safety / termination / stop conditions by function and loop
contracts on the mechanically C-extracted real text (dfcc), and the
escape/unescape codec through the C++ front end (bounded)."""
import os
import re

from vp.core import Group, Undecided
from vp.extract import extract_function, extract_block, extract_span, rewrite, insert_loop_contracts
from vp import replay_C12

LEVEL = 'other'
EXPLANATION = (
    'Leaf level of C12.  (1) Every function of lex.cpp, (2) the cursor loops of tokenizer_t (skipTo x2, skipFrom, the '
    'loops of countSkippedLines and getRawString) with the four scan-then-step call sites (getString, getRawString, '
    'getCharToken, getHeader: skipTo("<c>\\n") followed by ++fp.start) and (3) the cursor handling of '
    'primitive::load/loadHex/loadBinary are C-extracted by must-fire rewrite rules from the current tree and proved '
    'against CBMC function contracts + loop contracts (dfcc) for a NUL-terminated buffer of ANY length <= 10^8 with '
    'arbitrary content (further NULs may occur anywhere): the cursor stays in the buffer object, never moves backwards, '
    'the function terminates (decreases clauses), stops at NUL or at its documented delimiter, passed-over positions '
    'satisfy the documented skip condition (ghost index), and nothing but the cursor (and line bookkeeping) is assigned.  '
    'Callers are checked against callee contracts.  (4) escape/unescape are compiled by the C++ front end from their '
    'real text: round trip, "every quote in the output is escaped" and "printing a literal body gives back its '
    'spelling" for every byte string up to the tier bound (bounded).')
TRUSTED = ['cbmc 6.11.0 C and C++ front ends, goto-instrument --dfcc (contract instrumentation), '
           'SAT back end (CaDiCaL; MiniSat for tokenizer/getRawString_endloop)',
           'C extraction rules of DESIGN 4.2: reference parameter -> pointer + #define alias, ns::name -> ns_name, '
           'overloads numbered by signature, bool -> _Bool (stdbool.h)',
           'stubs/string: fixed-capacity std::string (capacity asserted on every append)',
           'C mirror of class filePosition generated from the real member list (names checked every run)',
           'C model of class primitive reduced to its `type` field; primitiveType enumerators parsed from the real header',
           'ghost membership table: in the groups of the callers of inCharset the table verif_member is an arbitrary '
           'function (the callers are proved for every table); that inCharset returns exactly the table entry when the '
           'table is the characteristic function of the set is group lex/inCharset/membership; putting the two together '
           '(instantiating the table) is a paper step']
ASSUMPTIONS = [
    'LP64, two\'s complement',
    'buffers are at most 10^8 bytes (a bound far below 2^63 is needed for symbolic object sizes; 10^8 exceeds any source file); '
    'the buffer is a heap object of exactly length+1 bytes allocated by the harness, the by-reference cursor lives outside it',
    'set membership is specified exactly (quantifier free) only for character sets of at most 64 characters without '
    'interior NUL (longest set literal in libocca: 63); memory safety and termination of inCharset hold for sets of any length',
    'tokenizer loops: fp.line + buffer length < 2^31 (no signed overflow of the line counter)',
    'getRawString end-pattern loop: the end pattern `)delim"` has at most 64 characters and no interior NUL '
    '(it is built from a buffer span that skipTo has passed over)',
    'scan-then-step fragments: statements that do not touch the cursor (origin stack push/pop, printError, std::string '
    'value extraction) are dropped; popAndRewind() is modelled as a rewind to an earlier in-buffer position',
    'assumed (not proved) contracts of libc strlen/strncmp and of parseInt/parseFloat/parseDouble, primitive '
    'constructors/to<T>() (reduced to the type tag) and std::string(c0, n) (checked: [c0, c0+n) is readable)',
    'escape/unescape are specified for a quote character q != 0 and an escape character e != q',
]
NOT_REACHED = ['getToken/peek/shallowPeek dispatch, token classes, token printing (STL/AST)',
               'the token-sequence round trip as a whole; operator longest match is C28',
               'typing/value of literals (C14)',
               'getLineCommentToken/getBlockCommentToken/getIdentifier/getOperatorToken bodies (they only call the scanners '
               'proved here and step over characters they have just compared with a non-NUL value; not under contract)']

LEX_CPP = 'src/occa/internal/utils/lex.cpp'
TOK_CPP = 'src/occa/internal/lang/tokenizer.cpp'
FILE_HPP = 'src/occa/internal/lang/file.hpp'
PRIM_CPP = 'src/types/primitive.cpp'
PRIM_HPP = 'include/occa/types/primitive.hpp'
STRING_CPP = 'src/occa/internal/utils/string.cpp'
STRING_HPP = 'src/occa/internal/utils/string.hpp'

GHOSTS = '''const char *verif_buf; size_t verif_len; size_t verif_g; char verif_gv, verif_gp;
char verif_cs_arr[VERIF_K + 1]; const char *verif_cs; size_t verif_cs_len; _Bool verif_member[256];
'''

# ------------------------------------------------------------------ lex.cpp

REF_OPEN = '\n{\n#define c (*c_)'
REF_CLOSE = ('C: end of the reference alias', r'\}\s*\Z', '#undef c\n}', 1)

LEX_FUNCS = [
    # (C name, C signature, signature regex, extra rules, n loops, by-reference cursor)
    ('lex_inCharset', '_Bool lex_inCharset(const char c, const char *charset)',
     r'^[ \t]*bool\s+inCharset\s*\(\s*const\s+char\s+c\s*,\s*const\s+char\s*\*\s*charset\s*\)\s*\{', [], 1, False),
    ('lex_skipTo_c', 'void lex_skipTo_c(const char **c_, const char delimiter)',
     r'^[ \t]*void\s+skipTo\s*\(\s*const\s+char\s*\*\s*&\s*c\s*,\s*const\s+char\s+delimiter\s*\)\s*\{', [], 1, True),
    ('lex_skipTo_ce', 'void lex_skipTo_ce(const char **c_, const char delimiter, const char escapeChar)',
     r'^[ \t]*void\s+skipTo\s*\(\s*const\s+char\s*\*\s*&\s*c\s*,\s*const\s+char\s+delimiter\s*,\s*const\s+char\s+escapeChar\s*\)\s*\{',
     [], 1, True),
    ('lex_skipTo_s', 'void lex_skipTo_s(const char **c_, const char *delimiters)',
     r'^[ \t]*void\s+skipTo\s*\(\s*const\s+char\s*\*\s*&\s*c\s*,\s*const\s+char\s*\*\s*delimiters\s*\)\s*\{',
     [('C: lex::inCharset -> lex_inCharset', r'\binCharset\(', 'lex_inCharset(', 1)], 1, True),
    ('lex_skipTo_se', 'void lex_skipTo_se(const char **c_, const char *delimiters, const char escapeChar)',
     r'^[ \t]*void\s+skipTo\s*\(\s*const\s+char\s*\*\s*&\s*c\s*,\s*const\s+char\s*\*\s*delimiters\s*,\s*const\s+char\s+escapeChar\s*\)\s*\{',
     [('C: lex::inCharset -> lex_inCharset', r'\binCharset\(', 'lex_inCharset(', 1)], 1, True),
    ('lex_skipFrom', 'void lex_skipFrom(const char **c_, const char *delimiters)',
     r'^[ \t]*void\s+skipFrom\s*\(\s*const\s+char\s*\*\s*&\s*c\s*,\s*const\s+char\s*\*\s*delimiters\s*\)\s*\{',
     [('C: lex::inCharset -> lex_inCharset', r'\binCharset\(', 'lex_inCharset(', 1)], 1, True),
    ('lex_isWhitespace', '_Bool lex_isWhitespace(const char c)',
     r'^[ \t]*bool\s+isWhitespace\s*\(\s*const\s+char\s+c\s*\)\s*\{',
     [('C: lex::inCharset(c, whitespaceCharset) -> lex_ names', r'\binCharset\(c,\s*whitespaceCharset\)',
       'lex_inCharset(c, lex_whitespaceCharset)', 1)], 0, False),
    ('lex_skipWhitespace', 'void lex_skipWhitespace(const char **c_)',
     r'^[ \t]*void\s+skipWhitespace\s*\(\s*const\s+char\s*\*\s*&\s*c\s*\)\s*\{',
     [('C: reference argument c -> pointer c_, lex_ names', r'\bskipFrom\(c,\s*whitespaceCharset\)',
       'lex_skipFrom(c_, lex_whitespaceCharset)', 1)], 0, True),
    ('lex_skipToWhitespace', 'void lex_skipToWhitespace(const char **c_)',
     r'^[ \t]*void\s+skipToWhitespace\s*\(\s*const\s+char\s*\*\s*&\s*c\s*\)\s*\{',
     [('C: overload skipTo(const char*&, const char*) -> lex_skipTo_s, reference argument c -> pointer c_',
       r'\bskipTo\(c,\s*whitespaceCharset\)', 'lex_skipTo_s(c_, lex_whitespaceCharset)', 1)], 0, True),
]


def lex_unit(ctx):
    """All of lex.cpp as C text with contract macros attached; returns (text, {name: Extracted}, {name: nloops})."""
    src = ctx.read(LEX_CPP)
    # whole-file check: every function definition of lex.cpp is one we extract
    ndefs = len(re.findall(r'^[ \t]*(?:bool|void)\s+\w+\s*\([^)]*\)\s*\{', src, re.M))
    if ndefs != len(LEX_FUNCS):
        raise Undecided('extraction break: lex.cpp defines %d functions, the recipe knows %d' % (ndefs, len(LEX_FUNCS)))
    ws = extract_span(ctx, LEX_CPP, r'^[ \t]*const char whitespaceCharset\[\]\s*=', r';', name='lex::whitespaceCharset')
    ws_c = rewrite(ws, [('C: lex::whitespaceCharset -> lex_whitespaceCharset', r'\bwhitespaceCharset\b', 'lex_whitespaceCharset', 1)])
    parts = [ws_c.strip()]
    exs = {'lex::whitespaceCharset': ws}
    for cname, csig, rx, extra, nloops, byref in LEX_FUNCS:
        ex = extract_function(ctx, LEX_CPP, rx, name=cname.replace('lex_', 'lex::'))
        rules = [('C: signature (+ contract macro)', rx,
                  csig + '\nCONTRACT_' + cname + (REF_OPEN if byref else '\n{'), 1)] + list(extra)
        if byref:
            rules.append(REF_CLOSE)
        text = rewrite(ex, rules)
        if nloops:
            text, found = insert_loop_contracts(text, {i: 'LOOP_%s_%d' % (cname, i) for i in range(nloops)}, cname)
            if found != nloops:
                raise Undecided('extraction break: %s has %d loops, contracts exist for %d' % (cname, found, nloops))
        parts.append(text)
        exs[cname] = ex
    return '\n\n'.join(parts), exs


LEX_HARNESS = {
    'lex_inCharset': 'char c; const char *cs; verif_cs = verif_cs_arr; lex_inCharset(c, cs);',
    'lex_skipTo_c': 'ALLOC_BUF; const char *cur; const char **c = &cur; char d; lex_skipTo_c(c, d);',
    'lex_skipTo_ce': 'ALLOC_BUF; const char *cur; const char **c = &cur; char d, e; lex_skipTo_ce(c, d, e);',
    'lex_skipTo_s': 'ALLOC_BUF; const char *cur; const char **c = &cur; const char *ds; verif_cs = verif_cs_arr; lex_skipTo_s(c, ds);',
    'lex_skipTo_se': 'ALLOC_BUF; const char *cur; const char **c = &cur; const char *ds; verif_cs = verif_cs_arr; char e; lex_skipTo_se(c, ds, e);',
    'lex_skipFrom': 'ALLOC_BUF; const char *cur; const char **c = &cur; const char *ds; verif_cs = verif_cs_arr; lex_skipFrom(c, ds);',
    'lex_isWhitespace': 'char c; verif_cs = lex_whitespaceCharset; verif_cs_len = sizeof(lex_whitespaceCharset) - 1; INSTALL_WS_TABLE; lex_isWhitespace(c);',
    'lex_skipWhitespace': 'ALLOC_BUF; const char *cur; const char **c = &cur; verif_cs = lex_whitespaceCharset; verif_cs_len = sizeof(lex_whitespaceCharset) - 1; INSTALL_WS_TABLE; lex_skipWhitespace(c);',
    'lex_skipToWhitespace': 'ALLOC_BUF; const char *cur; const char **c = &cur; verif_cs = lex_whitespaceCharset; verif_cs_len = sizeof(lex_whitespaceCharset) - 1; INSTALL_WS_TABLE; lex_skipToWhitespace(c);',
}
LEX_REPLACE = {
    'lex_skipTo_s': ['lex_inCharset'], 'lex_skipTo_se': ['lex_inCharset'], 'lex_skipFrom': ['lex_inCharset'],
    'lex_isWhitespace': ['lex_inCharset'], 'lex_skipWhitespace': ['lex_skipFrom'],
    'lex_skipToWhitespace': ['lex_skipTo_s'],
}
# canary: the state after the call must be reachable (requires satisfiable, loop invariants not vacuous)
CANARY_BUF = ('\n#ifdef CANARY\n  __CPROVER_assert(!(verif_len == 3 && verif_g == 1), '
              '"canary: state after the call is reachable");\n#endif\n')
CANARY_CS = ('\n#ifdef CANARY\n  __CPROVER_assert(verif_cs_len != 2, '
             '"canary: state after the call is reachable");\n#endif\n')


def lex_groups(ctx):
    unit, exs = lex_unit(ctx)
    src = '#include "C12/lex_contracts.h"\n' + GHOSTS + unit + '\n\n'
    for cname, body in LEX_HARNESS.items():
        canary = CANARY_CS if cname in ('lex_inCharset',) else CANARY_BUF
        if cname == 'lex_isWhitespace':
            canary = ('\n#ifdef CANARY\n  __CPROVER_assert(c != 11, "canary: state after the call is reachable");\n#endif\n')
        src += 'void h_%s(void) {\n  %s%s}\n' % (cname, body, canary)
    # the whitespace table of the contracts is the characteristic function of the real array
    src += '''void h_ws_table(void) {
  char ch;
  INSTALL_WS_TABLE;
  __CPROVER_assert(WS_TABLE, "the installed whitespace table is the table of the six whitespace characters");
  verif_cs = lex_whitespaceCharset; verif_cs_len = sizeof(lex_whitespaceCharset) - 1;
  __CPROVER_assert(sizeof(lex_whitespaceCharset) == 7, "lex::whitespaceCharset has six characters and a terminator");
  __CPROVER_assert(CS_EXACT, "lex::whitespaceCharset has no interior NUL");
  __CPROVER_assert(IN_SET(ch) == CS_MEMBER(ch), "whitespace table == membership in the real lex::whitespaceCharset");
  __CPROVER_assert(IN_SET(ch) == IS_WS(ch), "whitespace table == the six whitespace characters");
#ifdef CANARY
  __CPROVER_assert(!IN_SET(ch), "canary: the whitespace table is not empty");
#endif
}
'''
    groups = []
    common = dict(sources={'lex.c': src}, lang='c', loop_contracts=True, canary='CANARY', canary_label='canary',
                  strength='proof', timeout=240, replay=replay_C12.replay_lex)
    ws = exs['lex::whitespaceCharset']
    groups.append(Group(
        name='lex/inCharset/any-set', entry='h_lex_inCharset', enforce=['lex_inCharset'], defines=['C12_ANYSET'],
        expect_loops=1, min_obligations=10, functions=[exs['lex_inCharset']],
        note='set = fresh object of exactly strlen+1 bytes, any length <= 10^8, interior NULs allowed', **common))
    groups.append(Group(
        name='lex/inCharset/membership', entry='h_lex_inCharset', enforce=['lex_inCharset'],
        expect_loops=1, min_obligations=10, functions=[exs['lex_inCharset']],
        bound='',
        note='result == exact membership (64-way disjunction over the string) == ghost table entry; sets of <= 64 characters',
        **common))
    for cname, csig, rx, extra, nloops, byref in LEX_FUNCS[1:]:
        groups.append(Group(
            name='lex/' + cname[4:], entry='h_' + cname, defines=['C12_LINK_ASSUMED'],
            enforce=[cname], replace=LEX_REPLACE.get(cname, []),
            expect_loops=nloops, min_obligations=10, functions=[exs[cname], ws],
            note='buffer of symbolic length <= 10^8, arbitrary content; loop closed by loop contract', **common))
    groups.append(Group(
        name='lex/whitespace-table', entry='h_ws_table', min_obligations=4, functions=[ws],
        sources={'lex.c': src}, lang='c', canary='CANARY', canary_label='canary', strength='proof', timeout=240,
        replay=replay_C12.replay_lex,
        note='links the ghost membership table used for isWhitespace/skipWhitespace/skipToWhitespace to the real array'))
    return groups


# ------------------------------------------------------------ tokenizer.cpp

def file_position_struct(ctx):
    """C struct for `fp`, from the real member list of class filePosition."""
    cls = extract_block(ctx, FILE_HPP, r'^[ \t]*class\s+filePosition\s*\{', name='class filePosition')
    m = re.search(r'public:\s*\n(\s*int\s+line;\s*\n\s*const\s+char\s*\*\s*lineStart;\s*\n\s*const\s+char\s*\*\s*start\s*,\s*\*\s*end;)', cls.text)
    if not m:
        raise Undecided('extraction break: data members of class filePosition changed')
    return cls, 'struct filePosition {\n%s\n};\nstruct filePosition fp;\n' % m.group(1)


TOK_INCHARSET = ('C: lex::inCharset -> lex_inCharset', r'\blex::inCharset\(', 'lex_inCharset(', 1)


def tok_unit(ctx):
    cls, fp_struct = file_position_struct(ctx)
    exs = {'class filePosition': cls}
    parts = []

    def add(cname, csig, rx, rules, nloops, name, cut=''):
        ex = extract_function(ctx, TOK_CPP, rx, name=name)
        what = 'C: signature (+ contract macro)' + ('; text before the loop dropped (STL guards)' if cut else '')
        text = rewrite(ex, [(what, rx + cut, csig + '\nCONTRACT_' + cname + '\n{\n', 1)] + rules)
        text, found = insert_loop_contracts(text, {k: 'LOOP_%s_%d' % (cname, k) for k in range(nloops)}, cname)
        if found != nloops:
            raise Undecided('extraction break: %s has %d loops, contracts exist for %d' % (cname, found, nloops))
        parts.append(text)
        exs[cname] = ex

    add('tokenizer_skipTo_c', 'void tokenizer_skipTo_c(const char delimiter)',
        r'^[ \t]*void\s+tokenizer_t::skipTo\s*\(\s*const\s+char\s+delimiter\s*\)\s*\{', [], 1,
        'tokenizer_t::skipTo(const char)')
    add('tokenizer_skipTo_s', 'void tokenizer_skipTo_s(const char *delimiters)',
        r'^[ \t]*void\s+tokenizer_t::skipTo\s*\(\s*const\s+char\s*\*\s*delimiters\s*\)\s*\{', [TOK_INCHARSET], 1,
        'tokenizer_t::skipTo(const char*)')
    add('tokenizer_skipFrom', 'void tokenizer_skipFrom(const char *delimiters)',
        r'^[ \t]*void\s+tokenizer_t::skipFrom\s*\(\s*const\s+char\s*\*\s*delimiters\s*\)\s*\{', [TOK_INCHARSET], 1,
        'tokenizer_t::skipFrom(const char*)')
    # countSkippedLines: the loop, cut at `const char *pos = last.position.start;`
    rx = r'^[ \t]*void\s+tokenizer_t::countSkippedLines\s*\(\s*\)\s*\{'
    add('tokenizer_countSkippedLines_loop',
        'void tokenizer_countSkippedLines_loop(const char *last_position_start)', rx,
        [('parameter for stack.back().position.start', r'\blast\.position\.start\b', 'last_position_start', 1)], 1,
        'tokenizer_t::countSkippedLines() [loop]', cut=r'.*?(?=const\s+char\s*\*\s*pos\s*=)')
    # getRawString: the end-pattern loop between two marker comments
    rx = r'^[ \t]*void\s+tokenizer_t::getRawString\s*\(\s*std::string\s*&\s*value\s*\)\s*\{'
    add('tokenizer_getRawString_endloop',
        'void tokenizer_getRawString_endloop(const size_t end_size, const char *end_c_str)',
        rx,
        [('cut after the loop (marker comment)', r'//\s*Make sure we found delimiter.*\Z', '}', 1),
         ('parameter for end.size()', r'\bend\.size\(\)', 'end_size', 1),
         ('parameter for end.c_str()', r'\bend\.c_str\(\)', 'end_c_str', 1)], 2,
        'tokenizer_t::getRawString() [end-pattern loop]', cut=r'.*?(?=//\s*Find end match)')
    unit = fp_struct + '_Bool lex_inCharset(const char c, const char *charset)\nCONTRACT_lex_inCharset;\n\n' + '\n\n'.join(parts)
    return unit, exs


TOK_HARNESS = {
    'tokenizer_skipTo_c': ('ALLOC_BUF; char d; tokenizer_skipTo_c(d);', 1, []),
    'tokenizer_skipTo_s': ('ALLOC_BUF; const char *ds; verif_cs = verif_cs_arr; tokenizer_skipTo_s(ds);', 1, ['lex_inCharset']),
    'tokenizer_skipFrom': ('ALLOC_BUF; const char *ds; verif_cs = verif_cs_arr; tokenizer_skipFrom(ds);', 1, ['lex_inCharset']),
    'tokenizer_countSkippedLines_loop': ('ALLOC_BUF; const char *last; tokenizer_countSkippedLines_loop(last);', 1, []),
    'tokenizer_getRawString_endloop': ('ALLOC_BUF; size_t n; const char *m; tokenizer_getRawString_endloop(n, m);', 2, []),
}


def tok_groups(ctx):
    unit, exs = tok_unit(ctx)
    src = '#include "C12/tokenizer_contracts.h"\n' + GHOSTS + 'char verif_pat_arr[VERIF_K + 1];\n' + unit + '\n\n'
    for cname, (body, nloops, repl) in TOK_HARNESS.items():
        src += 'void h_%s(void) {\n  %s%s}\n' % (cname, body, CANARY_BUF)
    groups = []
    for cname, (body, nloops, repl) in TOK_HARNESS.items():
        bounded = cname == 'tokenizer_getRawString_endloop'
        groups.append(Group(
            name='tokenizer/' + cname[len('tokenizer_'):], sources={'tokenizer.c': src}, entry='h_' + cname, lang='c',
            defines=['C12_LINK_ASSUMED'], enforce=[cname], replace=repl, loop_contracts=True,
            expect_loops=nloops, min_obligations=10, functions=[exs[cname], exs['class filePosition']],
            canary='CANARY', canary_label='canary', timeout=240,
            strength='bounded' if bounded else 'proof',
            bound='end pattern `)delim"` of at most 64 characters; buffer length unbounded (<= 10^8)' if bounded else '',
            replay=replay_C12.replay_tokenizer,
            note='fp is a global struct; buffer of symbolic length <= 10^8, arbitrary content'))
    return groups


# scan-then-step fragments of getString / getRawString / getCharToken / getHeader

SCANSTEP_SITES = [
    ('getString', r'^[ \t]*bool\s+tokenizer_t::getString\s*\(\s*std::string\s*&\s*value\s*,\s*const\s+int\s+encoding\s*\)\s*\{'),
    ('getRawString', r'^[ \t]*void\s+tokenizer_t::getRawString\s*\(\s*std::string\s*&\s*value\s*\)\s*\{'),
    ('getCharToken', r'^[ \t]*token_t\s*\*\s*tokenizer_t::getCharToken\s*\(\s*const\s+int\s+encoding\s*\)\s*\{'),
    ('getHeader', r'^[ \t]*std::string\s+tokenizer_t::getHeader\s*\(\s*\)\s*\{'),
]
LIT = r'"(?:[^"\\\n]|\\.)*"'
SCANSTEP_ALLOWED = {'if', 'return', 'fp', 'start', 'void', 'verif_pushed', 'tokenizer_skipTo_s'}


def scanstep_unit(ctx):
    parts, exs, names = [], {}, []
    for site, rx in SCANSTEP_SITES:
        ex = extract_function(ctx, TOK_CPP, rx, name='tokenizer_t::%s() [scan-then-step fragment]' % site)
        m = re.search(r'\bskipTo\((' + LIT + r')\);', ex.text)
        if not m or len(re.findall(r'\bskipTo\(' + LIT + r'\);', ex.text)) != 1:
            raise Undecided('extraction break: %s: expected exactly one skipTo("...") call' % site)
        lit = m.group(1)
        cname = 'tokenizer_scanstep_' + site
        text = rewrite(ex, [
            ('cut: text before the scan dropped; C signature (+ contract macro)', r'\A.*?(?=\bskipTo\(' + LIT + r'\);)',
             'void %s(void)\nCONTRACT_tokenizer_scanstep(verif_lit_%s)\n{\n      ' % (cname, site), 1),
            ('cut: text after the first `++fp.start;` that follows the scan dropped', r'\A(.*?\+\+fp\.start;).*\Z', r'\1\n}', 1),
            ('C: tokenizer_t::skipTo(const char*) -> tokenizer_skipTo_s; the set literal gets a name',
             r'\bskipTo\(' + LIT + r'\);', 'tokenizer_skipTo_s(verif_lit_%s);' % site, 1),
            ('dropped: diagnostics', r'\bprintError\((?:' + LIT + r'|[^;"])*\);', '', '*'),
            ('popAndRewind() -> the cursor goes back to a pushed position (ghost verif_pushed, inside the buffer)',
             r'\bpopAndRewind\(\);', 'fp.start = verif_pushed;', '*'),
            ('dropped: origin-stack bookkeeping', r'\bpop\(\);', '', None),
            ('dropped: std::string value extraction (does not touch the cursor)',
             r'^[ \t]*(?:const\s+)?std::string\s+\w+(?:\s*=[^;]*)?;|^[ \t]*end\s*\+=[^;]*;|^[ \t]*value\s*=\s*unescape\([^;]*;', '', '*'),
            ('C: return <value> -> return (only the cursor is under contract)', r'\breturn\s+(?:false|NULL);', 'return;', '*'),
        ])
        body = re.sub(r'//[^\n]*', '', text[text.index('{'):])
        body = re.sub(r"'(?:[^'\\]|\\.)'", '', body)
        left = set(re.findall(r'[A-Za-z_]\w*', body)) - SCANSTEP_ALLOWED - {'verif_lit_' + site}
        if left:
            raise Undecided('extraction break: scan-then-step fragment of %s contains statements the recipe does not '
                            'model: %s' % (site, sorted(left)))
        parts.append('static const char verif_lit_%s[] = %s;\n%s' % (site, lit, text))
        exs[site] = ex
        names.append((site, cname))
    return '\n\n'.join(parts), exs, names


def scanstep_groups(ctx):
    cls, fp_struct = file_position_struct(ctx)
    unit, exs, names = scanstep_unit(ctx)
    src = ('#include "C12/tokenizer_contracts.h"\n' + GHOSTS + 'const char *verif_pushed;\n' + fp_struct +
           'void tokenizer_skipTo_s(const char *delimiters)\nCONTRACT_tokenizer_skipTo_s;\n\n' + unit + '\n\n')
    for site, cname in names:
        src += ('void h_%s(void) {\n  ALLOC_BUF; verif_cs = verif_lit_%s; verif_cs_len = sizeof(verif_lit_%s) - 1;\n  %s();%s}\n'
                % (cname, site, site, cname, CANARY_BUF))
    groups = []
    for site, cname in names:
        groups.append(Group(
            name='tokenizer/scan-then-step/' + site, sources={'scanstep.c': src}, entry='h_' + cname, lang='c',
            defines=['C12_LINK_ASSUMED'], enforce=[cname], replace=['tokenizer_skipTo_s'], loop_contracts=True,
            min_obligations=10, functions=[exs[site], cls], canary='CANARY', canary_label='canary', timeout=240,
            strength='proof', replay=replay_C12.replay_scanstep,
            note='fragment from skipTo("<c>\\n") to the following ++fp.start; skipTo replaced by its contract'))
    return groups


# ------------------------------------------------------------ primitive.cpp

def primitive_type_defines(ctx):
    """#define primitiveType_X for every `static const int X = e;` of namespace primitiveType (real header)."""
    ns = extract_block(ctx, PRIM_HPP, r'^[ \t]*namespace\s+primitiveType\s*\{', name='namespace primitiveType')
    items = re.findall(r'static\s+const\s+int\s+(\w+)\s*=\s*([^;]+);', ns.text)
    names = [n for n, _ in items]
    for need in ('none', 'bool_', 'int8_', 'uint8_', 'int16_', 'uint16_', 'int32_', 'uint32_', 'int64_', 'uint64_',
                 'float_', 'double_', 'isFloat'):
        if need not in names:
            raise Undecided('extraction break: primitiveType::%s not found' % need)
    out = []
    for n, e in items:
        e = re.sub(r'\b(%s)\b' % '|'.join(map(re.escape, names)), r'primitiveType_\1', ' '.join(e.split()))
        out.append('#define primitiveType_%s (%s)' % (n, e))
    return ns, '\n'.join(out) + '\n'


PRIM_COMMON_RULES = [
    ('C: primitive() -> primitive_ctor()', r'\bprimitive\(\)', 'primitive_ctor()', None),
    ('C: primitive((T) e) -> primitive_of_T((T) e)  (constructor overload selected by the cast type)',
     r'\bprimitive\(\((\w+)\) ', r'primitive_of_\1((\1) ', 8),
]


def prim_unit(ctx):
    ns, defines = primitive_type_defines(ctx)
    exs = {'namespace primitiveType': ns}
    up = extract_function(ctx, STRING_HPP, r'^[ \t]*inline\s+char\s+uppercase\s*\(\s*const\s+char\s+c\s*\)\s*\{', name='uppercase(char)')
    up_c = rewrite(up, [('C: inline -> static', r'\binline\b', 'static', 1)])
    exs['uppercase'] = up
    # default argument of load(const char*&, bool includeSign = true), made explicit at the recursive call
    if not re.search(r'static\s+primitive\s+load\s*\(\s*const\s+char\s*\*\s*&\s*c\s*,\s*const\s+bool\s+includeSign\s*=\s*true\s*\)',
                     ctx.read(PRIM_HPP)):
        raise Undecided('extraction break: default argument includeSign = true of primitive::load changed')
    parts = []
    for cname, kind in (('primitive_loadBinary', 'loadBinary'), ('primitive_loadHex', 'loadHex')):
        rx = r'^[ \t]*primitive\s+primitive::%s\s*\(\s*const\s+char\s*\*\s*&\s*c\s*,\s*const\s+bool\s+isNegative\s*\)\s*\{' % kind
        ex = extract_function(ctx, PRIM_CPP, rx, name='primitive::' + kind)
        text = rewrite(ex, [('C: signature (+ contract macro)', rx,
                             'primitive %s(const char **c_, const bool isNegative)\nCONTRACT_%s%s' % (cname, cname, REF_OPEN), 1)]
                       + PRIM_COMMON_RULES + [REF_CLOSE])
        text, found = insert_loop_contracts(text, {0: 'LOOP_%s_0' % cname}, cname)
        if found != 1:
            raise Undecided('extraction break: %s has %d loops, expected 1' % (cname, found))
        parts.append(text)
        exs[cname] = ex
    rx = r'^[ \t]*primitive\s+primitive::load\s*\(\s*const\s+char\s*\*\s*&\s*c\s*,\s*const\s+bool\s+includeSign\s*\)\s*\{'
    ex = extract_function(ctx, PRIM_CPP, rx, name='primitive::load(const char*&, bool)')
    text = rewrite(ex, [
        ('C: signature (+ contract macro)', rx,
         'primitive primitive_load(const char **c_, const bool includeSign)\nCONTRACT_primitive_load' + REF_OPEN, 1),
        ('C: default construction made explicit', r'\bprimitive p;', 'primitive p = primitive_ctor();', 1),
        ('C: primitive() -> primitive_ctor()', r'\bprimitive\(\)', 'primitive_ctor()', None),
        ('C: p = bool literal -> primitive_of_bool', r'\bp = (true|false);', r'p = primitive_of_bool(\1);', 2),
        ('C: p.source = "literal" -> model call (source text is not part of the cursor contract)',
         r'\bp\.source = ("[a-z]+");', r'primitive_set_source_lit(&p, \1);', 2),
        ('C: p.source = std::string(c0, c - c0) -> model call that checks the range',
         r'\bp\.source = std::string\(c0, c - c0\);', 'primitive_set_source(&p, c0, c - c0);', 2),
        ('C: occa::parseFloat/parseDouble(std::string(c0, c - c0)) -> uninterpreted model that checks the range',
         r'\bocca::parse(Float|Double)\(std::string\(c0, c - c0\)\)', r'occa_parse\1(c0, c - c0)', 2),
        ('C: parseInt(std::string(c0, c - c0)) -> uninterpreted model that checks the range',
         r'\bparseInt\(std::string\((\w+), (\w+) - \1\)(?: \+ "ull")?\)', r'occa_parseInt(\1, \2 - \1)', 1),
        ('C: p = (T) e -> p = primitive_of_T((T) e)  (converting constructor selected by the cast type)',
         r'\bp = \((float|double|uint32_t|int32_t|uint64_t|int64_t)\) ([^;]+);', r'p = primitive_of_\1((\1) \2);', None),
        ('C: scalar read of the parsed value -> uninterpreted value (values are not part of the cursor contract)',
         r'\bvalue_ = p\.to<uint64_t>\(\);', 'value_ = nondet_uint64_t();', '*'),
        ('C: p.to<T>() -> primitive_to_T(p)', r'\bp\.to<(\w+)>\(\)', r'primitive_to_\1(p)', '*'),
        ('C: primitiveType::x -> primitiveType_x', r'\bprimitiveType::', 'primitiveType_', None),
        ('C: lex::skipWhitespace(c) -> lex_skipWhitespace(c_)  (reference argument)', r'\blex::skipWhitespace\(c\)', 'lex_skipWhitespace(c_)', 1),
        ('C: primitive::loadBinary/loadHex(++c, negative): reference argument -> (++c, c_)',
         r'\bprimitive::(loadBinary|loadHex)\(\+\+c, negative\)', r'primitive_\1((++c, c_), negative)', 2),
        ('C: recursive primitive::load(++c) -> primitive_load_rec((++c, c_), true): the recursive call is replaced by '
         "the function's own contract (induction); default argument made explicit",
         r'\bprimitive::load\(\+\+c\)', 'primitive_load_rec((++c, c_), true)', 1),
        ('libc strlen/strncmp -> verif_strlen/verif_strncmp (assumed contracts instead of CBMC library bodies)',
         r'\b(strlen|strncmp)\(', r'verif_\1(', 3),
        REF_CLOSE])
    text, found = insert_loop_contracts(text, {0: 'LOOP_primitive_load_0', 1: 'LOOP_primitive_load_1'}, 'primitive_load')
    if found != 2:
        raise Undecided('extraction break: primitive::load has %d loops, expected 2' % found)
    exs['primitive_load'] = ex
    decls = ('void lex_skipWhitespace(const char **c_)\nCONTRACT_lex_skipWhitespace;\n'
             'size_t verif_strlen(const char *s)\nCONTRACT_verif_strlen;\n'
             'int verif_strncmp(const char *a, const char *b, size_t n)\nCONTRACT_verif_strncmp;\n'
             'primitive primitive_load_rec(const char **c_, const bool includeSign)\nCONTRACT_primitive_load_rec;\n')
    unit = up_c + '\n' + decls + '\n' + '\n\n'.join(parts) + '\n\n' + text
    return defines, unit, exs


def prim_groups(ctx):
    defines, unit, exs = prim_unit(ctx)
    ws = extract_span(ctx, LEX_CPP, r'^[ \t]*const char whitespaceCharset\[\]\s*=', r';', name='lex::whitespaceCharset')
    ws_c = rewrite(ws, [('C: lex::whitespaceCharset -> lex_whitespaceCharset', r'\bwhitespaceCharset\b', 'lex_whitespaceCharset', 1)])
    src = (defines + ws_c.strip() + '\n#include "C12/primitive_contracts.h"\n' + GHOSTS + 'size_t verif_load_entry;\n'
           + unit + '\n\n')
    src += 'void h_primitive_loadBinary(void) {\n  ALLOC_BUF; const char *cur; const char **c = &cur; _Bool neg; primitive_loadBinary(c, neg);%s}\n' % CANARY_BUF
    src += 'void h_primitive_loadHex(void) {\n  ALLOC_BUF; const char *cur; const char **c = &cur; _Bool neg; primitive_loadHex(c, neg);%s}\n' % CANARY_BUF
    src += ('void h_primitive_load(void) {\n  ALLOC_BUF; const char *cur; const char **c = &cur; _Bool sign;\n'
            '  verif_cs = lex_whitespaceCharset; verif_cs_len = sizeof(lex_whitespaceCharset) - 1;\n'
            '  primitive_load(c, sign);%s}\n' % CANARY_BUF)
    common = dict(sources={'primitive.c': src}, lang='c', loop_contracts=True, canary='CANARY', canary_label='canary',
                  strength='proof', timeout=300, defines=['C12_LINK_ASSUMED'], object_bits=10,
                  replay=replay_C12.replay_primitive)
    fx = [exs['namespace primitiveType'], exs['uppercase']]
    groups = [
        Group(name='primitive/loadBinary', entry='h_primitive_loadBinary', enforce=['primitive_loadBinary'],
              expect_loops=1, min_obligations=10, functions=[exs['primitive_loadBinary']] + fx, **common),
        Group(name='primitive/loadHex', entry='h_primitive_loadHex', enforce=['primitive_loadHex'],
              expect_loops=1, min_obligations=10, functions=[exs['primitive_loadHex']] + fx, **common),
        Group(name='primitive/load', entry='h_primitive_load', enforce=['primitive_load'],
              replace=['primitive_load_rec', 'primitive_loadBinary', 'primitive_loadHex', 'lex_skipWhitespace',
                       'verif_strlen', 'verif_strncmp'],
              expect_loops=2, min_obligations=20, functions=[exs['primitive_load'], ws] + fx,
              assumptions=['assumed contracts: libc strlen/strncmp (verif_strlen/verif_strncmp), parseInt/parseFloat/'
                           'parseDouble and primitive constructors/to<T>() as type-tag models'],
              **common),
    ]
    return groups


# ------------------------------------------------------------ string.cpp: escape / unescape

ESCAPE_HARNESS = r"""
using namespace occa;

/* every byte string of length <= VERIF_N (all 256 byte values, NUL included) */
static std::string any_string() {
  std::string s;
  size_t n = nondet_ulong();
  __CPROVER_assume(n <= VERIF_N);
  for (size_t i = 0; i < n; ++i) s += nondet_char();
  return s;
}

/* q is the character to escape (a quote), e the escape character.  The codec is
   specified for q != 0 (a NUL "quote" collides with the terminator that
   unescape reads at cstr[i + 1]) and q != e. */
#define CODEC_PARAMS \
  char q = nondet_char(), e = nondet_char(); \
  __CPROVER_assume(q != 0 && q != e)

extern "C" void h_roundtrip() {
  CODEC_PARAMS;
  std::string s = any_string();
  std::string r = escape(s, q, e);
  std::string u = unescape(r, q, e);
  __CPROVER_assert(u == s, "unescape(escape(s, q, e), q, e) == s");
  __CPROVER_assert(r.size() >= s.size() && r.size() <= 2 * s.size(), "escape adds at most one character per character");
#ifdef CANARY
  __CPROVER_assert(r == s, "canary: escape changes some string");
#endif
}

extern "C" void h_quotes_escaped() {
  CODEC_PARAMS;
  __CPROVER_assume(e != 0);
  std::string s = any_string();
  std::string r = escape(s, q, e);
  size_t j = nondet_ulong();
  __CPROVER_assume(j < r.size());
  if (r[j] == q) {
    __CPROVER_assert(j >= 1 && r[j - 1] == e, "every quote in escape(s, q, e) is preceded by the escape character");
  }
#ifdef CANARY
  __CPROVER_assert(r[j] != q, "canary: some output contains a quote");
#endif
}

/* body of a literal as the scanners accept it (lex::skipTo(c, q, e) /
   tokenizer_t::skipTo): a sequence of units, each either one character other
   than q and e, or e followed by any character; no bare q, no dangling e */
static bool well_formed(const std::string &raw, char q, char e) {
  size_t i = 0;
  while (i < raw.size()) {
    if (raw[i] == e) { if (i + 1 >= raw.size()) return false; i += 2; }
    else if (raw[i] == q) return false;
    else ++i;
  }
  return true;
}

extern "C" void h_spelling_roundtrip() {
  CODEC_PARAMS;
  __CPROVER_assume(e != 0);
  std::string raw = any_string();
  __CPROVER_assume(well_formed(raw, q, e));
  std::string value = unescape(raw, q, e);      /* what getString()/getCharToken() store */
  std::string printed = escape(value, q, e);    /* what stringToken::print()/charToken::print() emit */
  __CPROVER_assert(printed == raw, "escape(unescape(body, q, e), q, e) == body for every well-formed literal body");
  __CPROVER_assert(well_formed(printed, q, e), "the printed literal body is scanned to its end by the tokenizer");
#ifdef CANARY
  __CPROVER_assert(value == raw, "canary: unescape changes some body");
#endif
}
"""


def escape_groups(ctx):
    n = 4 if ctx.tier == 'quick' else 10
    esc = extract_function(ctx, STRING_CPP, r'^[ \t]*std::string\s+escape\s*\(\s*const\s+std::string\s*&\s*str\s*,\s*const\s+char\s+c\s*,'
                           r'\s*const\s+char\s+escapeChar\s*\)\s*\{', name='escape')
    une = extract_function(ctx, STRING_CPP, r'^[ \t]*std::string\s+unescape\s*\(\s*const\s+std::string\s*&\s*str\s*,\s*const\s+char\s+c\s*,'
                           r'\s*const\s+char\s+escapeChar\s*\)\s*\{', name='unescape')
    src = '#include <string>\nnamespace occa {\n%s\n\n%s\n}\n' % (esc.text, une.text) + ESCAPE_HARNESS
    groups = []
    for entry, mino in (('h_roundtrip', 2), ('h_quotes_escaped', 1), ('h_spelling_roundtrip', 2)):
        groups.append(Group(
            name='escape/' + entry[2:], sources={'escape.cpp': src}, entry=entry, lang='cpp',
            defines=['VERIF_N=%d' % n], unwind=2 * n + 3, object_bits=12, min_obligations=mino,
            functions=[esc, une], canary='CANARY', canary_label='canary', strength='bounded',
            bound='every byte string of length <= %d (all byte values), every quote q != 0 and escape character e != q' % n,
            timeout=900, replay=replay_C12.replay_escape,
            note='real text of escape/unescape through the C++ front end with the fixed-capacity std::string stub'))
    return groups


def build(ctx):
    groups = []
    groups += lex_groups(ctx)
    groups += tok_groups(ctx)
    groups += scanstep_groups(ctx)
    groups += prim_groups(ctx)
    groups += escape_groups(ctx)
    for g in groups:
        # CaDiCaL (built into cbmc 6.11) instead of the default MiniSat: the instances are small, but MiniSat is
        # erratic on the ghost-index / pointer-offset reasoning (lex/skipTo_se 122 s vs 8 s, scan-then-step/getString
        # 86 s vs 0.7 s, canary runs that time out); where MiniSat was measured to be clearly faster it is kept
        if g.name not in ('tokenizer/getRawString_endloop',):
            g.extra_cbmc = ['--sat-solver', 'cadical']
    only = os.environ.get('VERIF_C12_ONLY')      # development aid: run a subset of the groups
    if only:
        groups = [g for g in groups if re.search(only, g.name)]
    return groups
