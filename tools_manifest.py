#!/usr/bin/env python3
"""Regenerates MANIFEST.json from the table below (kept in one place so the
manifest stays valid while checks are added)."""
import json
import os

HERE = os.path.dirname(os.path.abspath(__file__))

NA_FINAL = {
    'C07': 'history of header edits x builds across processes: the mechanism is files on disk; no per-call contract states "reflects the current contents" and CBMC has no file-system model',
    'C08': 'crash-point quantifier over system calls; io::stageFiles uses lambdas/std::function (outside the C++ front end) and crash semantics are outside a function-contract verifier',
    'C09': 'schedule quantifier over OS processes sharing a cache directory; outside a sequential function-contract verifier',
    'C11': 'recursive dtype_t graphs over std::vector/std::map/json: would mean re-implementing those libraries as stubs, i.e. proving a model',
    'C16': 'whole front end totality (parser, preprocessor, transforms: AST/STL code beyond the C++ front end); only leaf scanners get memory-safety contracts, counted under C12',
    'C20': 'needs compiling and running generated programs on seven backends; no contract on a libocca function expresses it',
    'C21': 'thread-schedule quantifier over OpenMP runtimes; no usable thread model in CBMC for this code',
    'C22': 'differential property over seven AST-walking translators (lambdas, statementArray); not a per-function contract',
    'C23': 'every operation JIT-builds a kernel through the parser and runs it; the one leaf in reach (range::length) was probed and is not decidable at a useful strength (64-bit symbolic divisor)',
    'C25': 'json holds std::map<std::string,json> by value (recursive template wall of the C++ front end)',
    'C26': 'three lines of json merging on top of C25 machinery plus process-global settings()',
    'C30': 'thread-interleaving quantifier in a different build configuration; CBMC has no usable thread model for this code',
}

# property -> dict(level, text, note, technique, thorough)
CLAIMED = {
    'C27': dict(
        level='proof',
        text='hash(const void*,udim_t) C-extracted each run and proved free of UB for buffers of every length (dfcc, loop contracts on all loops); '
             'hex codec, getFullString/fromString round trip, short-string law for every value and cache state, operator^/==/!=/< laws proved for all 2^256 values '
             'on the real member-function text through the C++ front end (constant-trip loops fully unwound). Unit tests sample a few hashes; this covers every value, incl. all-zero combined hashes.',
        note='trusted: CBMC C/C++ front ends and SAT back end; fixed-capacity std::string stub; C mirror struct of hash_t for hash(); unsigned->int conversion modular. Not reached: random(), hashFile(), operator<<.',
        technique='CBMC code contracts (goto-instrument --dfcc, loop contracts) on mechanically extracted real functions',
        design='5/C27'),
}

CLAIMED['C01'] = dict(
    level='proof',
    text='Ring primitives (gc.cpp/gc.tpp compiled whole, unmodified) proved against CHECK-encoded contracts for rings of every length; '
         'handle protocol of memory, memoryPool, kernel, stream, device: real constructors/operator=/destructor/setModeX/removeXRef/dontUseRefs/swap/free and the mode '
         "objects' ring functions and destructors extracted verbatim; inductive step from EVERY invariant state of 2 backend objects and K handles (quick K=2, thorough K=2,3), one group per operation kind: "
         'invariant preserved, object destroyed exactly once iff last reference lost or freed, no use after delete, free() law, drain leaves no ref-counted object. Histories of any length over K handles follow by induction; tests only run fixed scripts.',
    note='trusted: CBMC C++ front end (destructor call on delete made explicit by a must-fire rewrite rule, self-tested each run), flattened class skeletons, counting stubs for modeBuffer_t/modeDevice_t callbacks. Bound: K<=3 handles per step, 2 objects. Not reached: modeDevice_t::freeResources, streamTag, backend free paths.',
    technique='CBMC on mechanically extracted real functions: CHECK-encoded contracts + inductive invariant step',
    design='5/C01')

CLAIMED['C02'] = dict(
    level='proof',
    text='Serial memory stack extracted verbatim (occa::memory copyFrom/copyTo x4, slice, operator+, cast, setDtype, modeMemory_t::slice, serial::buffer::slice, serial::memory constructor and copy functions): '
         'from every state satisfying the view invariant, with fully symbolic 64-bit counts/offsets, a request reaches the backend memcpy iff it is valid by the property, the memcpy is asked for exactly the requested byte range inside the view(s) '
         '(slices alias, nothing outside is touched), every raise happens only for invalid requests and before any copy; slice results satisfy the view invariant inside their parent. '
         'Complete over the machine domain for power-of-two element sizes; other element sizes are labelled bounded (buffer < 2^16 / 2^10 bytes). Tests only try a few in-range copies.',
    note='trusted: CBMC C++ front end, flattened skeletons (json/dtype/modeDevice stubs), memcpy recorded not executed, deletes recorded (lifetime = C01). Known finding: uninitialized handles are a silent no-op. Not reached: clone(), contents over long histories, other backends.',
    technique='CBMC on mechanically extracted real functions: CHECK-encoded contracts from every invariant state, loop-free (complete) per element size',
    design='5/C02')

CLAIMED['C05'] = dict(
    level='proof',
    text='Per-function accounting deltas on the real text: device::malloc (core) with serial::device::malloc and serial::buffer::malloc/wrapMemory inlined, device::wrapMemory, the destructor chain serial::buffer::~buffer + ~modeBuffer_t and ~modeMemory_t: '
         'memoryAllocated() changes by exactly accounted(buffer) = isWrapped ? 0 : size on creation and by its negative on destruction, maxMemoryAllocated() is the running maximum, device-owned storage freed exactly once; '
         'for every entry count, element size, source pointer and use_host_pointer/own_host_pointer combination (loop-free, complete). The history-level statement follows by induction; tests only check a few fixed sequences.',
    note='trusted: CBMC C++ front end, flattened skeletons, nested deletes recorded and each destructor verified in its own group. Assumes |entries| < 2^40. Not reached: clone(), pool growth accounting (C04 unit), other backends.',
    technique='CBMC on mechanically extracted real functions: CHECK-encoded per-function delta contracts (ghost accounted size)',
    design='5/C05')
CLAIMED['C14'] = dict(
    level='proof',
    text='22 primitive operator functions, to<T>() and the scalar constructors C-extracted each run; for every (operator, operand-type pair) with concrete tags and fully symbolic 64-bit operand bits the result type and value equal what CBMC computes for the C expression itself '
         '(spec from the C/C++ standard via _Generic, definedness as guard); binaryOpNode/ternaryOpNode/leftUnaryOpNode::evaluate extracted through the C++ front end against ghost children counting evaluations (short-circuit, exactly one ?: branch). '
         'Literal typing (bounded): primitive::load/loadHex/loadBinary with the real parseInt/parseBinary extracted; for every literal text up to a stated digit count per base (quick: 10 decimal, 9 hex, 11 octal, 12 binary digits + every valid suffix) type, value and consumed length equal [lex.icon]/[lex.fcon]. Quick: 7x7 literal-reachable types; thorough: 11x11 + fidelity vectors. Tests sample a handful of constants.',
    note='trusted: CBMC C/C++ front ends, SAT + cvc5 back ends, C extraction rules (references, namespaces, _Generic constructor selection), CBMC IEEE-754 model. Known findings: bool with & | ^ ~ (pinned by repo tests), ?: result type, 8/16-bit mixed signedness. strtod/strtof assumed correctly rounded. Not reached: compound-assign operators, sign path of load, hex-float / digit-separator literals.',
    technique='CBMC contracts on mechanically C-extracted real functions, one obligation group per operator x type pair; SMT (cvc5) for * / % and floats',
    design='5/C14')

CLAIMED['C12'] = dict(
    level='other',
    text='Mixed: unbounded proofs for the scanners, a bounded stand-in for the escape codec (hence category other). All 9 scanners of lex.cpp, tokenizer_t::skipTo x2 / skipFrom / countSkippedLines loop / getRawString end-pattern loop / the scan-then-step fragments of getString, getRawString, getCharToken, getHeader, and the cursor handling of primitive::load/loadHex/loadBinary are C-extracted each run and proved memory-safe, terminating and '
         'stopping at NUL or the documented delimiter for NUL-terminated buffers of every length (dfcc function contracts, loop contracts, callers checked against callee contracts); escape/unescape round trip, every-quote-escaped and spelling round trip for every byte string up to length 4 (quick) / 10 (thorough) - that part is bounded. Tests tokenize a few fixed strings.',
    note='trusted: CBMC C front end + SAT, C extraction rules (references -> pointers, fp as a global), libc strlen/strncmp and parse* contracts assumed, ghost set-membership table (sets <= 64 chars). Not reached: getToken/peek dispatch, token classes, whole token-sequence round trip, operator longest match (C28).',
    technique='CBMC code contracts (goto-instrument --dfcc, loop contracts, replace-call-with-contract) on mechanically C-extracted real functions; bounded unwinding for the escape codec',
    design='5/C12')
CLAIMED['C13'] = dict(
    level='proof',
    text='Conditional-inclusion state machine: processIf/Ifdef/Ifndef/Elif/Else/Endif, pushStatus/popStatus/swapReadingStatus, lineIsTrue, getIfdef, errorOn extracted verbatim (C++ front end, real ppStatus/tokenType constants); from EVERY state related by the representation relation R to the C view (parentActive, taken, active, seenElse) each directive re-establishes R with the view updated as C prescribes, '
         'changes the depth by +1/0/0/-1, leaves saved parents untouched, does not evaluate conditions C never evaluates (ghost counter), and reports misplaced directives without corrupting the state. Loop-free, so this decides every directive sequence and nesting depth (inductive step). Tests run a few fixed files.',
    note='trusted: CBMC C++ front end, opaque stubs for token-level helpers (symbolic condition value / success), std::vector window model (top 4 elements of the status stack modelled, unbounded below). Not reached: macro expansion, # and ##, token output, condition values (C14).',
    technique='CBMC on mechanically extracted real functions: CHECK-encoded contracts + inductive step over a representation relation',
    design='5/C13')
for _c, _t in [('C17', 'launch-size expressions outer[k]/inner[k] = E and index maps `int it = init +- step*idx` emitted by `occa translate --launcher` for CUDA/HIP/OpenCL/Metal/DPC++ and the kept loops for Serial/OpenMP, for an enumerated family of loop headers (init x comparison x operand order x bound precedence class x update x @outer/@inner): '
                      'ghost-index contract j < N <=> the j-th iterate satisfies the source comparison, and F(j) == init +- j*step, for all run-time operand values |.| <= 10^9 without overflow; run-time steps case-split 1..16'),
               ('C19', 'the x[E] index emitted for @dim/@dimOrder accesses (arity 1-4, permutations, argument expressions of every precedence class): E == documented mixed-radix formula with every argument bound as a whole value (all 32-bit values, modulo 2^32), plus bijectivity onto [0, prod D) for small dimensions (bounded)'),
               ('C18', 'the Serial loop nest emitted for @tile(T, ...) (tile sizes, steps, directions, comparisons, operand orders, check true/false): a ghost value is visited equally often (and at most once) by the original loop and by the tiled nest, run-time bounds in a stated box, loops fully unwound (bounded)'),
               ('C15', 'the statement emitted for out[0] = EXPR over an enumerated family of expression shapes (operator pairs x parenthesisations, unary/binary, casts, ternaries, literal spellings incl. escapes): emitted == source for all 32-bit operand values where defined; string/char literals denote the same byte sequence; * / % shapes decided by token identity')]:
    CLAIMED[_c] = dict(
        level='translation_validation', engine='B-emitted-code-contracts',
        text='Contracts on the C text emitted by the REAL translator, rebuilt from the current tree every run: ' + _t + '. The translator functions themselves are beyond the C++ front end, so the quantifier over programs is enumerated (quick: seeded sample + all shapes of known findings; thorough: full family), the quantifier over run-time inputs is discharged by CBMC.',
        note='trusted: CBMC C front end + SAT, the small parser that cuts the emitted pieces (a piece that cannot be located is undecided, never a pass). Not proved: translator behaviour on programs outside the enumerated family; re-parse identity (C15).',
        technique='translation validation with a deductive back end: CBMC contracts on emitted code per enumerated program',
        design='5/' + _c)

for _c, _t in [('C03', 'placement: every live reservation inside the pool, pointer == buffer + offset, slices inside their parent, top-level reservations pairwise disjoint, and - through a ghost tracked byte followed across every backend memcpy - contents preserved by reserve/resize/shrinkToFit/setAlignment/release/slice'),
               ('C04', 'accounting: numReservations() == live reservations, reserved() == size of the union of the live ranges rounded out to the alignment (reference: sweep over sorted ranges), size() >= reserved(), reserved() == 0 when all are released, resize below reserved() and alignment 0 raise, device accounting of the backing buffers')]:
    CLAIMED[_c] = dict(
        level='other',
        text='BOUNDED stand-in, not a proof. modeMemoryPool_t::{reserve, resize, setAlignment, addModeMemoryRef, removeModeMemoryRef, numReservations} and serial::memoryPool::{makeBuffer, slice, setPtr, memcpy} extracted verbatim, std::set stub ordered by the real comparator; '
             'from every state of the family F (fresh pool, <= 2 (quick) / 3 (thorough) reservations of symbolic size at the packed offsets, optional slice, any subset released: fragmented pools, all reachable through the public operations) one symbolic operation is executed and checked: ' + _t +
             '. Quick: <= 2 reservations, sizes below 2^8, alignment 128 (-> 8); thorough: <= 3 reservations (<= 2 before a reserve), sizes below 2^9, alignments {128->8, 4096->128}. The unit tests reserve a few fixed sizes and never fragment the pool.',
        note='bounds: histories = state family F + one operation; <= 4 live reservations; alignment 128 (-> 8 for setAlignment) in quick, six pairs in thorough. Trusted: CBMC C++ front end, set/buffer stubs, addresses modelled as integers, comparator tie-break on ghost ids. Not reached: the memoryPool handle forwarders, longer histories.',
        technique='CBMC on mechanically extracted real functions from an enumerated reachable state family (bounded), ghost content tracking',
        design='5/C03-C04, 10.2')
CLAIMED['C29'] = dict(
    level='proof',
    text='The 11 newOccaType<T>, newOccaType(primitive), newOccaType(primitive,int), c::primitive(occaType[,int]), the c::kernelArg and inferJson switches and the 19 public occaBool...occaULong constructors are C-extracted each run (reusing the primitive extraction of C14): for every scalar C type and every bit pattern the occaType has the right tag, bytes and needsFree, '
         'converts back to the same value and type, converts between types like the C cast (121 pairs), and takes the kernel-argument and JSON paths with value and type intact. Loop-free, all values. Tests sample a few values per type.',
    note='trusted: CBMC C front end + SAT/cvc5, C extraction rules. Not reached: handle lifetimes (occaFree), strings, nested JSON objects/arrays, histories of set/get/free.',
    technique='CBMC contracts on mechanically C-extracted real functions (loop-free, complete over the machine domain)',
    design='5/C29')
CLAIMED['C06'] = dict(
    level='other',
    text='Composition law of the kernel cache key under a stated idealisation of the byte hash (distinct strings hash to XOR-independent one-hot values): the real serial/openmp device::kernelHash, kernelHeaderHash, kernelPropertyHash, device::setupKernelInfo composition, hash_t::operator^ and json::hash are extracted; for two symbolic configurations '
         '(values may coincide across properties) equal keys imply that every named build input (compiler, flags, linker/shared flags, env script, language, okl, defines, includes, headers, functions, source) is equal, and changing any single input changes the key. Bounded: value dumps of fixed length 2 (quick) / 3 (thorough). No finite set of example configurations can decide this.',
    note='idealisation: injectivity of the byte hash itself is assumed (no contract can prove a hash injective); trusted: CBMC C++ front end, json stub of value ids. Not reached: applyDependencyHash (file system), launcher modes, cache directory layout.',
    technique='CBMC relational contract over two symbolic configurations on mechanically extracted real functions (hash idealised)',
    design='5/C06')
CLAIMED['C10'] = dict(
    level='other',
    text='BOUNDED: modeKernel_t::setupRun extracted verbatim with fully symbolic argument and parameter lists of <= 2 (quick) / <= 3 (thorough) entries and an arbitrary cast relation: raises exactly when the counts differ, a memory/pointer mismatch exists or a memory dtype cannot be cast, otherwise returns; plus safety of dtype_t::canBeCastedTo / isCyclic over flattened vectors of <= 3 / <= 4 entries (no division by zero, indices in range).',
    note='trusted: CBMC C++ front end, std::vector stub, canBeCastedTo as uninterpreted-but-consistent predicate in part A. Not reached: the cast lattice as a specification, metadata extraction by the parser, fresh-vs-cached equality (file system + JSON).',
    technique='CBMC on mechanically extracted real functions, bounded argument lists',
    design='5/C10')

CLAIMED['C28'] = dict(
    level='other',
    text='BOUNDED: trie.cpp compiled whole and trie.hpp/trie.tpp de-templated (TM := int) over a sorted-array std::map stub; symbolic tries of depth <= 2 (quick) / <= 3 (thorough) over {a,b} with a symbolic present bit and value index per node, queries over {a,b,c} up to depth+1: '
         'unfrozen get/getValueIndex/getLongest/has/size/nodeCount and frozen freeze layout/getLongest/get/has/size/refreeze/defrost/clear equal a plain path-walk reference and each other; add/remove as one-operation inductive steps from every bounded invariant state; '
         'the frozen lookup loop C-extracted with loop contracts (dfcc) proved memory-safe and terminating for ANY query length with nodeCount <= 16.',
    note='bounds as stated; trusted: CBMC C/C++ front ends, std::map stub, shape enumeration workaround for unwinding. Not reached: trie::operator= / copy constructor, print, history steps at depth 3.',
    technique='CBMC on mechanically extracted real functions over a bounded symbolic trie; dfcc loop contracts for the frozen lookup',
    design='5/C28')
CLAIMED['C24'] = dict(
    level='other',
    text='BOUNDED, string/key escaping codec only: the string_ case of dumpToString, the object-key emission, json::loadString and the quoted-key branch of loadObjectField are cut out of json.cpp by anchored markers each run; for every byte string without NUL of length <= 4 (quick) / <= 6 (thorough): '
         'loading the dumped text yields the string and consumes exactly the dumped text, for values and for object keys; dump is injective; the \\uXXXX branch has its own helper contract.',
    note='bounded by string length; trusted: CBMC C++ front end, fixed-capacity std::string stub. Not reached: numbers, nesting, indentation, unquoted keys, hashing, determinism of whole-tree dumps.',
    technique='CBMC on marker-extracted real code blocks, bounded string length',
    design='5/C24')

PENDING_REASON = 'check not built yet in this session (planned, see DESIGN.md section 5); not claimed until it runs'


def main():
    ids = [json.loads(l)['id'] for l in open(os.path.join(HERE, 'properties.jsonl'))]
    checks, na = [], []
    for i in ids:
        if i in CLAIMED:
            c = CLAIMED[i]
            checks.append({
                'property_id': i,
                'quick_cmd': './check %s --tier quick' % i,
                'thorough_cmd': './check %s --tier thorough' % i,
                'evidence_file': 'evidence/%s.json' % i,
                'replay_cmd_template': './check %s --replay {path}' % i,
                'engine': c.get('engine', 'A-extracted-contracts'),
                'level_claimed': {'category': c['level'], 'text': c['text'], 'design_ref': c['design']},
                'level_note': c['note'],
                'technique': c['technique'],
            })
        else:
            na.append({'property_id': i, 'reason': NA_FINAL.get(i, PENDING_REASON)})
    m = {
        'version': 1,
        'setup_cmd': './setup.sh',
        'hooks': {
            'guard': 'LIBOCCA_OCCA_VERIF',
            'enable': 'no source hooks are compiled into libocca: contracts live in /verif/contracts and are attached to the functions extracted from /repo on every run; the guard name is reserved',
            'baseline_off_cmd': 'cmake --build /repo/_build -j16 && ctest --test-dir /repo/_build -j8 --timeout 900',
            'source_commits': [],
            'add_only': True,
        },
        'engines': [
            {'name': 'A-extracted-contracts', 'path': 'vp/ recipes/ contracts/ stubs/',
             'serves_properties': [i for i in ids if i in CLAIMED and CLAIMED[i].get('engine', 'A-extracted-contracts') == 'A-extracted-contracts'],
             'kind_free_text': 'functions extracted mechanically from /repo each run, contracts + harnesses attached, discharged by goto-instrument --dfcc + cbmc'},
            {'name': 'B-emitted-code-contracts', 'path': 'vp/engine_b.py recipes/',
             'serves_properties': [i for i in ids if i in CLAIMED and CLAIMED[i].get('engine') == 'B-emitted-code-contracts'],
             'kind_free_text': 'contracts on the C text emitted by the real translator (occa translate) for an enumerated program family, discharged by cbmc'},
        ],
        'checks': checks,
        'not_applicable': na,
        'notes': 'Exit codes: 0 held (known findings printed as KNOWN-FINDING), 1 VIOLATION, 2 undecided (tool limit / extraction break; never a violation). Fixes of genuine defects are the "fix:" commits in /repo listed in known_findings.json.',
    }
    with open(os.path.join(HERE, 'MANIFEST.json'), 'w') as f:
        json.dump(m, f, indent=1)
        f.write('\n')


if __name__ == '__main__':
    main()
