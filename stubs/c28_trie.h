/* C28 stub base (trusted): non-template stand-in for std::map<char, trieNode>
   (sorted array of entries, raw-pointer iterators), fixed-capacity
   std::vector<T>, INT_MAX, and OCCA_ERROR in the exception model of DESIGN 4.2.
   Part 1 (this file) only needs trieNode as an incomplete type; the member
   functions that need the complete class are in c28_trie_impl.h. */
#ifndef VERIF_C28_TRIE_H
#define VERIF_C28_TRIE_H
#include <verif_base.h>
#include <string>

#ifndef INT_MAX
#define INT_MAX 2147483647
#endif

/* exception model: the harness says whether a raise is legitimate */
extern int verif_raised;
extern bool verif_raise_allowed;
#define OCCA_ERROR(msg, cond)                                                   \
  do { if (!(cond)) {                                                           \
    verif_raised = 1;                                                           \
    __CPROVER_assert(verif_raise_allowed, "OCCA_ERROR raised only for a request the property calls invalid"); \
    __CPROVER_assume(0);                                                        \
  } } while (0)

#ifndef VERIF_VEC_CAP
#define VERIF_VEC_CAP 16
#endif
#ifndef VERIF_STUB_STD_VECTOR_IMPL
#define VERIF_STUB_STD_VECTOR_IMPL
namespace std {
  template <class T>
  class vector {
  public:
    T data_[VERIF_VEC_CAP];
    size_t n_;
    vector() { n_ = 0; }
    /* explicit copy operations: the front end cannot synthesise them for array members */
    vector(const vector &o) { n_ = o.n_; for (size_t i = 0; i < VERIF_VEC_CAP; ++i) data_[i] = o.data_[i]; }
    vector& operator = (const vector &o) { n_ = o.n_; for (size_t i = 0; i < VERIF_VEC_CAP; ++i) data_[i] = o.data_[i]; return *this; }
    size_t size() const { return n_; }
    void clear() { n_ = 0; }
    void push_back(const T &v) {
      __CPROVER_assert(n_ < VERIF_VEC_CAP, "std::vector stub capacity");
      data_[n_] = v; ++n_;
    }
    void pop_back() {
      __CPROVER_assert(n_ > 0, "std::vector::pop_back on an empty vector");
      --n_;
    }
    T& operator [] (size_t i) { __CPROVER_assert(i < n_, "std::vector index in range"); return data_[i]; }
    const T& operator [] (size_t i) const { __CPROVER_assert(i < n_, "std::vector index in range"); return data_[i]; }
  };
}
#endif

namespace occa { class trieNode; }
struct verif_trieEntry;            /* { char first; occa::trieNode second; } */

#ifndef VERIF_TRIE_FANOUT
#define VERIF_TRIE_FANOUT 2       /* capacity of one node's child map = alphabet size */
#endif

/* std::map<char, trieNode>: entries sorted by key in ents[0..n) */
class verif_trieNodeMap {
public:
  verif_trieEntry *ents;
  int n;
  verif_trieNodeMap() : ents(0), n(0) {}
  verif_trieEntry* begin();
  verif_trieEntry* end();
  verif_trieEntry* find(const char &k);
  const verif_trieEntry* begin() const;
  const verif_trieEntry* end() const;
  const verif_trieEntry* find(const char &k) const;
  size_t size() const { return (size_t) n; }
  void clear() { n = 0; }
  void erase(verif_trieEntry *it);
  occa::trieNode& operator [] (const char &k);
};
#endif
