/* C24 stub base (trusted): fixed-capacity std::string and OCCA_ERROR / OCCA_FORCE_ERROR in the exception
   model of DESIGN 4.2 (assert that the raise is legitimate, then stop the path). */
#ifndef VERIF_C24_JSON_H
#define VERIF_C24_JSON_H
#include <verif_base.h>
#include <string>
extern int verif_raised;
extern bool verif_raise_allowed;
#define OCCA_ERROR(msg, cond)                                                   \
  do { if (!(cond)) {                                                           \
    verif_raised = 1;                                                           \
    __CPROVER_assert(verif_raise_allowed, "the codec raises no error while loading text it dumped itself"); \
    __CPROVER_assume(0);                                                        \
  } } while (0)
#define OCCA_FORCE_ERROR(msg) OCCA_ERROR(msg, false)
#endif
