/* Stub base for CBMC's C++ front end (-nostdinc).  Trusted base: see DESIGN 4.3 */
#ifndef VERIF_BASE_H
#define VERIF_BASE_H
typedef unsigned long size_t;
typedef long ptrdiff_t;
typedef long ssize_t;
typedef signed char int8_t;
typedef unsigned char uint8_t;
typedef short int16_t;
typedef unsigned short uint16_t;
typedef int int32_t;
typedef unsigned int uint32_t;
typedef long int64_t;
typedef unsigned long uint64_t;
typedef unsigned long uintptr_t;
typedef long intptr_t;
#ifndef NULL
#define NULL 0
#endif
extern unsigned char __CPROVER_memory[];
extern "C" {
  void *memset(void *s, int c, size_t n);
  void *memcpy(void *d, const void *s, size_t n);
  size_t strlen(const char *s);
  int strcmp(const char *a, const char *b);
  int strncmp(const char *a, const char *b, size_t n);
  void *malloc(size_t n);
  void free(void *p);
}
/* ghost state of the exception model (DESIGN 4.2) */
extern int verif_raised;
int nondet_int();
unsigned nondet_uint();
long nondet_long();
unsigned long nondet_ulong();
bool nondet_bool();
char nondet_char();
#endif
