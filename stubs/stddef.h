#include <verif_base.h>
