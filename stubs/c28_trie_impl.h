/* C28 stub, part 2: needs the complete class occa::trieNode. */
#ifndef VERIF_C28_TRIE_IMPL_H
#define VERIF_C28_TRIE_IMPL_H
struct verif_trieEntry { char first; occa::trieNode second; };

/* bump allocator for child arrays created by operator[] (never reused:
   erase() drops entries, destructors of trieNode are trivial in the stub) */
#ifndef VERIF_TRIE_POOL
#define VERIF_TRIE_POOL 1
#endif
extern verif_trieEntry verif_trie_pool[VERIF_TRIE_POOL][VERIF_TRIE_FANOUT];
extern int verif_trie_pool_used;

inline verif_trieEntry* verif_trieNodeMap::begin() { return ents; }
/* an empty map has ents == 0: no arithmetic on the null pointer */
inline verif_trieEntry* verif_trieNodeMap::end() { return n ? ents + n : ents; }
inline const verif_trieEntry* verif_trieNodeMap::begin() const { return ents; }
inline const verif_trieEntry* verif_trieNodeMap::end() const { return n ? ents + n : ents; }
/* The fan-out is a small constant (alphabet size), so find / erase / operator[] are written
   loop-free (unrolled by the preprocessor): CBMC's --unwindset cannot name loops of C++
   functions with parameters (their identifiers contain commas). */
#if VERIF_TRIE_FANOUT > 4
#error "c28_trie_impl.h: fan-out above 4 needs more unrolled steps"
#endif
#define VERIF_TRIE_COPY(dst, src) do {                       \
    ents[dst].first = ents[src].first;                         \
    ents[dst].second.valueIndex = ents[src].second.valueIndex; \
    ents[dst].second.leaves.ents = ents[src].second.leaves.ents; \
    ents[dst].second.leaves.n = ents[src].second.leaves.n;     \
  } while (0)
#define VERIF_TRIE_FIND(i) if ((i) < VERIF_TRIE_FANOUT && (i) < n && ents[i].first == k) return ents + (i);
inline verif_trieEntry* verif_trieNodeMap::find(const char &k) {
  VERIF_TRIE_FIND(0) VERIF_TRIE_FIND(1) VERIF_TRIE_FIND(2) VERIF_TRIE_FIND(3)
  return end();
}
inline const verif_trieEntry* verif_trieNodeMap::find(const char &k) const {
  VERIF_TRIE_FIND(0) VERIF_TRIE_FIND(1) VERIF_TRIE_FIND(2) VERIF_TRIE_FIND(3)
  return end();
}
inline void verif_trieNodeMap::erase(verif_trieEntry *it) {
  __CPROVER_assert(n > 0 && ents <= it && it < ents + n, "std::map::erase of a valid iterator");
  const int idx = (int) (it - ents);
#define VERIF_TRIE_ERASE(j) if ((j) + 1 < VERIF_TRIE_FANOUT && (j) >= idx && (j) + 1 < n) VERIF_TRIE_COPY(j, (j) + 1);
  VERIF_TRIE_ERASE(0) VERIF_TRIE_ERASE(1) VERIF_TRIE_ERASE(2)
  --n;
}
inline occa::trieNode& verif_trieNodeMap::operator [] (const char &k) {
  int i = 0;     /* number of keys smaller than k = insertion position */
#define VERIF_TRIE_POS(j) if ((j) < VERIF_TRIE_FANOUT && (j) < n && ents[j].first < k) i = (j) + 1;
  VERIF_TRIE_POS(0) VERIF_TRIE_POS(1) VERIF_TRIE_POS(2) VERIF_TRIE_POS(3)
  if (i < n && ents[i].first == k) return ents[i].second;
  if (!ents) {
    __CPROVER_assert(verif_trie_pool_used < VERIF_TRIE_POOL, "trie map stub: node pool capacity");
    ents = verif_trie_pool[verif_trie_pool_used];
    ++verif_trie_pool_used;
  }
  __CPROVER_assert(n < VERIF_TRIE_FANOUT, "trie map stub: fan-out capacity");
#define VERIF_TRIE_SHIFT(j) if ((j) < VERIF_TRIE_FANOUT && (j) <= n && (j) > i) VERIF_TRIE_COPY(j, (j) - 1);
  VERIF_TRIE_SHIFT(3) VERIF_TRIE_SHIFT(2) VERIF_TRIE_SHIFT(1)
  ents[i].first = k;
  /* value-initialised mapped value: run the real trieNode::trieNode() and copy its fields */
  occa::trieNode fresh;
  ents[i].second.valueIndex = fresh.valueIndex;
  ents[i].second.leaves.ents = fresh.leaves.ents;
  ents[i].second.leaves.n = fresh.leaves.n;
  ++n;
  return ents[i].second;
}
#endif
