#!/usr/bin/env python3
"""Confirms a seeded change and runs the property's check against it.

usage: tools_seed_eval.py <property> <seed-dir> <seed-id> [--tier quick]

<seed-dir> holds patch.diff, demo.cpp, run.sh (run.sh <tree> exits 0 iff the property holds), README.md.
Steps (all recorded in /verif/seeded/<seed-id>/meta.json):
  1. scratch worktree /tmp/seedwt (persistent build dir inside it, incremental): apply patch, build,
     run the full test suite (must be 61/61), run the demo (must fail)
  2. demo on the unmodified tree (/repo with /repo/_build) must pass
  3. ./check <property> with VERIF_REPO=<the patched scratch worktree>; patch reverted afterwards (never committed)
"""
import json
import os
import re
import shutil
import subprocess
import sys
import time

VERIF = os.path.dirname(os.path.abspath(__file__))
WT = '/tmp/seedwt'


def sh(cmd, cwd=None, timeout=3600, env=None):
    p = subprocess.run(cmd, shell=isinstance(cmd, str), cwd=cwd, stdout=subprocess.PIPE, stderr=subprocess.STDOUT,
                       timeout=timeout, env=env)
    return p.returncode, p.stdout.decode(errors='replace')


def ensure_wt():
    if not os.path.exists(os.path.join(WT, '.git')):
        sh('git -C /repo worktree prune; git -C /repo worktree add --detach %s HEAD' % WT)
    sh('git -C %s checkout -q --detach %s' % (WT, sh('git -C /repo rev-parse HEAD')[1].strip()))
    sh('git -C %s checkout -- .' % WT)
    if not os.path.exists(os.path.join(WT, '_build', 'build.ninja')):
        rc, out = sh('cmake -G Ninja -S %s -B %s/_build -DCMAKE_BUILD_TYPE=RelWithDebInfo -DCMAKE_CXX_FLAGS=-Wno-error '
                     '-DOCCA_ENABLE_TESTS=ON -DOCCA_ENABLE_EXAMPLES=OFF' % (WT, WT))
        if rc:
            raise SystemExit('cmake failed: ' + out[-500:])


def main():
    prop, sdir, sid = sys.argv[1], sys.argv[2], sys.argv[3]
    tier = 'quick'
    out = os.path.join(VERIF, 'seeded', sid)
    os.makedirs(out, exist_ok=True)
    for f in os.listdir(sdir):
        if os.path.isfile(os.path.join(sdir, f)) and os.path.getsize(os.path.join(sdir, f)) < 200000:
            shutil.copy(os.path.join(sdir, f), os.path.join(out, f))
    patch = os.path.join(out, 'patch.diff')
    meta = {'seed': sid, 'property': prop, 'source_dir': sdir, 'steps': {}}
    env = dict(os.environ, OCCA_CACHE_DIR='/tmp/seedwt-cache')
    ensure_wt()
    rc, o = sh('git -C %s apply %s' % (WT, patch))
    meta['steps']['apply_to_worktree'] = {'rc': rc, 'out': o[-300:]}
    if rc == 0:
        rc, o = sh('cmake --build %s/_build -j12 2>&1 | tail -3' % WT)
        meta['steps']['build_with_change'] = {'rc': rc, 'out': o[-300:]}
        rc, o = sh('ctest --test-dir %s/_build -j8 --timeout 900 2>&1 | tail -4' % WT, env=env)
        m = re.search(r'(\d+)% tests passed, (\d+) tests failed out of (\d+)', o)
        meta['steps']['test_suite_with_change'] = {'rc': rc, 'summary': m.group(0) if m else o[-300:]}
        rc, o = sh('bash %s %s' % (os.path.join(out, 'run.sh'), WT), cwd=out, env=env, timeout=900)
        meta['steps']['demo_with_change'] = {'rc': rc, 'out': o[-600:], 'expected': 'non-zero'}
    rc, o = sh('bash %s %s' % (os.path.join(out, 'run.sh'), '/repo'), cwd=out, env=env, timeout=900)
    meta['steps']['demo_without_change'] = {'rc': rc, 'out': o[-300:], 'expected': '0'}
    # the check against the change: the scratch worktree (same commit as /repo + the patch) is the tree under
    # verification (VERIF_REPO), so /repo itself stays untouched and other runs are not disturbed
    t0 = time.time()
    try:
        rc, o = sh('./check %s --tier %s' % (prop, tier), cwd=VERIF, timeout=5400,
                   env=dict(os.environ, VERIF_JOBS=os.environ.get('VERIF_JOBS', '10'), VERIF_REPO=WT,
                            VERIF_EVIDENCE_DIR='/tmp/seed-evidence'))
    finally:
        sh('git -C %s checkout -- .' % WT)
    viol = [l[:400] for l in o.splitlines() if l.startswith('VIOLATION')]
    und = [l[:300] for l in o.splitlines() if l.startswith('UNDECIDED')]
    meta['steps']['check_against_change'] = {'cmd': './check %s --tier %s' % (prop, tier), 'exit': rc, 'wall_s': round(time.time() - t0),
                                             'violations': viol[:12], 'n_violations': len(viol), 'undecided': und[:6]}
    s = meta['steps']
    meta['confirmed'] = bool(s.get('test_suite_with_change', {}).get('summary', '').startswith('100% tests passed')
                             and s.get('demo_with_change', {}).get('rc', 0) != 0 and s['demo_without_change']['rc'] == 0)
    meta['detected'] = rc == 1 and bool(viol)
    # keep replay evidence of the first violation
    with open(os.path.join(out, 'meta.json'), 'w') as f:
        json.dump(meta, f, indent=1)
    print(json.dumps({k: meta[k] for k in ('seed', 'property', 'confirmed', 'detected')}),
          s.get('test_suite_with_change', {}).get('summary'), 'demo with/without:', s.get('demo_with_change', {}).get('rc'),
          s['demo_without_change']['rc'], 'check exit', rc, len(viol), 'violations')


if __name__ == '__main__':
    main()
