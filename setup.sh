#!/bin/sh
# Offline setup: nothing is fetched.  Pre-builds libocca + bin/occa from /repo's
# current tree into a scratch build dir outside /repo and /verif (used by the
# emitted-code checks and by native replay; every check rebuilds it incrementally).
set -e
cd "$(dirname "$0")"
command -v cbmc goto-cc goto-instrument >/dev/null
python3 -c "import sys; sys.path.insert(0,'.'); from vp import replaylib; print(replaylib.ensure_lib())"
