#!/usr/bin/env python3
"""Validate MANIFEST.json and evidence files against the schemas."""
import json, sys, glob, jsonschema
m = json.load(open('/verif/MANIFEST.json'))
jsonschema.validate(m, json.load(open('/root/.vp/MANIFEST.schema.json')))
es = json.load(open('/root/.vp/EVIDENCE.schema.json'))
ids = {json.loads(l)['id'] for l in open('/verif/properties.jsonl')}
claimed = {c['property_id'] for c in m['checks']}
na = {c['property_id'] for c in m.get('not_applicable', [])}
assert claimed | na == ids and not (claimed & na), (ids - claimed - na, claimed & na)
for c in m['checks']:
    p = '/verif/' + c['evidence_file'] if not c['evidence_file'].startswith('/') else c['evidence_file']
    try:
        jsonschema.validate(json.load(open(p)), es)
    except FileNotFoundError:
        print('missing evidence', p)
print('ok', len(claimed), 'claimed', len(na), 'n/a')
