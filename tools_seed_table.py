#!/usr/bin/env python3
"""Prints the DESIGN 10.6 table from seeded/*/meta.json."""
import glob, json, os, re
rows = []
for p in sorted(glob.glob(os.path.join(os.path.dirname(os.path.abspath(__file__)), 'seeded', '*', 'meta.json'))):
    m = json.load(open(p))
    s = m['steps']
    c = s.get('check_against_change', {})
    obl = ''
    if c.get('violations'):
        mm = re.search(r'obligation="([^"]*)"', c['violations'][0])
        obl = mm.group(1)[:110] if mm else ''
    what = m.get('what', '')
    rows.append('| %s | %s | %s | %s | %s | %s |' % (m['seed'], m['property'], what, 'yes' if m.get('confirmed') else 'NO',
                'caught (%d VIOLATION lines, exit %s)' % (c.get('n_violations', 0), c.get('exit')) if m.get('detected') else
                ('undecided (exit 2)' if c.get('exit') == 2 else 'MISSED (exit %s)' % c.get('exit')), obl))
print('| seed | property | change | confirmed (61/61, demo fails with / passes without) | check result | first failing obligation |')
print('|------|----------|--------|------|------|------|')
print('\n'.join(rows))
