#!/usr/bin/env python3
"""Prints the DESIGN 10.6 table from seeded/*/meta.json."""
import glob, json, os, re
WHAT = {
 'C27-seed1': 'hash() processes aligned 32-bit words: result depends on the buffer address',
 'C27-seed2': 'operator= copies the cached short string and marks it valid, ^= xors in place (two cooperating sites): stale short string on a copy made after getString(); ^=',
 'C05-seed1': 'device::malloc decides accounting from the use_host_pointer property instead of isWrapped (differs when no source pointer is given)',
 'C05-seed2': 'pool accounting folded into a helper; setAlignment passes the old reserved size instead of the new buffer size',
 'C02-seed1': 'copyTo(memory): destination offset scaled by the source element size',
 'C02-seed2': 'serial copyFrom(modeMemory_t*): bogus self-copy shortcut when buffer and view-relative offsets coincide',
 'C14-seed1': '?: folding evaluates both branches',
 'C14-seed2': 'primitiveType flags regrouped (signed, then unsigned): common-type choice wrong for unsigned int x long',
 'C01-seed1': 'modeMemory_t::addMemoryRef returns early after dontUseRefs(): later copies are not nulled by free()',
 'C01-seed2': 'swap() relinks in place in the wrong order: breaks when a third handle shares one of the objects',
 'C12-seed1': 'unescape() also collapses an escaped backslash (printing still escapes only the quote)',
 'C12-seed2': 'tokenizer skipTo/skipFrom: shared helper always advances two bytes over a backslash (steps over the NUL)',
 'C13-seed1': 'macro-expansion bookkeeping: outer macro stays marked as being expanded after an empty expansion',
 'C13-seed2': 'short-circuit of && / || returns the left operand instead of its truth value',
 'C17-seed1': 'inclusive +1 added after the ceiling division of the launch count',
 'C17-seed2': 'comparison normalised with the negation table instead of the mirror table when the bound is the left operand',
 'C06-seed1': 'property name and value hashed separately and XOR-ed',
 'C06-seed2': 'string kernels staged under a partial hash (file-system level)',
 'C03-seed1': 'hole search: offset = mhi instead of max(offset, mhi) (a slice ending earlier moves the candidate backwards)',
 'C03-seed2': 'comparator drops the pointer tie-break (std::tie of offset, size): equal ranges become one set entry',
 'C04-seed1': 'coverage sweep factored into a helper with `mhi <= lo` instead of `mhi <= cursor`',
 'C29-seed1': 'occaString("") stored as JSON null (NULL string detected by bytes == 0)',
 'C24-seed1': 'dump writes \\u00XX for control characters, which loadString does not decode',
 'C28-seed1': 'nestedRemove erases a node that still stores a key (prefix of the removed key)',
 'C18-seed1': 'in-block check operator chosen from the loop direction: reversed for inclusive comparisons with the bound on the left',
 'C19-seed1': 'parentheses only when the operand binds looser: right operand of dim * index with / or % left bare',
}
rows = []
for p in sorted(glob.glob(os.path.join(os.path.dirname(os.path.abspath(__file__)), 'seeded', '*', 'meta.json'))):
    m = json.load(open(p))
    s = m['steps']
    c = s.get('check_against_change', {})
    obl = ''
    if c.get('violations'):
        mm = re.search(r'obligation="([^"]*)"', c['violations'][0])
        obl = mm.group(1)[:110] if mm else ''
    what = m.get('what', '') or WHAT.get(m['seed'], '')
    rows.append('| %s | %s | %s | %s | %s | %s |' % (m['seed'], m['property'], what, 'yes' if m.get('confirmed') else 'NO',
                'caught (%d VIOLATION lines, exit %s)' % (c.get('n_violations', 0), c.get('exit')) if m.get('detected') else
                ('undecided (exit 2)' if c.get('exit') == 2 else 'MISSED (exit %s)' % c.get('exit')), obl))
print('| seed | property | change | confirmed (61/61, demo fails with / passes without) | check result | first failing obligation |')
print('|------|----------|--------|------|------|------|')
print('\n'.join(rows))
