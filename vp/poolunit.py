"""Translation unit shared by C03 and C04: the memory-pool functions of
modeMemoryPool_t and serial::memoryPool extracted verbatim from /repo, a sorted-
array std::set stub driven by the REAL comparator text, and a harness that
reaches pool states only through the real operations."""
import re

from .core import Undecided
from .extract import extract_function, extract_block, rewrite, extract_local_helpers

W = r'\s*'
POOL_CPP = 'src/occa/internal/core/memoryPool.cpp'
POOL_HPP = 'src/occa/internal/core/memoryPool.hpp'
SER_POOL = 'src/occa/internal/modes/serial/memoryPool.cpp'
SER_MEM = 'src/occa/internal/modes/serial/memory.cpp'
CORE_POOL = 'src/core/memoryPool.cpp'

PRELUDE = r'''
#include <verif_base.h>
#include <tuple>   /* stub: std::tie of two lvalues, for comparators written with it */
typedef long dim_t;
typedef unsigned long udim_t;
static bool verif_request_invalid;
static int verif_raised;
#define OCCA_ERROR(msg, cond) do { if (!(cond)) { verif_raised = 1; \
  __CPROVER_assert(verif_request_invalid, "occa::exception is raised only for requests that are invalid by the property's definition"); \
  __CPROVER_assume(0); } } while (0)
namespace std {
  inline udim_t max(udim_t a, udim_t b) { return (a < b) ? b : a; }
  inline dim_t max(dim_t a, dim_t b) { return (a < b) ? b : a; }
  inline dim_t min(dim_t a, dim_t b) { return (b < a) ? b : a; }
}
#ifndef VERIF_CAP
#define VERIF_CAP 5
#endif
/* ---- ghost: where does the content of one tracked byte live? ------------------- */
static bool track_on; static udim_t track_addr;           /* address holding the tracked content at entry of the operation */
static bool copy_valid; static udim_t copy_addr;          /* address it was migrated to */
static bool clobbered; static int verif_memcpy_calls;
static udim_t verif_next_base = 1;
static udim_t verif_next_id = 0;
/* device addresses are modelled as integers in a flat address space (char* + offset == integer
   addition): CBMC's pointer <-> integer casts are not stable enough to compare addresses */
struct vaddr { udim_t a; };
static inline vaddr operator + (const vaddr p, const dim_t off) { vaddr r; r.a = p.a + (udim_t) off; return r; }
static void verif_pool_memcpy(vaddr d, vaddr s, udim_t n) {
  ++verif_memcpy_calls;
  udim_t D = d.a, S = s.a;
  if (copy_valid && D <= copy_addr && copy_addr - D < n && !(track_on && S <= track_addr && track_addr - S < n && D + (track_addr - S) == copy_addr)) clobbered = true;
  if (track_on && S <= track_addr && track_addr - S < n) { copy_valid = true; copy_addr = D + (track_addr - S); }
}
'''

SKELETON = r'''
namespace occa {
  class modeMemory_t; class modeMemoryPool_t;
  class modeDevice_t { public: udim_t bytesAllocated; udim_t maxBytesAllocated;
    modeDevice_t() : bytesAllocated(0), maxBytesAllocated(0) {} };
  /* backing buffer: every buffer lives in its own 2^32-byte region of the address space, so
     addresses of different buffers never coincide; accounting of its destructor is C05's subject
     and replicated here (unwrapped buffer: bytesAllocated -= size) */
  class modeBuffer_t { public: vaddr ptr; udim_t size; modeDevice_t *modeDevice;
    modeBuffer_t(modeDevice_t *d) : size(0), modeDevice(d) { ptr.a = 0; }
    void malloc(udim_t bytes) { ptr.a = (verif_next_base << 32); ++verif_next_base; size = bytes; } };
  static int verif_deleted_buffers;
  static void verif_delete(modeBuffer_t *b) { if (b) { ++verif_deleted_buffers; b->modeDevice->bytesAllocated -= b->size; } }

  class modeMemory_t { public:
    modeMemoryPool_t *modeBuffer;      /* the pool is the modeBuffer_t of its reservations */
    vaddr ptr; udim_t size; dim_t offset;
    udim_t verif_id;                    /* ghost: stands for the object's address in the comparator's tie-break */
    modeMemory_t() : modeBuffer(0), size(0), offset(0) { ptr.a = 0; verif_id = ++verif_next_id; } };
  struct verif_ring { int adds, removes; verif_ring() : adds(0), removes(0) {}
    void addRef(modeMemory_t *m) { ++adds; } void removeRef(modeMemory_t *m) { ++removes; } };   /* rings: C01 */

@COMPARE@

  /* std::set<modeMemory_t*, compare> as a sorted array ordered by the real comparator */
  class reservationSet { public:
    modeMemory_t *a[VERIF_CAP]; int n;
    reservationSet() : n(0) {}
    modeMemory_t** begin() { return a; }
    modeMemory_t** end() { return a + n; }
    modeMemory_t* const* begin() const { return a; }
    modeMemory_t* const* end() const { return a + n; }
    udim_t size() const { return (udim_t) n; }
    modeMemory_t** find(modeMemory_t *m) {
      compare lt;
      for (int i = 0; i < n; ++i) if (!lt(a[i], m) && !lt(m, a[i])) return a + i;
      return a + n; }
    void erase(modeMemory_t **pos) {
      __CPROVER_assert(pos != a + n, "std::set::erase(end()) is undefined behaviour");
      int k = (int) (pos - a);
      for (int i = k; i + 1 < n; ++i) a[i] = a[i + 1];
      --n; }
    void emplace(modeMemory_t *m) {
      compare lt; int k = 0;
      while (k < n && lt(a[k], m)) ++k;
      if (k < n && !lt(m, a[k])) return;                     /* equivalent element present */
      __CPROVER_assert(n < VERIF_CAP, "std::set stub capacity (bound on live reservations)");
      for (int i = n; i > k; --i) a[i] = a[i - 1];
      a[k] = m; ++n; }
  };

  typedef reservationSet verif_reservationSet;
  typedef compare verif_compare;
  class modeMemoryPool_t { public:
    typedef verif_reservationSet reservationSet;   /* nested names of the real class, for helpers that spell them */
    typedef verif_compare compare;
    verif_ring modeMemoryRing;
    reservationSet reservations;
    udim_t alignment; udim_t reserved;
    modeBuffer_t *buffer;
    bool verbose;
    udim_t size;                       /* modeBuffer_t::size of the pool object itself */
    modeDevice_t *modeDevice;
    modeMemoryPool_t(modeDevice_t *d) : alignment(@ALIGN0@), reserved(0), buffer(0), verbose(false), size(0), modeDevice(d) {}
    udim_t numReservations() const;
    modeMemory_t* reserve(const udim_t bytes);
    void resize(const udim_t bytes);
    void setAlignment(const udim_t newAlignment);
    void addModeMemoryRef(modeMemory_t *mem);
    void removeModeMemoryRef(modeMemory_t *mem);
    /* serial::memoryPool, flattened */
    modeBuffer_t* makeBuffer();
    modeMemory_t* slice(const dim_t offset, const udim_t bytes);
    void setPtr(modeMemory_t* mem, modeBuffer_t* buf, const dim_t offset);
    void memcpy(modeBuffer_t* dst, const dim_t dstOffset, modeBuffer_t* src, const dim_t srcOffset, const udim_t bytes);
  };
  /* new serial::memory(memPool, bytes, offset): base constructor modeMemory_t(memPool, size_, offset_)
     (registers with the pool: modeBuffer->addModeMemoryRef(this)), then the derived body */
  static modeMemory_t* verif_new_pool_memory(modeMemoryPool_t *memPool, udim_t size_, dim_t offset_) {
    modeMemory_t *m = new modeMemory_t();
    m->modeBuffer = memPool; m->ptr.a = 0; m->size = size_; m->offset = offset_;
    memPool->addModeMemoryRef(m);
    @SERIAL_MEM_CTOR_BODY@
    return m; }
}
'''


def build_unit(ctx):
    fns = []

    def get(rel, rx, name, rules=()):
        e = extract_function(ctx, rel, rx, name=name)
        fns.append(e)
        return rewrite(e, list(rules))

    cmp_ = extract_block(ctx, POOL_HPP, r'^    struct compare \{', name='modeMemoryPool_t::compare')
    fns.append(cmp_)
    ctor = extract_function(ctx, POOL_CPP, r'^  modeMemoryPool_t::modeMemoryPool_t\(modeDevice_t \*modeDevice_,\s*const occa::json &properties_\)%s:' % W,
                            name='modeMemoryPool_t::modeMemoryPool_t')
    fns.append(ctor)
    m = re.search(r'alignment\((\d+)\),\s*reserved\(0\),\s*buffer\(nullptr\)', ctor.text)
    if not m:
        raise Undecided('skeleton rule: modeMemoryPool_t constructor no longer initialises alignment(N), reserved(0), buffer(nullptr)')
    align0 = m.group(1)
    ctor.rules.append(('skeleton constructor takes alignment(%s), reserved(0), buffer(nullptr) from the real initialiser list' % align0, 1))

    RF = 'range-for desugared ([stmt.ranged]): iterator loop over begin()/end()'
    AU = 'auto -> the iterator type of the set stub'
    rf = (RF, r'for \((?:const )?modeMemory_t\s*\*\s*(?:const )?(\w+) : (\w+)\) \{',
          r'for (modeMemory_t** verif_it = (modeMemory_t**) \2.begin(); verif_it != (modeMemory_t**) \2.end(); ++verif_it) { modeMemory_t* \1 = *verif_it;')
    parts = []
    parts.append(get(POOL_CPP, r'^  udim_t modeMemoryPool_t::numReservations\(\) const%s\{' % W, 'modeMemoryPool_t::numReservations'))
    parts.append(get(POOL_CPP, r'^  void modeMemoryPool_t::addModeMemoryRef\(modeMemory_t \*mem\)%s\{' % W, 'modeMemoryPool_t::addModeMemoryRef', [rf + ('*',)]))
    parts.append(get(POOL_CPP, r'^  void modeMemoryPool_t::removeModeMemoryRef\(modeMemory_t \*mem\)%s\{' % W, 'modeMemoryPool_t::removeModeMemoryRef',
                     [rf + ('*',), (AU, r'auto pos = ', 'modeMemory_t** pos = ', 1)]))
    parts.append(get(POOL_CPP, r'^  modeMemory_t\* modeMemoryPool_t::reserve\(const udim_t bytes\)%s\{' % W, 'modeMemoryPool_t::reserve', [rf + ('*',)]))
    io = ('verbose output dropped (io::stdout)', r'io::stdout << [^;]*;', ';', 1)
    parts.append(get(POOL_CPP, r'^  void modeMemoryPool_t::resize\(const udim_t bytes\)%s\{' % W, 'modeMemoryPool_t::resize',
                     [io, (AU, r'auto it = ', 'modeMemory_t** it = ', 1), rf + ('*',)]))
    parts.append(get(POOL_CPP, r'^  void modeMemoryPool_t::setAlignment\(const udim_t newAlignment\)%s\{' % W, 'modeMemoryPool_t::setAlignment',
                     [(AU, r'auto it = ', 'modeMemory_t** it = ', 1), rf + ('*',)]))
    fl = 'flattening to the Serial-mode class: qualifier serial::memoryPool:: -> modeMemoryPool_t::'
    parts.append(get(SER_POOL, r'^    modeBuffer_t\* memoryPool::makeBuffer\(\)%s\{' % W, 'serial::memoryPool::makeBuffer',
                     [(fl, r'modeBuffer_t\* memoryPool::makeBuffer', 'modeBuffer_t* modeMemoryPool_t::makeBuffer', 1),
                      ('backing buffer stub: new serial::buffer(modeDevice, 0, properties) -> new modeBuffer_t(modeDevice)', r'new serial::buffer\(modeDevice, 0, properties\)', 'new modeBuffer_t(modeDevice)', 1)]))
    parts.append(get(SER_POOL, r'^    modeMemory_t\* memoryPool::slice\(const dim_t offset,\s*const udim_t bytes\)%s\{' % W, 'serial::memoryPool::slice',
                     [(fl, r'modeMemory_t\* memoryPool::slice', 'modeMemory_t* modeMemoryPool_t::slice', 1),
                      ('new serial::memory(this, bytes, offset) -> base constructor + derived body', r'new serial::memory\(', 'verif_new_pool_memory(', 1)]))
    parts.append(get(SER_POOL, r'^    void memoryPool::setPtr\(modeMemory_t\* mem, modeBuffer_t\* buf,\s*const dim_t offset\)%s\{' % W, 'serial::memoryPool::setPtr',
                     [(fl, r'void memoryPool::setPtr', 'void modeMemoryPool_t::setPtr', 1)]))
    parts.append(get(SER_POOL, r'^    void memoryPool::memcpy\(modeBuffer_t\* dst, const dim_t dstOffset,\s*modeBuffer_t\* src, const dim_t srcOffset,\s*const udim_t bytes\)%s\{' % W,
                     'serial::memoryPool::memcpy',
                     [(fl, r'void memoryPool::memcpy', 'void modeMemoryPool_t::memcpy', 1),
                      ('::memcpy -> ghost content-tracking stub', r'(?<![\w>])::memcpy\(', 'verif_pool_memcpy(', 1)]))
    mctor = extract_function(ctx, SER_MEM, r'^    memory::memory\(memoryPool \*memPool,\s*udim_t size_, dim_t offset_\)%s:' % W, name='serial::memory::memory(memoryPool*)')
    fns.append(mctor)
    mb = re.search(r'occa::modeMemory_t\(memPool, size_, offset_\)\s*\{(.*)\}\s*$', mctor.text, re.S)
    if not mb:
        raise Undecided('flattening rule: serial::memory(memoryPool*) constructor shape changed')
    body = mb.group(1).strip()
    body2, n = re.subn(r'(?<![\w>.])(ptr|offset)\b', r'm->\1', body)
    mctor.rules.append(('flattening: derived constructor body applied to the new object (implicit this -> m->)', n))
    helpers = []
    for rel in (POOL_CPP, SER_POOL):
        for h in extract_local_helpers(ctx, rel):
            fns.append(h)
            ht, nn = re.subn(r'^([ \t]*)namespace[ \t]*\{', r'\1namespace verif_anon {', h.text, count=1, flags=re.M)
            if nn:
                h.rules.append(('anonymous namespace -> named namespace + using-directive (front end: "unique namespace not supported")', nn))
                ht += '\n  using namespace verif_anon;\n'
            helpers.append(ht)
    helpers = [re.sub(rf[1], rf[2], h) for h in helpers]       # the same desugaring applies inside factored-out helpers
    real = '\n\n'.join(helpers + parts)
    nrf = real.count('verif_it != ')
    if nrf < 3:
        raise Undecided('rewrite rule "%s" fired %d times over the pool unit (expected >= 3)' % (RF, nrf))
    real, n = re.subn(r'\bnullptr\b', '0', real)
    real, n = re.subn(r'\bdelete\s+([A-Za-z_]\w*)\s*;', r'verif_delete(\1);', real)
    if n < 3:
        raise Undecided('rewrite rule "delete buffer; -> recorded deletion" fired %d times (expected >= 3)' % n)
    fns[0].rules.append(('delete buffer; -> verif_delete(buffer): deletion of a backing buffer is recorded with the accounting effect of ~modeBuffer_t (proved in C05)', n))
    cmp_body = rewrite(cmp_, [('tie-break on object addresses -> on ghost object ids: pointer order is a total order on distinct '
                               'objects and CBMC does not provide one across objects (any total order is a valid implementation choice)',
                               r'return \(a < b\);', 'return (a->verif_id < b->verif_id);', '*')])   # optional: a comparator without the tie-break is taken as it is
    cmp_text = re.sub(r'^', '  ', cmp_body, flags=re.M) + ';'
    skel = SKELETON.replace('@COMPARE@', cmp_text).replace('@ALIGN0@', align0).replace('@SERIAL_MEM_CTOR_BODY@', body2)
    text = PRELUDE + skel + '\nnamespace occa {\n' + real + '\n}\nusing namespace occa;\n'
    return text, fns


HARNESS = r'''
#ifndef ALIGN
#define ALIGN 128
#endif
#ifndef ALIGN2
#define ALIGN2 8
#endif
#ifndef SZ_BITS
#define SZ_BITS 10
#endif
#define NR 4
/* each property's groups compile only that property's assertions (the others cost solver time for nothing) */
#ifdef CHECK_C03
#define VERIF_A3(c, l) __CPROVER_assert(c, l)
#else
#define VERIF_A3(c, l) ((void) 0)
#endif
#ifdef CHECK_C04
#define VERIF_A4(c, l) __CPROVER_assert(c, l)
#else
#define VERIF_A4(c, l) ((void) 0)
#endif
#ifdef CHECK_C05
#define VERIF_A5(c, l) __CPROVER_assert(c, l)
#else
#define VERIF_A5(c, l) ((void) 0)
#endif
static modeDevice_t dev;
static modeMemoryPool_t *pool;
static modeMemory_t *R[NR]; static bool live[NR]; static bool isSlice[NR]; static int parent[NR];
static int nlive() { int c = 0; for (int i = 0; i < NR; ++i) if (live[i]) ++c; return c; }

static udim_t up(udim_t x, udim_t a) { return ((x + a - 1) / a) * a; }
static udim_t down(udim_t x, udim_t a) { return (x / a) * a; }
/* reference: size of the union of the live ranges, each rounded out to the alignment
   (sweep over the ranges sorted by start - a different algorithm from the code's) */
static udim_t spec_reserved(udim_t a) {
  udim_t lo[NR], hi[NR]; int n = 0;
  for (int i = 0; i < NR; ++i) if (live[i]) { lo[n] = down((udim_t) R[i]->offset, a); hi[n] = up((udim_t) R[i]->offset + R[i]->size, a); ++n; }
  for (int i = 0; i < n; ++i) for (int j = i + 1; j < n; ++j) if (lo[j] < lo[i]) { udim_t t = lo[i]; lo[i] = lo[j]; lo[j] = t; t = hi[i]; hi[i] = hi[j]; hi[j] = t; }
  udim_t total = 0, end = 0;
  for (int i = 0; i < n; ++i) { udim_t s = lo[i] < end ? end : lo[i]; if (hi[i] > s) { total += hi[i] - s; end = hi[i]; } }
  return total;
}

static void check_pool(const char *when) {
  /* ---- C03: placement */
  for (int i = 0; i < NR; ++i) if (live[i]) {
    VERIF_A3(R[i]->offset >= 0 && (udim_t) R[i]->offset + R[i]->size <= pool->size, "C03: every live reservation lies inside the pool");
    VERIF_A3(pool->buffer != 0 && R[i]->ptr.a == pool->buffer->ptr.a + (udim_t) R[i]->offset, "C03: reservation pointer is the pool buffer plus its offset");
    VERIF_A3(pool->buffer != 0 && pool->buffer->size >= pool->size, "C03: backing buffer is at least as large as the pool size");
    if (isSlice[i] && live[parent[i]])
      VERIF_A3(R[i]->offset >= R[parent[i]]->offset && (udim_t) R[i]->offset + R[i]->size <= (udim_t) R[parent[i]]->offset + R[parent[i]]->size, "C03: a slice lies inside the reservation it was cut from");
    for (int j = i + 1; j < NR; ++j) if (live[j] && !isSlice[i] && !isSlice[j])
      VERIF_A3((udim_t) R[i]->offset + R[i]->size <= (udim_t) R[j]->offset || (udim_t) R[j]->offset + R[j]->size <= (udim_t) R[i]->offset || R[i]->size == 0 || R[j]->size == 0,
                       "C03: live reservations occupy pairwise disjoint byte ranges");
  }
  /* ---- C04: accounting */
  VERIF_A4(pool->numReservations() == (udim_t) nlive(), "C04: numReservations() equals the number of live reservations");
  VERIF_A4(pool->reserved == spec_reserved(pool->alignment), "C04: reserved() equals the size of the union of the live ranges rounded out to the alignment");
  VERIF_A4(pool->size >= pool->reserved, "C04: size() is at least reserved()");
  if (nlive() == 0) VERIF_A4(pool->reserved == 0, "C04: reserved() is 0 when every reservation is released");
  VERIF_A5(dev.bytesAllocated == (pool->buffer ? pool->buffer->size : (udim_t) 0), "C05: device accounting equals the live backing buffer of the pool");
}

static void release(int i) { pool->removeModeMemoryRef(R[i]); live[i] = false; }

/* State family F (every member is reachable through the public operations): a fresh pool whose
   alignment was set while empty, n <= 3 reservations of symbolic sizes made one after the other
   (the k-th lands at the packed offset sum of the earlier aligned sizes - this is itself the
   obligation "reserve" discharged from the non-fragmented members of F), an optional slice of the
   first, and any subset released (obligation "release"): packed layouts with holes.  The state is
   written directly; `reserved` is the reference value, which the accounting obligation re-establishes
   after every operation. */
static void construct_state() {
  pool = new modeMemoryPool_t(&dev);
  pool->alignment = ALIGN;
  for (int i = 0; i < NR; ++i) { R[i] = 0; live[i] = false; isSlice[i] = false; parent[i] = -1; }
#ifndef MAXN
#define MAXN 3
#endif
  int n = nondet_int(); __CPROVER_assume(0 <= n && n <= MAXN);
  udim_t cum = 0;
  for (int i = 0; i < 3; ++i) if (i < n) {
    udim_t s = nondet_ulong(); __CPROVER_assume(1 <= s && s < (1ul << SZ_BITS));
    R[i] = new modeMemory_t(); R[i]->modeBuffer = pool; R[i]->size = s; R[i]->offset = (dim_t) cum; live[i] = true;
    cum += up(s, ALIGN);
  }
  if (n >= 1 && nondet_bool()) {
    udim_t so = nondet_ulong(), sn = nondet_ulong();
    __CPROVER_assume(so <= R[0]->size && sn <= R[0]->size - so);
    R[3] = new modeMemory_t(); R[3]->modeBuffer = pool; R[3]->size = sn; R[3]->offset = R[0]->offset + (dim_t) so;
    live[3] = true; isSlice[3] = true; parent[3] = 0;
  }
  pool->size = cum;
  if (n > 0) { pool->buffer = pool->makeBuffer(); pool->buffer->malloc(cum); dev.bytesAllocated = cum; dev.maxBytesAllocated = cum; }
  for (int i = 0; i < NR; ++i) if (live[i] && nondet_bool()) live[i] = false;          /* released earlier */
  for (int i = 0; i < NR; ++i) if (live[i]) { R[i]->ptr = pool->buffer->ptr + R[i]->offset; pool->reservations.emplace(R[i]); }
  pool->reserved = spec_reserved(ALIGN);
}

extern "C" void h_pool_op() {
  verif_request_invalid = false;
  construct_state();
  /* choose a byte of a live reservation and follow its content through the operation */
  int t = nondet_int(); __CPROVER_assume(0 <= t && t < NR);
  udim_t idx = nondet_ulong();
  bool tracking = live[t] && idx < R[t]->size;
  track_on = tracking; track_addr = 0; if (tracking) track_addr = R[t]->ptr.a + idx;   /* no mixed-type ?: (front end mistypes it) */ copy_valid = false; clobbered = false;
  modeBuffer_t *buf0 = pool->buffer; udim_t reserved0 = pool->reserved, size0 = pool->size; int del0 = verif_deleted_buffers;
  int op = nondet_int();
#ifdef VERIF_OP
  __CPROVER_assume(op == VERIF_OP);
#endif
  __CPROVER_assume(0 <= op && op <= 5);
  int fresh = -1;
  if (op == 0) {            /* reserve */
    udim_t s = nondet_ulong(); __CPROVER_assume(1 <= s && s < (1ul << SZ_BITS));
    int k = 0; while (k < NR && R[k] != 0) ++k;
    __CPROVER_assume(k < NR);
    R[k] = pool->reserve(s); live[k] = true; fresh = k;
    VERIF_A3(R[k]->size == s, "C03: reserve returns a reservation of the requested size");
  } else if (op == 1) {     /* resize */
    udim_t b = nondet_ulong(); __CPROVER_assume(b < (1ul << (SZ_BITS + 3)));
    verif_request_invalid = b < reserved0;
    pool->resize(b);
    VERIF_A4(b >= reserved0, "C04: resizing below reserved() must raise occa::exception");
    VERIF_A4(pool->size >= b, "C04: after resize(b) size() is at least b");
  } else if (op == 2) {     /* shrinkToFit */
    pool->resize(pool->reserved);
    VERIF_A4(pool->size >= pool->reserved, "C04: shrinkToFit keeps size() >= reserved()");
  } else if (op == 3) {     /* setAlignment */
    udim_t a = nondet_bool() ? (udim_t) ALIGN2 : (udim_t) 0;
    verif_request_invalid = a == 0;
    pool->setAlignment(a);
    VERIF_A4(a != 0, "C04: alignment 0 must raise occa::exception");
    VERIF_A3(pool->alignment == a, "C03: setAlignment sets the alignment");
  } else if (op == 4) {     /* release */
    int j = nondet_int(); __CPROVER_assume(0 <= j && j < NR && live[j]);
    if (j == t) tracking = false;
    release(j);
  } else {                  /* slice of a live top-level reservation */
    int j = nondet_int(); __CPROVER_assume(0 <= j && j < 3 && live[j] && R[3] == 0);
    udim_t so = nondet_ulong(), sn = nondet_ulong();
    __CPROVER_assume(so <= R[j]->size && sn <= R[j]->size - so);
    R[3] = pool->slice(R[j]->offset + (dim_t) so, sn); live[3] = true; isSlice[3] = true; parent[3] = j;
  }
  check_pool("after the operation");
  if (tracking) {
    udim_t now = R[t]->ptr.a + idx;
    if (pool->buffer == buf0) VERIF_A3(now == track_addr && !copy_valid, "C03: without migration a live reservation keeps its bytes in place");
    else VERIF_A3(copy_valid && copy_addr == now && !clobbered, "C03: growing, compacting or re-aligning the pool moves every live byte to its reservation's new place");
  }
  if (pool->buffer != buf0 && buf0 != 0) VERIF_A5(verif_deleted_buffers == del0 + 1, "C05: the replaced backing buffer is released exactly once");
#ifdef CANARY
  __CPROVER_assert(op < 0, "canary");
#endif
}
'''
