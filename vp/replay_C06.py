"""Native replay for C06: builds the same trivial kernel on a Serial (and OpenMP when available)
device with two different build configurations that the verifier's counterexample class covers
and compares kernel.hash() and the value computed by the kernel that actually runs.

  joint obligation ("equal cache keys imply identical build inputs"):
     A: compiler_flags = compiler_linker_flags = "-DVAL=1"
     B: compiler_flags = compiler_linker_flags = "-DVAL=2"      (two values changed to the same value: XOR cancels)
     C/D: compiler_flags and compiler_linker_flags swapped        (XOR is symmetric)
  okl obligation ("changing only okl changes the cache key"):
     the same raw C++ source built with okl/enabled false, then true.
"""
import re

from . import replaylib

PROG = r'''
#include <occa.hpp>
#include <occa/utils/env.hpp>
#include <cstdio>
#include <string>
static const char *SRC =
  "@kernel void f(int *out) { for (int i = 0; i < 1; ++i; @outer) { for (int j = 0; j < 1; ++j; @inner) { out[0] = VAL; } } }";
static int run(occa::device dev, const char *props, std::string &h) {
  occa::kernel k = dev.buildKernelFromString(SRC, "f", occa::json::parse(props));
  h = k.hash().getFullString();
  int out = -1; occa::memory m = dev.malloc<int>(1); k(m); m.copyTo(&out); return out;
}
int main(int argc, char **argv) {
  int bad = 0;
  occa::env::setOccaCacheDir("./c06-replay-cache");   /* private, empty kernel cache (the program runs in a fresh scratch directory) */
  const char *modes[] = { "{mode: 'Serial'}", "{mode: 'OpenMP'}" };
  for (int mi = 0; mi < 2; ++mi) {
    occa::device dev;
    try { dev = occa::device(std::string(modes[mi])); } catch (...) { printf("%s: not available\n", modes[mi]); continue; }
    if (mi == 1 && dev.mode() != "OpenMP") { printf("OpenMP: not enabled in this build (fell back to %s)\n", dev.mode().c_str()); continue; }
    std::string h1, h2, h3, h4;
    int a = run(dev, "{compiler_flags: '-DVAL=1', compiler_linker_flags: '-DVAL=1'}", h1);
    int b = run(dev, "{compiler_flags: '-DVAL=2', compiler_linker_flags: '-DVAL=2'}", h2);
    printf("%s A flags=linker_flags=-DVAL=1: key %.16s value %d\n", dev.mode().c_str(), h1.c_str(), a);
    printf("%s B flags=linker_flags=-DVAL=2: key %.16s value %d (its own configuration computes 2)\n", dev.mode().c_str(), h2.c_str(), b);
    if (h1 == h2) { printf("FAILS: JOINT %s: configurations A and B differ in compiler_flags and compiler_linker_flags and share one cache key\n", dev.mode().c_str()); bad = 1; }
    if (b != 2) { printf("FAILS: JOINT %s: build B runs the binary compiled for configuration A (value %d)\n", dev.mode().c_str(), b); bad = 1; }
    int c = run(dev, "{compiler_flags: '-DVAL=3', compiler_linker_flags: '-g'}", h3);
    int d = run(dev, "{compiler_flags: '-g', compiler_linker_flags: '-DVAL=3'}", h4);
    printf("%s C flags=-DVAL=3 linker=-g: key %.16s; D swapped: key %.16s\n", dev.mode().c_str(), h3.c_str(), h4.c_str());
    if (h3 == h4) { printf("FAILS: JOINT %s: swapping compiler_flags and compiler_linker_flags keeps the cache key\n", dev.mode().c_str()); bad = 1; }
    const char *RAW = "extern \"C\" void f(int *out) { out[0] = 5; }";
    occa::kernel k1 = dev.buildKernelFromString(RAW, "f", occa::json::parse("{okl: {enabled: false}}"));
    std::string r1 = k1.hash().getFullString(), r2 = "(raised)";
    bool built = false;
    try { occa::kernel k2 = dev.buildKernelFromString(RAW, "f", occa::json::parse("{okl: {enabled: true}}")); r2 = k2.hash().getFullString(); built = k2.isInitialized(); }
    catch (occa::exception &e) { }
    printf("%s raw source okl disabled: key %.16s; okl enabled: key %.16s built=%d\n", dev.mode().c_str(), r1.c_str(), r2.c_str(), (int) built);
    if (r1 == r2) { printf("FAILS: OKL %s: okl/enabled false and true share one cache key (a source without @kernel 'builds' as OKL from the cached raw binary)\n", dev.mode().c_str()); bad = 1; }
  }
  printf(bad ? "REPRODUCED\n" : "not reproduced\n");
  return bad;
}
'''


def run(ctx):
    cache = ctx.__dict__.get('c06_native')
    if cache is None:
        rc, out, src = replaylib.compile_run(ctx, 'replay_c06', PROG, timeout=600)
        cache = ctx.__dict__['c06_native'] = (rc, out)
    return cache


def replay(ctx, g, o, inputs):
    rc, out = run(ctx)
    p = replaylib.keep_replay_source(ctx, g, PROG)
    mode = 'OpenMP' if 'openmp' in g.name else 'Serial'
    kind = 'OKL' if 'okl' in o.desc else 'JOINT'
    fails = [l for l in re.findall(r'FAILS: (.*)', out)]
    mine = [l for l in fails if l.startswith(kind + ' ' + mode)]
    other = [l for l in fails if l.startswith(kind)]
    note = None
    if not mine and other and mode == 'OpenMP':
        mine = other
        note = 'OpenMP is not enabled in this build of libocca; openmp::device::kernelHash = serial key ^ constant, reproduced on the Serial device'
    return {'reproduced': bool(mine), 'failing_checks': mine[:6], 'program': p, 'note': note,
            'input': {'A': "compiler_flags = compiler_linker_flags = '-DVAL=1'", 'B': "compiler_flags = compiler_linker_flags = '-DVAL=2'",
                      'C/D': "compiler_flags='-DVAL=3', compiler_linker_flags='-g' and swapped", 'okl': 'raw C++ source, okl/enabled false then true'},
            'how': 'same kernel built twice through occa::device::buildKernelFromString on a fresh libocca; kernel.hash() and the value '
                   'computed by the kernel that runs are compared', 'output_tail': out[-900:]}
