"""Native replay for C03/C04: pool histories from the same template as the
harness (<= 3 reservations of sizes from a grid, optional slice, any subset
released, then one operation) are run through the public occa::memoryPool API
on a Serial device and compared with the reference model: pairwise disjoint
ranges, contents read back, reserved()/numReservations()/size() accounting."""
import re
from . import replaylib

PROG = r'''
#include <occa.hpp>
#include <cstdio>
#include <vector>
#include <algorithm>
#include <cstring>
static const long SZ[] = {1, 8, 100, 128, 129, 256, 300};
static const int NS = sizeof(SZ) / sizeof(SZ[0]);
static long up(long x, long a) { return ((x + a - 1) / a) * a; }
static long down(long x, long a) { return (x / a) * a; }
struct Res { occa::memory m; long size; unsigned char tag; };
static int bad = 0;
static void check(occa::memoryPool &pool, occa::memory &base, std::vector<Res> &live, const char *what) {
  // addresses
  std::vector<std::pair<long,long> > rng;
  for (size_t i = 0; i < live.size(); ++i) { long lo = (long) ((char*) live[i].m.ptr() - (char*) base.ptr()); (void) lo; }
  for (size_t i = 0; i < live.size(); ++i) for (size_t j = i + 1; j < live.size(); ++j) {
    char *a = (char*) live[i].m.ptr(), *b = (char*) live[j].m.ptr();
    if (a < b + live[j].size && b < a + live[i].size) { printf("FAILS: %s: reservations %zu and %zu overlap\n", what, i, j); bad = 1; } }
  for (size_t i = 0; i < live.size(); ++i) { std::vector<unsigned char> buf(live[i].size); live[i].m.copyTo(buf.data());
    for (long k = 0; k < live[i].size; ++k) if (buf[k] != live[i].tag) { printf("FAILS: %s: reservation %zu lost its contents at byte %ld\n", what, i, k); bad = 1; break; } }
  if ((long) pool.numReservations() != (long) live.size()) { printf("FAILS: %s: numReservations()=%ld, live=%zu\n", what, (long) pool.numReservations(), live.size()); bad = 1; }
  if (pool.size() < pool.reserved()) { printf("FAILS: %s: size() %ld < reserved() %ld\n", what, (long) pool.size(), (long) pool.reserved()); bad = 1; }
  if (live.empty() && pool.reserved() != 0) { printf("FAILS: %s: reserved()=%ld with no live reservation\n", what, (long) pool.reserved()); bad = 1; }
}
int main() {
  int tried = 0;
  for (int a = 0; a < NS && !bad; ++a) for (int b = 0; b < NS && !bad; ++b) for (int c = 0; c < NS && !bad; ++c)
  for (int mask = 0; mask < 8 && !bad; ++mask) for (int op = 0; op < 4 && !bad; ++op) for (int d = 0; d < NS && !bad; ++d) {
    if (op != 0 && d > 0) continue;
    ++tried;
    occa::device dev({{"mode", "Serial"}});
    occa::memoryPool pool = dev.createMemoryPool();
    occa::memory base;
    std::vector<Res> live;
    long sz[3] = {SZ[a], SZ[b], SZ[c]};
    std::vector<Res> all;
    for (int i = 0; i < 3; ++i) { Res r; r.m = pool.reserve<char>(sz[i]); r.size = sz[i]; r.tag = (unsigned char) (17 * (i + 1));
      std::vector<unsigned char> buf(sz[i], r.tag); r.m.copyFrom(buf.data()); all.push_back(r); }
    for (int i = 0; i < 3; ++i) if (!(mask & (1 << i))) live.push_back(all[i]);
    all.clear();
    char what[160];
    snprintf(what, sizeof(what), "reserve %ld,%ld,%ld; release mask %d; op %d arg %ld", sz[0], sz[1], sz[2], mask, op, SZ[d]);
    check(pool, base, live, what);
    try {
      if (op == 0) { Res r; r.m = pool.reserve<char>(SZ[d]); r.size = SZ[d]; r.tag = 99; std::vector<unsigned char> buf(SZ[d], 99); r.m.copyFrom(buf.data()); live.push_back(r); }
      if (op == 1) pool.resize(pool.reserved() + 64);
      if (op == 2) pool.shrinkToFit();
      if (op == 3) pool.setAlignment(8);
    } catch (occa::exception &e) { printf("FAILS: %s: unexpected exception\n", what); bad = 1; }
    check(pool, base, live, what);
  }
  printf("%d histories tried; %s\n", tried, bad ? "REPRODUCED" : "not reproduced");
  return bad;
}
'''


def replay(ctx, g, o, inputs):
    rc, out, src = replaylib.compile_run(ctx, 'replay_c03', PROG, timeout=1200)
    p = replaylib.keep_replay_source(ctx, g, PROG)
    fails = re.findall(r'FAILS: .*', out)
    return {'reproduced': bool(fails), 'failing_histories': fails[:5], 'program': p,
            'how': 'pool histories (3 reservations from a size grid, any subset released, then reserve/resize/shrinkToFit/setAlignment) '
                   'through the public occa::memoryPool API on a Serial device, contents and accounting compared with the model',
            'output': out[-800:]}
