"""Engine B: contracts on the C text emitted by the real OKL translator
(DESIGN 3.2).  Shared by C15, C17, C18, C19.

  * build      libocca + bin/occa from the tree under verification (ctx.repo)
  * translate  OKL programs with `occa translate --mode M [--launcher]`,
               batched (many kernels per file) and in parallel
  * parse      pull the pieces under contract out of the emitted text, verbatim
  * harness    small helpers to paste those pieces into C harnesses
  * native     g++-compile original and emitted code for replay

A piece that cannot be located raises Undecided (exit 2), never a violation.
"""
import concurrent.futures as cf
import os
import random
import re
import subprocess
import tempfile
import threading

from .core import Undecided, JOBS, sha
from .extract import match_brace
from . import replaylib

LAUNCHER_MODES = ['CUDA', 'HIP', 'OpenCL', 'Metal', 'dpcpp']
KEPT_MODES = ['Serial', 'OpenMP']

STATS = {'programs': 0, 'translations': 0, 'occa_runs': 0, 'translate_wall_s': 0.0}
_lock = threading.Lock()
_cache = {}
_seen_programs = set()


def programs_translated():
    return max(STATS['programs'], 1)


# --------------------------------------------------------------------- build

def occa_bin():
    """Build (incrementally) the library and the `occa` tool from the tree
    under verification; returns the path of bin/occa."""
    try:
        build = replaylib.ensure_lib()
    except Exception as e:                       # build break = undecided
        raise Undecided('cannot build occa from the tree under verification: %s' % e)
    exe = os.path.join(build, 'bin', 'occa')
    if not os.path.exists(exe):
        raise Undecided('bin/occa missing after build in %s' % build)
    return exe


def _env(scratch):
    e = replaylib.env_for_run()
    e['OCCA_CACHE_DIR'] = os.path.join(scratch, 'occa-cache')
    e['OCCA_COLOR_ENABLED'] = '0'
    return e


# ----------------------------------------------------------------- translate

KNAME = '@K@'       # placeholder for the kernel name in program texts


def _run_occa(exe, path, mode, launcher, env):
    cmd = [exe, 'translate', '--mode', mode]
    if launcher:
        cmd.append('--launcher')
    cmd.append(path)
    try:
        p = subprocess.run(cmd, stdout=subprocess.PIPE, stderr=subprocess.PIPE, env=env, timeout=120)
    except subprocess.TimeoutExpired:
        return -9, '', 'timeout'
    with _lock:
        STATS['occa_runs'] += 1
    return p.returncode, p.stdout.decode(errors='replace'), p.stderr.decode(errors='replace')


def split_kernels(text):
    """Top-level function *definitions* of an emitted translation unit whose
    name is k<n> (launcher / kept loop) or _occa_k<n>_<m> (device kernel).
    Returns {n: [(name, text_of_definition)]}."""
    out = {}
    for m in re.finditer(r'\b((?:_occa_)?k(\d+)(?:_\d+)?)\s*\(', text):
        k = m.end() - 1
        try:
            e = match_brace(text, k, '(', ')')
        except Undecided:
            continue
        j = e + 1
        while j < len(text) and text[j].isspace():
            j += 1
        if j >= len(text) or text[j] != '{':
            continue                      # prototype or a call
        try:
            e2 = match_brace(text, j)
        except Undecided:
            continue
        out.setdefault(int(m.group(2)), []).append((m.group(1), text[m.start():e2 + 1]))
    return out


def translate(ctx, programs, modes, batch=24):
    """programs: list of OKL texts, each defining one kernel named KNAME.
    modes: list of (mode, launcher: bool).
    Returns {(index, mode, launcher): [(function name, definition text)]}.
    A program the translator rejects maps to an Exception-free marker:
    value = ('ERROR', stderr)."""
    import time
    t0 = time.time()
    exe = occa_bin()
    scratch = tempfile.mkdtemp(prefix='engineB-', dir=ctx.work)
    env = _env(scratch)
    result = {}
    todo = []
    for idx, prog in enumerate(programs):
        if KNAME not in prog:
            raise ValueError('program without kernel-name placeholder')
        with _lock:
            h = sha(prog)
            if h not in _seen_programs:
                _seen_programs.add(h)
                STATS['programs'] += 1
        for mode, launcher in modes:
            key = (sha(prog), mode, launcher)
            if key in _cache:
                result[(idx, mode, launcher)] = _cache[key]
            else:
                todo.append((idx, mode, launcher))
    by_mode = {}
    for idx, mode, launcher in todo:
        by_mode.setdefault((mode, launcher), []).append(idx)
    jobs = []
    for (mode, launcher), idxs in by_mode.items():
        for i in range(0, len(idxs), batch):
            jobs.append((mode, launcher, idxs[i:i + batch]))

    def one(job, depth=0):
        mode, launcher, idxs = job
        fd, path = tempfile.mkstemp(prefix='p_', suffix='.okl', dir=scratch)
        with os.fdopen(fd, 'w') as f:
            for n in idxs:
                f.write(programs[n].replace(KNAME, 'k%d' % n))
                f.write('\n')
        rc, out, err = _run_occa(exe, path, mode, launcher, env)
        os.unlink(path)
        res = {}
        if rc == 0:
            parts = split_kernels(out)
            missing = [n for n in idxs if n not in parts]
            if not missing:
                for n in idxs:
                    res[(n, mode, launcher)] = [(name.replace('k%d' % n, 'k'), text.replace('k%d' % n, 'k', 1))
                                                for name, text in parts[n]]
                return res
        if len(idxs) == 1:
            res[(idxs[0], mode, launcher)] = ('ERROR', (err or out)[-600:] or 'exit code %s, kernel not found in output' % rc)
            return res
        # a batch with a rejected kernel: split
        half = len(idxs) // 2
        for sub in (idxs[:half], idxs[half:]):
            res.update(one((mode, launcher, sub), depth + 1))
        return res

    with cf.ThreadPoolExecutor(max_workers=JOBS) as ex:
        for res in ex.map(one, jobs):
            for (n, mode, launcher), v in res.items():
                result[(n, mode, launcher)] = v
                _cache[(sha(programs[n]), mode, launcher)] = v
    with _lock:
        STATS['translations'] += len(todo)
        STATS['translate_wall_s'] += time.time() - t0
    return result


def need(result, idx, mode, launcher, what='program'):
    """Emitted definitions of one program or Undecided."""
    v = result.get((idx, mode, launcher))
    if v is None:
        raise Undecided('no translation of %s in mode %s' % (what, mode))
    if isinstance(v, tuple) and v and v[0] == 'ERROR':
        raise Undecided('the translator rejected %s in mode %s%s: %s'
                        % (what, mode, ' (launcher)' if launcher else '', v[1].strip()[-300:]))
    return v


# --------------------------------------------------------------------- parse

def split_statements(text):
    """Split a statement sequence on `;` at nesting depth 0 (parentheses,
    brackets, braces, literals respected).  Returns trimmed, non-empty pieces
    without the semicolon."""
    out, depth, start, i, n = [], 0, 0, 0, len(text)
    while i < n:
        c = text[i]
        if c in '"\'':
            q = c
            i += 1
            while i < n and text[i] != q:
                i += 2 if text[i] == '\\' else 1
        elif c in '([{':
            depth += 1
        elif c in ')]}':
            depth -= 1
        elif c == ';' and depth == 0:
            s = text[start:i].strip()
            if s:
                out.append(s)
            start = i + 1
        i += 1
    s = text[start:].strip()
    if s:
        out.append(s)
    return out


ITER_TYPES = r'(?:char|short|int|long|ptrdiff_t|size_t)'


def launcher_pieces(fn_text):
    """From an emitted launcher function: the launch block between
    `occa::dim outer, inner;` and `occa::kernel kernel(`.
    Returns dict(outer_dims, inner_dims, stmts=[verbatim statements],
    dims={iterator: (kind, k, E, statement)})."""
    a = [m for m in re.finditer(r'occa::dim\s+outer\s*,\s*inner\s*;', fn_text)]
    b = [m for m in re.finditer(r'occa::kernel\s+kernel\s*\(', fn_text)]
    if len(a) != 1 or len(b) != 1 or b[0].start() < a[0].end():
        raise Undecided('launcher: launch block not located (%d `occa::dim outer, inner;`, %d `occa::kernel kernel(`)'
                        % (len(a), len(b)))
    block = fn_text[a[0].end():b[0].start()]
    info = {'outer_dims': None, 'inner_dims': None, 'stmts': [], 'dims': {}, 'decls': {}}
    last_decl = None
    for s in split_statements(block):
        m = re.fullmatch(r'(outer|inner)\s*\.\s*dims\s*=\s*(\d+)', s)
        if m:
            info[m.group(1) + '_dims'] = int(m.group(2))
            continue
        m = re.fullmatch(r'(outer|inner)\s*\[\s*(\d+)\s*\]\s*=\s*(.+)', s, re.S)
        if m:
            if last_decl is None:
                raise Undecided('launcher: `%s` is not preceded by the declaration of its iterator' % s)
            if last_decl in info['dims']:
                raise Undecided('launcher: two dimension assignments follow the declaration of %s' % last_decl)
            info['dims'][last_decl] = (m.group(1), int(m.group(2)), m.group(3).strip(), s)
            info['stmts'].append(s)
            continue
        m = re.fullmatch(r'(?:const\s+)?(' + ITER_TYPES + r')\s+(\w+)\s*=\s*(.+)', s, re.S)
        if m:
            last_decl = m.group(2)
            info['decls'][last_decl] = (m.group(1), m.group(3).strip(), s)
            info['stmts'].append(s)
            continue
        raise Undecided('launcher: unexpected statement in the launch block: `%s`' % s[:120])
    if info['outer_dims'] is None or info['inner_dims'] is None:
        raise Undecided('launcher: outer.dims / inner.dims not found')
    return info


def find_decl(text, name):
    """The unique declaration `<type> name = E;` in emitted text.
    Returns (type, E, verbatim statement without `;`)."""
    ms = list(re.finditer(r'(?<![\w.])((?:const\s+)?' + ITER_TYPES + r')\s+' + re.escape(name) + r'\s*=\s*([^;{}]+);', text))
    if len(ms) != 1:
        raise Undecided('%d declarations of iterator `%s` in the emitted kernel (need exactly 1)' % (len(ms), name))
    m = ms[0]
    return m.group(1), m.group(2).strip(), m.group(0)[:-1].strip()


def find_for(text, name):
    """The unique `for (T name = ...; ...; ...) <body>` in emitted text.
    Returns dict(type, init, check, update, header, whole, body, start, end)."""
    ms = list(re.finditer(r'\bfor\s*\(\s*((?:const\s+)?' + ITER_TYPES + r')\s+' + re.escape(name) + r'\s*=', text))
    if len(ms) != 1:
        raise Undecided('%d `for` loops declare `%s` in the emitted text (need exactly 1)' % (len(ms), name))
    m = ms[0]
    k = text.index('(', m.start())
    e = match_brace(text, k, '(', ')')
    parts = []
    depth, start = 0, k + 1
    for i in range(k + 1, e):
        c = text[i]
        if c in '([{':
            depth += 1
        elif c in ')]}':
            depth -= 1
        elif c == ';' and depth == 0:
            parts.append(text[start:i].strip())
            start = i + 1
    parts.append(text[start:e].strip())
    if len(parts) != 3:
        raise Undecided('for header of `%s` does not have three parts: %s' % (name, text[k:e + 1]))
    j = e + 1
    while j < len(text) and text[j].isspace():
        j += 1
    if j >= len(text) or text[j] != '{':
        raise Undecided('for loop of `%s` has no braced body' % name)
    e2 = match_brace(text, j)
    mi = re.match(r'((?:const\s+)?' + ITER_TYPES + r')\s+' + re.escape(name) + r'\s*=\s*(.+)', parts[0], re.S)
    return {'type': mi.group(1), 'init': mi.group(2).strip(), 'check': parts[1], 'update': parts[2],
            'header': text[m.start():e + 1], 'whole': text[m.start():e2 + 1], 'body': text[j:e2 + 1],
            'start': m.start(), 'end': e2 + 1}


def find_subscripts(text, array):
    """All `array[E]` index expressions E (verbatim) in emitted text."""
    out = []
    for m in re.finditer(r'(?<![\w.])' + re.escape(array) + r'\s*\[', text):
        k = m.end() - 1
        e = match_brace(text, k, '[', ']')
        out.append(text[k + 1:e])
    return out


def function_body(defn):
    """Body (with braces) of an emitted function definition text."""
    k = defn.index('(')
    e = match_brace(defn, k, '(', ')')
    j = defn.index('{', e)
    return defn[j:match_brace(defn, j) + 1]


def squash(s):
    """Token-level whitespace normalisation (for textual identity checks)."""
    return re.sub(r'\s+', '', s)


# ------------------------------------------------------- back-end index model
# How each launcher back end names the group / work-item index of launcher
# dimension k (trusted table; the runtime side is src/occa/internal/modes/*/
# kernel.cpp: CUDA/HIP grid(x,y,z)=outer(x,y,z); OpenCL global work size per
# dimension; Metal threadgroups; DPC++ sycl::range<3>{z, y, x}).

INDEX_PRELUDE = {
    'CUDA': '''struct verif_uint3 { unsigned int x, y, z; };
static struct verif_uint3 blockIdx, threadIdx;   /* CUDA: uint3 built-ins */
''',
    'OpenCL': '''static unsigned long verif_group[3], verif_local[3];
/* OpenCL: size_t get_group_id(uint), size_t get_local_id(uint); 64-bit device */
static unsigned long get_group_id(unsigned int d) { return verif_group[d]; }
static unsigned long get_local_id(unsigned int d) { return verif_local[d]; }
''',
    'Metal': '''struct verif_uint3 { unsigned int x, y, z; };
static struct verif_uint3 _occa_group_position, _occa_thread_position;   /* Metal: uint3 kernel arguments */
''',
    'dpcpp': '''static unsigned long verif_group[3], verif_local[3];
static unsigned long verif_get_group(int d) { return verif_group[d]; }
static unsigned long verif_get_local_id(int d) { return verif_local[d]; }
/* SYCL: size_t nd_item<3>::get_group(int), get_local_id(int) */
struct verif_item { unsigned long (*get_group)(int); unsigned long (*get_local_id)(int); };
static struct verif_item item_ = { verif_get_group, verif_get_local_id };
''',
}
INDEX_PRELUDE['HIP'] = INDEX_PRELUDE['CUDA']

_XYZ = 'xyz'


def index_registers(mode):
    """[(C lvalue, C type)] of every index register of the back end."""
    if mode in ('CUDA', 'HIP'):
        return [('%s.%s' % (v, c), 'unsigned int') for v in ('blockIdx', 'threadIdx') for c in _XYZ]
    if mode == 'Metal':
        return [('%s.%s' % (v, c), 'unsigned int') for v in ('_occa_group_position', '_occa_thread_position') for c in _XYZ]
    return [('%s[%d]' % (v, d), 'unsigned long') for v in ('verif_group', 'verif_local') for d in range(3)]


def index_register(mode, kind, k):
    """C lvalue + type of the register that carries launcher dimension
    outer[k] (kind='outer') or inner[k] (kind='inner')."""
    if not 0 <= k <= 2:
        raise Undecided('launcher dimension index %d out of range' % k)
    if mode in ('CUDA', 'HIP'):
        return '%s.%s' % ('blockIdx' if kind == 'outer' else 'threadIdx', _XYZ[k]), 'unsigned int'
    if mode == 'Metal':
        return '%s.%s' % ('_occa_group_position' if kind == 'outer' else '_occa_thread_position', _XYZ[k]), 'unsigned int'
    if mode == 'OpenCL':
        return '%s[%d]' % ('verif_group' if kind == 'outer' else 'verif_local', k), 'unsigned long'
    if mode == 'dpcpp':
        return '%s[%d]' % ('verif_group' if kind == 'outer' else 'verif_local', 2 - k), 'unsigned long'
    raise Undecided('no index model for mode %s' % mode)


INDEX_SPELLING = {
    'CUDA': r'\b(?:blockIdx|threadIdx)\s*\.\s*[xyz]\b',
    'HIP': r'\b(?:blockIdx|threadIdx)\s*\.\s*[xyz]\b',
    'Metal': r'\b_occa_(?:group|thread)_position\s*\.\s*[xyz]\b',
    'OpenCL': r'\bget_(?:group|local)_id\s*\(\s*\d+\s*\)',
    'dpcpp': r'\bitem_\s*\.\s*get_(?:group|local_id)\s*\(\s*\d+\s*\)',
}


def uses_index(mode, expr):
    return re.findall(INDEX_SPELLING[mode], expr)


# ------------------------------------------------------------------- harness

NONDET_DECLS = '''int nondet_int(void);
unsigned int nondet_uint(void);
long nondet_long(void);
unsigned long nondet_ulong(void);
'''


def int_params(names, lo, hi, special=None):
    """Declarations of nondeterministic int run-time operands in [lo, hi];
    special: {name: (lo, hi)} overrides."""
    out = []
    for n in names:
        l, h = (special or {}).get(n, (lo, hi))
        out.append('  int %s = nondet_int(); __CPROVER_assume(%s <= %s && %s <= %s);' % (n, l, n, n, h))
    return '\n'.join(out)


def sample(items, n, seed, key=None):
    """Deterministic seeded sample (order kept)."""
    items = list(items)
    if n >= len(items):
        return items
    rnd = random.Random(seed)
    pick = set(rnd.sample(range(len(items)), n))
    return [x for i, x in enumerate(items) if i in pick]


# -------------------------------------------------------------------- native

def native_run(ctx, name, source, args=(), timeout=120, flags=()):
    """g++-compile a stand-alone replay program (no libocca needed) and run
    it.  Returns (rc, output)."""
    d = tempfile.mkdtemp(prefix='native-', dir=ctx.work)
    src = os.path.join(d, name + '.cpp')
    with open(src, 'w') as f:
        f.write(source)
    exe = os.path.join(d, name)
    p = subprocess.run(['g++', '-std=c++17', '-O0', '-w'] + list(flags) + [src, '-o', exe],
                       stdout=subprocess.PIPE, stderr=subprocess.STDOUT, timeout=300)
    if p.returncode != 0:
        raise RuntimeError('native replay program failed to compile: ' + p.stdout.decode(errors='replace')[-1200:])
    try:
        p = subprocess.run([exe] + [str(a) for a in args], stdout=subprocess.PIPE, stderr=subprocess.STDOUT,
                           timeout=timeout, cwd=d)
    except subprocess.TimeoutExpired:
        return -9, 'timeout'
    return p.returncode, p.stdout.decode(errors='replace')


def trace_int(inputs, name, default=0):
    """Integer value of a harness input in CBMC's counterexample."""
    for k in (name, name + '!0', ):
        v = inputs.get(k)
        if v is None:
            continue
        m = re.match(r'\s*(-?\d+)', str(v))
        if m:
            return int(m.group(1))
    return default


def undecided_group(name, reason, param=''):
    """A group that reports `undecided` with the given reason (a piece of the
    emitted text could not be located for one program: the other programs are
    still checked, the run exits 2)."""
    from .core import Group
    msg = re.sub(r'[^A-Za-z0-9_ .,:;=+*/<>()\[\]?&|!-]', ' ', reason)[:400]
    return Group(name=name, sources={'undecided.c': '#error "%s"\n' % msg.replace('"', "'")}, entry='h',
                 param=param, note='piece not located: ' + reason[:300])
