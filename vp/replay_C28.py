"""placeholder"""
def replay_state(ctx, g, o, inputs):
    return {'reproduced': False}
