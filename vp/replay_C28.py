"""Native replay for C28: the counterexample state (key set with value indices), query and operation are read
from the verifier's trace; the real occa::trie<int> is built natively by adding the keys in value-index order
(which reproduces the indices), the same checks are evaluated against a brute-force reference (longest
stored key that is a prefix of the query = the property's sentence), and a failed check with the same label
as the failed obligation counts as reproduced.  If the exact counterexample does not reproduce (e.g. it
depends on a valueless childless node, which the public API cannot always create) the same checks are scanned
over every key set of the bounded family, natively."""
import re

from . import replaylib


def key_of(kid):
    k = ''
    while kid > 0:
        k = 'ab'[(kid - 1) % 2] + k
        kid = (kid - 1) // 2
    return k


def last_values(trace):
    vals = {}
    for s in trace or []:
        if s.get('stepType') != 'assignment':
            continue
        lhs = s.get('lhs', '')
        v = (s.get('value') or {}).get('data')
        if v is None:
            continue
        vals[lhs] = v
    return vals


def _int(v, default=0):
    m = re.match(r'-?\d+', str(v))
    return int(m.group(0)) if m else default


def _char(v):
    m = re.match(r"'(.)'", str(v))
    if m:
        return m.group(1)
    n = _int(v, 0)
    return chr(n) if 32 < n < 127 else ''


PROG = r'''
#include <occa/internal/utils/trie.hpp>
#include <cstdio>
#include <cstring>
#include <string>
#include <vector>
#include <set>
typedef occa::trie<int> trie_t;
static std::set<std::string> fails;
static std::string ctx_;
#define CHECK(c, what) do { if (!(c)) { if (fails.insert(what).second) printf("FAILS: %s | %s\n", what, ctx_.c_str()); } } while (0)

struct model { std::vector<std::string> keys; std::vector<int> vals; };   /* index = value index */

static void ref_longest(const model &m, const char *q, int len, int &rlen, int &rval) {
  rlen = 0; rval = -1;
  for (size_t i = 0; i < m.keys.size(); ++i) {
    const std::string &k = m.keys[i];
    if ((int) k.size() <= len && !strncmp(k.c_str(), q, k.size()) && ((int) k.size() > rlen || rval < 0)) {
      if ((int) k.size() >= rlen) { rlen = (int) k.size(); rval = (int) i; }
    }
  }
}
static int ref_exact(const model &m, const std::string &q) {
  for (size_t i = 0; i < m.keys.size(); ++i) if (m.keys[i] == q) return (int) i;
  return -1;
}
static void build(trie_t &t, const model &m) {
  t.autoFreeze = false;
  for (size_t i = 0; i < m.keys.size(); ++i) t.add(m.keys[i].c_str(), m.vals[i]);
}
static std::string show(const model &m) {
  std::string s = "keys(in index order)={";
  for (size_t i = 0; i < m.keys.size(); ++i) s += (i ? "," : "") + ("\"" + m.keys[i] + "\"");
  return s + "}";
}

static void lookups(const model &m, const std::string &q) {
  const int len = (int) q.size();
  std::string buf = q + "ab";                    /* query as a prefix of a longer buffer */
  ctx_ = show(m) + " query=\"" + q + "\"";
  int rlen, rval; ref_longest(m, q.c_str(), len, rlen, rval);
  const int ex = ref_exact(m, q);
  trie_t t; build(t, m);
  occa::trieNode::result_t r = t.root.get(q.c_str(), len);
  CHECK(r.success() == (rval >= 0), "trieNode::get succeeds iff some stored key is a prefix of the query");
  if (rval >= 0) {
    CHECK(r.valueIndex == rval, "trieNode::get returns the value index of the longest stored prefix");
    CHECK(r.length == rlen, "trieNode::get returns the length of the longest stored prefix");
  }
  CHECK(t.root.getValueIndex(q.c_str()) == ex, "trieNode::getValueIndex is the value index of exactly the query key, else -1");
  trie_t::result_t p = t.trieGetLongest(buf.c_str(), len);
  CHECK(p.success() == (rval >= 0), "trieGetLongest(c, length) succeeds iff a stored key is a prefix of the first length characters");
  CHECK(p.valueIndex == rval, "trieGetLongest(c, length) value index ignores characters after length");
  CHECK(p.length == rlen, "trieGetLongest(c, length) length ignores characters after length");
  for (int frozen = 0; frozen < 2; ++frozen) {
    if (frozen) t.freeze();
    const std::string F = frozen ? "frozen" : "unfrozen";
    trie_t::result_t u = t.getLongest(q.c_str(), len);
    CHECK(u.success() == (rval >= 0), (F + " getLongest succeeds iff some stored key is a prefix of the query").c_str());
    CHECK(u.valueIndex == rval, (F + " getLongest returns the value index of the longest stored prefix").c_str());
    CHECK(u.length == rlen, (F + " getLongest returns the length of the longest stored prefix").c_str());
    CHECK(u.value() == (rval >= 0 ? m.vals[rval] : t.defaultValue), (F + " getLongest value() is the value stored for that key, else the default").c_str());
    trie_t::result_t g = t.get(q.c_str(), len), g2 = t.get(q.c_str());
    CHECK(g.success() == (ex >= 0), (F + " get(c, length) succeeds exactly for stored keys").c_str());
    CHECK(g.valueIndex == ex, (F + " get(c, length) returns the stored key's value index, else -1").c_str());
    CHECK(g2.valueIndex == ex, (F + " get(c) returns the stored key's value index, else -1").c_str());
    CHECK(g.value() == (ex >= 0 ? m.vals[ex] : t.defaultValue), (F + " get value() is the key's value, else the default").c_str());
    if (len > 0) CHECK(t.has(q.c_str()) == (ex >= 0), (F + " has(c) is true exactly for stored keys").c_str());
    else CHECK(t.has(q.c_str()) == (ex >= 0), (F + " has(\"\") is true only if the empty key is stored").c_str());
    if (len > 0) CHECK(t.has(q.c_str(), len) == (ex >= 0), (F + " has(c, size) is true exactly for stored keys").c_str());
    CHECK(t.size() == (int) m.keys.size(), (F + " size() counts the stored keys").c_str());
  }
  t.freeze();
  trie_t::result_t f2 = t.getLongest(q.c_str(), len);
  CHECK(f2.length == rlen && f2.valueIndex == rval, "getLongest after freezing twice is still the longest stored prefix");
  t.defrost();
  trie_t::result_t d = t.getLongest(q.c_str(), len);
  CHECK(d.length == rlen && d.valueIndex == rval, "getLongest after freeze and defrost is still the longest stored prefix");
}

/* one operation on the state, then every key of the family is looked up and compared with the model */
static void step(const model &m0, bool is_add, const std::string &key, int v, int depth) {
  model m = m0;
  trie_t t; build(t, m);
  ctx_ = show(m0) + (is_add ? " add(\"" : " remove(\"") + key + "\")";
  int ex = ref_exact(m, key);
  if (is_add) {
    t.add(key.c_str(), v);
    if (ex >= 0) m.vals[ex] = v; else { m.keys.push_back(key); m.vals.push_back(v); }
  } else {
    t.remove(key.c_str());
    if (ex >= 0) { m.keys.erase(m.keys.begin() + ex); m.vals.erase(m.vals.begin() + ex); }
  }
  const char *A = is_add ? "after add: the stored keys are the old ones plus the added key" : "after remove: the stored keys are the old ones minus the removed key";
  const char *B = is_add ? "after add: every key has its most recently added value" : "after remove: every remaining key keeps its value";
  std::vector<std::string> all(1, "");
  for (size_t i = 0; i < all.size(); ++i) if ((int) all[i].size() < depth) { all.push_back(all[i] + "a"); all.push_back(all[i] + "b"); }
  for (int frozen = 0; frozen < 2; ++frozen)             /* observe the post-state through both lookups */
  for (size_t i = 1; i < all.size(); ++i) {
    if (frozen) t.freeze();
    int e = ref_exact(m, all[i]);
    trie_t::result_t g = t.get(all[i].c_str());
    CHECK(g.success() == (e >= 0), A);
    if (e >= 0 && g.success()) CHECK(g.value() == m.vals[e], B);
  }
  CHECK((int) t.values.size() == (int) m.keys.size(), "step: values.size() stays the number of stored keys (INV)");
}

int main(int argc, char **argv) {
  int depth = @DEPTH@;
  /* 1. the verifier's counterexample (a key ending in z stands for a node the counterexample has without a
     value: it makes the real trie contain that node) */
  {
    model m; @MODEL@
    @ACTION@
  }
  if (!fails.empty()) { printf("REPRODUCED on the counterexample\n"); return 1; }
  /* 2. the bounded family at depth 3 (first 4096 key sets): keys over {a,b} (index order = enumeration
     order and its reverse), every query over {a,b,c} up to depth+1 */
  depth = 3;
  std::vector<std::string> all(1, "");
  for (size_t i = 0; i < all.size(); ++i) if ((int) all[i].size() < depth) { all.push_back(all[i] + "a"); all.push_back(all[i] + "b"); }
  std::vector<std::string> qs(1, "");
  for (size_t i = 0; i < qs.size(); ++i) if ((int) qs[i].size() < depth + 1) { qs.push_back(qs[i] + "a"); qs.push_back(qs[i] + "b"); qs.push_back(qs[i] + "c"); }
  const int nk = (int) all.size() - 1;
  const long lim = (nk <= 6) ? (1l << nk) : 4096;
  for (long s = 0; s < lim; ++s) {
    for (int rev = 0; rev < 2; ++rev) {
      model m;
      for (int j = 0; j < nk; ++j) { int jj = rev ? nk - 1 - j : j; if ((s >> jj) & 1) { m.keys.push_back(all[1 + jj]); m.vals.push_back(100 + jj); } }
      if (@SCAN_STEP@) {
        for (int j = 0; j < nk; ++j) { step(m, true, all[1 + j], 7, depth); step(m, false, all[1 + j], 0, depth); }
      } else {
        for (size_t k = 0; k < qs.size(); ++k) lookups(m, qs[k]);
      }
    }
  }
  printf(fails.empty() ? "not reproduced\n" : "REPRODUCED by scanning the bounded family\n");
  return fails.empty() ? 0 : 1;
}
'''


def replay_state(ctx, g, o, inputs):
    vals = last_values(o.trace)
    nodes = {}
    for lhs, v in vals.items():
        m = re.match(r'value\[(\d+)l?\]$', lhs)
        if m:
            nodes[int(m.group(1))] = _int(v, -1)
    nn = (max(nodes) + 1) if nodes else 7
    depth = {3: 1, 7: 2, 15: 3}.get(nn, 2)
    data = {}
    for lhs, v in vals.items():
        m = re.match(r'T\.values\.data_\[(\d+)l?\]$', lhs)
        if m:
            data[int(m.group(1))] = _int(v, 0)
    present = {}
    for lhs, v in vals.items():
        m = re.match(r'present\[(\d+)l?\]$', lhs)
        if m:
            present[int(m.group(1))] = str(v).upper() in ('TRUE', '1')
    stored = sorted((vi, kid) for kid, vi in nodes.items() if vi >= 0 and kid > 0)

    def has_valued_below(kid):
        kids = [2 * kid + 1, 2 * kid + 2]
        return any(nodes.get(k, -1) >= 0 or has_valued_below(k) for k in kids if k < nn)
    # a node that exists without a value and without stored keys below it (remove() leaves such nodes) is
    # recreated natively by a key <path>z: its extra character is outside the query alphabet
    dangling = [kid for kid in sorted(present) if kid > 0 and present[kid] and nodes.get(kid, -1) < 0
                and not has_valued_below(kid)]
    # value indices are dense under INV; keys are added in index order
    model = ' '.join('m.keys.push_back("%s"); m.vals.push_back(%d);' % (key_of(kid), 100 + i)
                     for i, (vi, kid) in enumerate(stored))
    model += ' ' + ' '.join('m.keys.push_back("%sz"); m.vals.push_back(%d);' % (key_of(kid), 900 + kid) for kid in dangling)
    empty_key = nodes.get(0, -1) >= 0
    q = ''
    qlen = _int(vals.get('qlen', 0), 0)
    for i in range(qlen):
        q += _char(vals.get('q[%dl]' % i, vals.get('q[%d]' % i, ''))) or 'c'
    is_step = 'step_' in g.name
    if is_step:
        klen = _int(vals.get('klen', 0), 0)
        key = ''.join(_char(vals.get('key[%dl]' % i, '')) or 'a' for i in range(klen))
        action = 'step(m, %s, "%s", 7, depth);' % ('true' if 'add' in g.name else 'false', key)
        what = {'keys_in_value_index_order': [key_of(k) for _, k in stored] + [key_of(k) + 'z' for k in dangling], 'operation': ('add ' if 'add' in g.name else 'remove ') + key}
    else:
        action = 'lookups(m, "%s");' % q
        what = {'keys_in_value_index_order': [key_of(k) for _, k in stored] + [key_of(k) + 'z' for k in dangling], 'query': q}
    if empty_key:
        what['note'] = 'the counterexample stores the empty key; it is added first natively'
        model = 'm.keys.push_back(""); m.vals.push_back(99); ' + model
    prog = (PROG.replace('@DEPTH@', str(depth)).replace('@MODEL@', model).replace('@ACTION@', action)
            .replace('@SCAN_STEP@', '1' if is_step else '0'))
    rc, out, src = replaylib.compile_run(ctx, 'replay_trie', prog, timeout=300)
    p = replaylib.keep_replay_source(ctx, g, prog)
    fails = re.findall(r'FAILS: (.*?) \| (.*)', out)
    labels = [f for f, _ in fails]
    hit = [(f, c) for f, c in fails if f in o.desc or o.desc in f]
    return {'reproduced': bool(hit), 'failing_checks': labels[:12],
            'witness': hit[0][1] if hit else (fails[0][1] if fails else None),
            'input_from_trace': what, 'program': p, 'output': out[-800:]}
