"""Native replay for C14.

Operators: the counterexample operands (and a fixed set of edge values) are fed
to the REAL occa::primitive::<op> linked from the freshly built libocca; the
oracle is the host g++ evaluating the same C++ expression on the same operands
(both sides in one program, so there is no transcription step).

Tree evaluation: `false && (1/0)`, `true || (1/0)`, `c ? a : b` are built from
the real expression node classes and evaluated in a child process (the
unfixed folder dies with SIGFPE).
"""
import os
import re
import subprocess

from . import replaylib

CTYPES = {'bool': 'bool', 'int8': 'int8_t', 'uint8': 'uint8_t', 'int16': 'int16_t', 'uint16': 'uint16_t',
          'int32': 'int32_t', 'uint32': 'uint32_t', 'int64': 'int64_t', 'uint64': 'uint64_t',
          'float': 'float', 'double': 'double'}
ORDER = list(CTYPES)
# operator -> (C++ expression, definedness predicate, integral operands only)
OPS = {
    'not_': ('!x', 'true', False), 'positive': ('+x', 'true', False), 'negative': ('-x', 'def_neg(x)', False),
    'tilde': ('~x', 'true', True),
    'lessThan': ('x < y', 'true', False), 'lessThanEq': ('x <= y', 'true', False), 'equal': ('x == y', 'true', False),
    'notEqual': ('x != y', 'true', False), 'greaterThanEq': ('x >= y', 'true', False), 'greaterThan': ('x > y', 'true', False),
    'and_': ('x && y', 'true', False), 'or_': ('x || y', 'true', False),
    'mult': ('x * y', 'def_mul(x, y)', False), 'add': ('x + y', 'def_add(x, y)', False), 'sub': ('x - y', 'def_sub(x, y)', False),
    'div': ('x / y', 'def_div(x, y)', False), 'mod': ('x % y', 'def_div(x, y)', True),
    'bitAnd': ('x & y', 'true', True), 'bitOr': ('x | y', 'true', True), 'xor_': ('x ^ y', 'true', True),
    'rightShift': ('x >> y', 'def_shr(x, y)', True), 'leftShift': ('x << y', 'def_shl(x, y)', True),
}

PROG = r'''
#include <occa/types/primitive.hpp>
#include <cstdio>
#include <cstring>
#include <cstdlib>
#include <cmath>
#include <limits>
#include <string>
#include <type_traits>
#include <vector>
#pragma GCC diagnostic ignored "-Wbool-operation"
using occa::primitive;

template <class T> struct tagof;
#define TAG(T, t, n) template <> struct tagof<T> { static int tag() { return occa::primitiveType::t; } static const char *name() { return n; } };
TAG(bool, bool_, "bool") TAG(int8_t, int8_, "int8") TAG(uint8_t, uint8_, "uint8") TAG(int16_t, int16_, "int16")
TAG(uint16_t, uint16_, "uint16") TAG(int32_t, int32_, "int32") TAG(uint32_t, uint32_, "uint32")
TAG(int64_t, int64_, "int64") TAG(uint64_t, uint64_, "uint64") TAG(float, float_, "float") TAG(double, double_, "double")
static const char *tagname(int t) {
  using namespace occa::primitiveType;
  switch (t) { case none: return "none"; case bool_: return "bool"; case int8_: return "int8"; case uint8_: return "uint8";
    case int16_: return "int16"; case uint16_: return "uint16"; case int32_: return "int32"; case uint32_: return "uint32";
    case int64_: return "int64"; case uint64_: return "uint64"; case float_: return "float"; case double_: return "double";
    case ptr: return "ptr"; }
  return "?";
}
/* "the C++ result is defined" -- same rules as contracts/C14/spec.h */
template <class A, class B> bool def_add(A x, B y) { typedef decltype(x + y) R;
  if constexpr (std::is_floating_point<R>::value) return true; else if constexpr (std::is_signed<R>::value) { R t; return !__builtin_add_overflow(+x, +y, &t); } else return true; }
template <class A, class B> bool def_sub(A x, B y) { typedef decltype(x - y) R;
  if constexpr (std::is_floating_point<R>::value) return true; else if constexpr (std::is_signed<R>::value) { R t; return !__builtin_sub_overflow(+x, +y, &t); } else return true; }
template <class A, class B> bool def_mul(A x, B y) { typedef decltype(x * y) R;
  if constexpr (std::is_floating_point<R>::value) return true; else if constexpr (std::is_signed<R>::value) { R t; return !__builtin_mul_overflow(+x, +y, &t); } else return true; }
template <class A, class B> bool def_div(A x, B y) { typedef decltype(x * y) R;
  if constexpr (std::is_floating_point<R>::value) return true; else { R a = x, b = y;
    return b != 0 && !(std::is_signed<R>::value && a == std::numeric_limits<R>::min() && b == (R) -1); } }
template <class A> bool def_neg(A x) { typedef decltype(-x) R;
  if constexpr (std::is_floating_point<R>::value) return true; else { R a = x; return !(std::is_signed<R>::value && a == std::numeric_limits<R>::min()); } }
template <class A, class B> bool def_shl(A x, B y) { typedef decltype(+x) L; L a = x; decltype(+y) n = y;
  if (!(n >= 0 && n < (int) (8 * sizeof(L)))) return false;
  if (!std::is_signed<L>::value) return true;
  return a >= 0 && a <= (std::numeric_limits<L>::max() >> n); }
template <class A, class B> bool def_shr(A x, B y) { typedef decltype(+x) L; decltype(+y) n = y;
  return n >= 0 && n < (int) (8 * sizeof(L)); }

template <class T> T frombits(unsigned long long b) {
  if constexpr (std::is_same<T, bool>::value) return (b & 1) != 0;
  else { T v; memcpy(&v, &b, sizeof(T)); return v; } }
template <class T> std::string show(T v) {
  char buf[64];
  if constexpr (std::is_floating_point<T>::value) snprintf(buf, sizeof buf, "%.17g", (double) v);
  else if constexpr (std::is_signed<T>::value) snprintf(buf, sizeof buf, "%lld", (long long) v);
  else snprintf(buf, sizeof buf, "%llu", (unsigned long long) v);
  return buf; }
static std::string showp(const primitive &r) {
  using namespace occa::primitiveType;
  switch (r.type) { case bool_: return show(r.value.bool_); case int8_: return show(r.value.int8_); case uint8_: return show(r.value.uint8_);
    case int16_: return show(r.value.int16_); case uint16_: return show(r.value.uint16_); case int32_: return show(r.value.int32_);
    case uint32_: return show(r.value.uint32_); case int64_: return show(r.value.int64_); case uint64_: return show(r.value.uint64_);
    case float_: return show(r.value.float_); case double_: return show(r.value.double_); }
  return "-"; }
/* the NUMBER held by r equals e (exact, across types); NaN matches NaN; -0.0 != +0.0 */
template <class E> bool same_value(const primitive &r, E e) {
  using namespace occa::primitiveType;
  if constexpr (std::is_floating_point<E>::value) {
    double a; if (r.type == float_) a = r.value.float_; else if (r.type == double_) a = r.value.double_; else return false;
    double b = e; if (std::isnan(b)) return std::isnan(a);
    return a == b && std::signbit(a) == std::signbit(b);
  } else {
    __int128 v;
    switch (r.type) { case bool_: v = r.value.bool_; break; case int8_: v = r.value.int8_; break; case uint8_: v = r.value.uint8_; break;
      case int16_: v = r.value.int16_; break; case uint16_: v = r.value.uint16_; break; case int32_: v = r.value.int32_; break;
      case uint32_: v = r.value.uint32_; break; case int64_: v = r.value.int64_; break; case uint64_: v = r.value.uint64_; break;
      default: return false; }
    return v == (__int128) e;
  }
}
static int found = 0;
static const char *KIND;     /* raise | type | value | any */
template <class E> void judge(const char *text, const std::string &xs, const std::string &ys, E e, bool raised, const primitive &r) {
  bool bad_type = !raised && r.type != tagof<E>::tag();
  bool bad_value = !raised && !same_value(r, e);
  bool hit = (!strcmp(KIND, "raise") && raised) || (!strcmp(KIND, "type") && bad_type) || (!strcmp(KIND, "value") && bad_value) ||
             (!strcmp(KIND, "any") && (raised || bad_type || bad_value));
  if (hit && found < 6) {
    ++found;
    printf("MISMATCH  %s  with x=%s y=%s :  host g++: %s %s   occa::primitive: %s %s\n", text, xs.c_str(), ys.c_str(),
           tagof<E>::name(), show(e).c_str(), raised ? "EXCEPTION" : tagname(r.type), raised ? "" : showp(r).c_str());
  }
}
template <class T> std::vector<T> edges() {
  std::vector<T> v;
  if constexpr (std::is_same<T, bool>::value) { v.push_back(false); v.push_back(true); }
  else if constexpr (std::is_floating_point<T>::value) {
    const T a[] = {(T) 0.0, (T) -0.0, (T) 1, (T) 1.5, (T) -1, (T) 2, (T) 3e9, std::numeric_limits<T>::quiet_NaN(), std::numeric_limits<T>::infinity()};
    v.assign(a, a + sizeof a / sizeof a[0]);
  } else {
    const T a[] = {(T) 0, (T) 1, (T) 2, (T) 3, (T) -1, (T) -8, (T) 31, (T) 33, std::numeric_limits<T>::max(), std::numeric_limits<T>::min()};
    v.assign(a, a + sizeof a / sizeof a[0]);
  }
  return v;
}
@CASES@
int main(int argc, char **argv) {
  /* argv: ta tb kind xbits ybits */
  const std::string ta = argv[1], tb = argv[2]; KIND = argv[3];
  unsigned long long xb = strtoull(argv[4], 0, 0), yb = strtoull(argv[5], 0, 0);
  bool known = false;
@DISPATCH@
  if (!known) { printf("no such type pair\n"); return 2; }
  printf(found ? "REPRODUCED\n" : "not reproduced\n");
  return found ? 1 : 0;
}
'''

UN_CASE = r'''
template <class TA> void run_case(unsigned long long xb) {
  std::vector<TA> xs = edges<TA>(); xs.insert(xs.begin(), frombits<TA>(xb));
  for (size_t i = 0; i < xs.size(); ++i) { TA x = xs[i];
    if (!(@DEF@)) continue;
    auto e = (@EXPR@);
    primitive r; bool raised = false;
    try { r = primitive::@OP@(primitive(x)); } catch (...) { raised = true; }
    judge("@EXPR@", show(x), "-", e, raised, r);
  }
}
'''
BIN_CASE = r'''
template <class TA, class TB> void run_case(unsigned long long xb, unsigned long long yb) {
  std::vector<TA> xs = edges<TA>(); xs.insert(xs.begin(), frombits<TA>(xb));
  std::vector<TB> ys = edges<TB>(); ys.insert(ys.begin(), frombits<TB>(yb));
  for (size_t i = 0; i < xs.size(); ++i) for (size_t j = 0; j < ys.size(); ++j) {
    if (i && j && i != j && (i + j) % 3) continue;     /* counterexample row/column in full, a third of the rest */
    TA x = xs[i]; TB y = ys[j];
    if (!(@DEF@)) continue;
    auto e = (@EXPR@);
    primitive r; bool raised = false;
    try { r = primitive::@OP@(primitive(x), primitive(y)); } catch (...) { raised = true; }
    judge("@EXPR@", show(x), show(y), e, raised, r);
  }
}
'''


def _program(op):
    expr, dfn, integral = OPS[op]
    unary = 'y' not in expr
    case = (UN_CASE if unary else BIN_CASE).replace('@DEF@', dfn).replace('@EXPR@', expr).replace('@OP@', op)
    tys = [t for t in ORDER if not (integral and t in ('float', 'double'))]
    disp = []
    for a in tys:
        if unary:
            disp.append('  if (ta == "%s") { known = true; run_case<%s>(xb); }' % (a, CTYPES[a]))
        else:
            for b in tys:
                disp.append('  if (ta == "%s" && tb == "%s") { known = true; run_case<%s, %s>(xb, yb); }'
                            % (a, b, CTYPES[a], CTYPES[b]))
    return PROG.replace('@CASES@', case).replace('@DISPATCH@', '\n'.join(disp))


_built = {}     # (work dir, op) -> executable


def _bits_from_trace(trace, fn):
    """First assignments to the harness locals x and y in function fn: bit patterns."""
    vals = {}
    for s in trace or []:
        if s.get('stepType') != 'assignment':
            continue
        if ((s.get('sourceLocation') or {}).get('function') or '') != fn:
            continue
        lhs = s.get('lhs')
        if lhs in ('x', 'y') and lhs not in vals:
            b = (s.get('value') or {}).get('binary')
            if b:
                vals[lhs] = int(b.replace(' ', ''), 2)
            else:
                d = (s.get('value') or {}).get('data')
                vals[lhs] = 1 if d in ('TRUE', 'true', '1') else 0
    return vals.get('x', 0), vals.get('y', 0)


def replay_operator(ctx, g, o, inputs):
    m = re.match(r'(h_\w+): (\w+)\((\w+)(?:,(\w+))?\): (.*)', o.key)
    if not m:
        # built-in check inside the extracted operator (overflow, shift ...): try every case of the group natively
        return {'reproduced': False, 'note': 'obligation is a built-in check inside the extracted function; no operand pair named'}
    fn, op, ta, tb, what = m.groups()
    kind = 'raise' if 'no error is raised' in what else 'type' if 'result type' in what else 'value' if 'result value' in what else 'any'
    if op not in OPS:
        return None
    xb, yb = _bits_from_trace(o.trace, fn)
    key = (ctx.work, op)
    if key not in _built:
        replaylib.ensure_lib()
        d = os.path.join(ctx.work, 'replay-op-' + op)
        os.makedirs(d, exist_ok=True)
        src = os.path.join(d, 'replay_%s.cpp' % op)
        with open(src, 'w') as f:
            f.write(_program(op))
        exe = os.path.join(d, 'replay_' + op)
        cmd = ['g++', '-std=c++17', '-O0', '-w', '-I', os.path.join(replaylib.REPO, 'include'),
               '-I', os.path.join(replaylib.BUILD, 'include'), src, '-o', exe,
               '-L', os.path.join(replaylib.BUILD, 'lib'), '-locca', '-Wl,-rpath,' + os.path.join(replaylib.BUILD, 'lib')]
        rc, out = replaylib.sh(cmd, timeout=900)
        if rc != 0:
            raise RuntimeError('replay program failed to compile: ' + out[-1500:])
        p = os.path.join(replaylib.VERIF, 'replay', 'out', 'C14__replay_%s.cpp' % op)
        os.makedirs(os.path.dirname(p), exist_ok=True)
        with open(p, 'w') as f:
            f.write(_program(op))
        _built[key] = (exe, p)
    exe, p = _built[key]
    rc, out = replaylib.sh([exe, ta, tb or '-', kind, hex(xb), hex(yb)], timeout=120, env=replaylib.env_for_run())
    lines = [l for l in out.splitlines() if l.startswith('MISMATCH')]
    return {'reproduced': rc == 1 and bool(lines), 'operator': op, 'operand_types': [ta, tb], 'failing_kind': kind,
            'counterexample_bits': {'x': hex(xb), 'y': hex(yb)},
            'oracle': 'host g++ evaluating the same expression on the same operands, in the same program',
            'mismatches': lines[:6], 'program': p,
            'how_to_run': '%s %s %s %s %s %s' % (os.path.basename(exe), ta, tb or '-', kind, hex(xb), hex(yb)),
            'output': out[-800:]}


EVAL_PROG = r'''
#include <occa/internal/lang/expr.hpp>
#include <cstdio>
#include <cstring>
using namespace occa; using namespace occa::lang;
int main(int argc, char **argv) {
  primitiveNode zero(NULL, 0), one(NULL, 1), f(NULL, false), t(NULL, true), d(NULL, 2.5);
  binaryOpNode div(NULL, op::div, one, zero);      /* 1 / 0 : must not be evaluated */
  const char *w = argv[1];
  if (!strcmp(w, "and")) { binaryOpNode e(NULL, op::and_, f, div); primitive r = e.evaluate();
    printf("false && (1/0) = %s (type tag %d)\n", r.toString().c_str(), r.type); return !(r.type == primitiveType::bool_ && !r.value.bool_); }
  if (!strcmp(w, "or"))  { binaryOpNode e(NULL, op::or_, t, div); primitive r = e.evaluate();
    printf("true || (1/0) = %s (type tag %d)\n", r.toString().c_str(), r.type); return !(r.type == primitiveType::bool_ && r.value.bool_); }
  if (!strcmp(w, "cond")) { ternaryOpNode e(t, one, div); primitive r = e.evaluate();
    printf("true ? 1 : (1/0) = %s\n", r.toString().c_str()); return !(r.type == primitiveType::int32_ && r.value.int32_ == 1); }
  if (!strcmp(w, "condtype")) { ternaryOpNode e(t, one, d); primitive r = e.evaluate();
    printf("true ? 1 : 2.5 -> occa type tag %d (%s) ; C++: double (tag %d)\n", r.type, r.toString().c_str(), primitiveType::double_);
    return r.type != primitiveType::double_; }
  return 2;
}
'''


def replay_eval(ctx, g, o, inputs):
    key = o.key
    if '&&' in key and '||' not in key:
        which = 'and'
    elif '||' in key and '&&' not in key:
        which = 'or'
    elif 'result type is the common type' in key:
        which = 'condtype'
    elif '?:' in key:
        which = 'cond'
    else:
        return {'reproduced': False, 'note': 'no native scenario for this obligation'}
    ck = (ctx.work, 'eval')
    if ck not in _built:
        rc, out, src = replaylib.compile_run(ctx, 'replay_eval', EVAL_PROG, args=['none'])
        _built[ck] = os.path.splitext(src)[0]
        p = os.path.join(replaylib.VERIF, 'replay', 'out', 'C14__replay_eval.cpp')
        os.makedirs(os.path.dirname(p), exist_ok=True)
        with open(p, 'w') as f:
            f.write(EVAL_PROG)
    exe = _built[ck]
    p = subprocess.run([exe, which], stdout=subprocess.PIPE, stderr=subprocess.STDOUT, timeout=60, env=replaylib.env_for_run())
    out = p.stdout.decode(errors='replace')
    crashed = p.returncode < 0
    return {'reproduced': p.returncode != 0, 'scenario': {'and': 'false && (1/0)', 'or': 'true || (1/0)',
                                                          'cond': 'true ? 1 : (1/0)', 'condtype': 'true ? 1 : 2.5'}[which],
            'observed': ('killed by signal %d (SIGFPE = 8): the unevaluated operand was evaluated' % -p.returncode) if crashed else out.strip(),
            'expected': 'C++ does not evaluate the right operand / yields the common type',
            'program': os.path.join(replaylib.VERIF, 'replay', 'out', 'C14__replay_eval.cpp'), 'argument': which}


# ------------------------------------------------------------------ literal typing (primitive::load)

LIT_PROG = r'''
#include <occa/types/primitive.hpp>
#include <cstdio>
#include <cstring>
#include <cmath>
#include <string>
#include <type_traits>
#pragma GCC diagnostic ignored "-Woverflow"
using occa::primitive;
template <class T> struct tagof { static int tag() { return -1; } static const char *name() { return "a type occa has no tag for"; } };
#define TAG(T, t, n) template <> struct tagof<T> { static int tag() { return occa::primitiveType::t; } static const char *name() { return n; } };
TAG(bool, bool_, "bool") TAG(int, int32_, "int (int32)") TAG(unsigned, uint32_, "unsigned (uint32)")
TAG(long, int64_, "long (int64)") TAG(unsigned long, uint64_, "unsigned long (uint64)")
TAG(long long, int64_, "long long (int64)") TAG(unsigned long long, uint64_, "unsigned long long (uint64)")
TAG(float, float_, "float") TAG(double, double_, "double")
static const char *tagname(int t) {
  using namespace occa::primitiveType;
  switch (t) { case none: return "none"; case bool_: return "bool"; case int8_: return "int8"; case uint8_: return "uint8";
    case int16_: return "int16"; case uint16_: return "uint16"; case int32_: return "int32"; case uint32_: return "uint32";
    case int64_: return "int64"; case uint64_: return "uint64"; case float_: return "float"; case double_: return "double";
    case ptr: return "ptr"; }
  return "?";
}
template <class T> std::string show(T v) {
  char buf[64];
  if constexpr (std::is_floating_point<T>::value) snprintf(buf, sizeof buf, "%.17g", (double) v);
  else if constexpr (std::is_signed<T>::value) snprintf(buf, sizeof buf, "%lld", (long long) v);
  else snprintf(buf, sizeof buf, "%llu", (unsigned long long) v);
  return buf; }
static std::string showp(const primitive &r) {
  using namespace occa::primitiveType;
  switch (r.type) { case bool_: return show(r.value.bool_); case int8_: return show(r.value.int8_); case uint8_: return show(r.value.uint8_);
    case int16_: return show(r.value.int16_); case uint16_: return show(r.value.uint16_); case int32_: return show(r.value.int32_);
    case uint32_: return show(r.value.uint32_); case int64_: return show(r.value.int64_); case uint64_: return show(r.value.uint64_);
    case float_: return show(r.value.float_); case double_: return show(r.value.double_); }
  return "-"; }
template <class E> bool same_value(const primitive &r, E e) {
  using namespace occa::primitiveType;
  if constexpr (std::is_floating_point<E>::value) {
    double a; if (r.type == float_) a = r.value.float_; else if (r.type == double_) a = r.value.double_; else return false;
    return a == (double) e && std::signbit(a) == std::signbit((double) e);
  } else {
    __int128 v;
    switch (r.type) { case bool_: v = r.value.bool_; break; case int8_: v = r.value.int8_; break; case uint8_: v = r.value.uint8_; break;
      case int16_: v = r.value.int16_; break; case uint16_: v = r.value.uint16_; break; case int32_: v = r.value.int32_; break;
      case uint32_: v = r.value.uint32_; break; case int64_: v = r.value.int64_; break; case uint64_: v = r.value.uint64_; break;
      default: return false; }
    return v == (__int128) e;
  }
}
static int found = 0;
/* text: the literal; follow: what comes after it in the buffer; e: the same literal compiled by the host compiler */
template <class E> void one(const char *text, const char *follow, E e) {
  std::string buf = std::string(text) + follow;
  const char *c = buf.c_str();
  primitive r; bool raised = false;
  try { r = primitive::load(c, false); } catch (...) { raised = true; }
  const long used = c - buf.c_str();
  const bool bad_type = !raised && r.type != tagof<E>::tag();
  const bool bad_value = !raised && !same_value(r, e);
  const bool bad_cursor = !raised && used != (long) strlen(text);
  const bool bad_source = !raised && r.source != text;
  if (raised || bad_type || bad_value || bad_cursor || bad_source) {
    ++found;
    printf("MISMATCH  %s%s%s%s%s literal %s (followed by \"%s\"):  host g++: %s %s   occa::primitive::load: %s %s, %ld of %zu characters consumed, source \"%s\"\n",
           raised ? "[raise]" : "", bad_type ? "[type]" : "", bad_value ? "[value]" : "", bad_cursor ? "[cursor]" : "", bad_source ? "[source]" : "",
           text, follow, tagof<E>::name(), show(e).c_str(), raised ? "EXCEPTION" : tagname(r.type), raised ? "" : showp(r).c_str(),
           used, strlen(text), r.source.c_str());
  } else {
    printf("agree     literal %s: %s %s\n", text, tagname(r.type), showp(r).c_str());
  }
}
int main() {
@CASES@
  printf(found ? "REPRODUCED\n" : "not reproduced\n");
  return found ? 1 : 0;
}
'''

# literals a C++ compiler accepts and that the three historical defects and their neighbours live on
LIT_EDGES = ['0', '1', '2147483647', '2147483648', '3000000000', '4294967295', '4294967296', '9223372036854775807',
             '2147483648u', '4294967295u', '4294967296u', '18446744073709551615u', '1l', '1ul', '1lu', '1ll', '1ull', '1LLU',
             '9223372036854775807l', '9223372036854775808ul',
             '0x7FFFFFFF', '0x80000000', '0xFFFFFFFF', '0x100000000', '0x7FFFFFFFFFFFFFFF', '0xFFFFFFFFFFFFFFFF',
             '0xFFFFFFFFu', '0x100000000u', '0x1l', '0x8000000000000000l', '0xFFFFFFFFFFFFFFFFll',
             '017777777777', '020000000000', '037777777777', '040000000000', '01777777777777777777777',
             '0b1', '0b11111111', '0b10000000000000000000000000000000', '0b11111111111111111111111111111111',
             '0b100000000000000000000000000000000',
             '1.5', '1.5f', '.5', '5.', '1e3', '1e+3', '1e-3f', '1.5e3F', '1.0000000596046448f', 'true', 'false']


def literal_program(lits):
    cases = []
    for text, follow in lits:
        if not re.fullmatch(r'[0-9A-Za-z.+\-]+', text) or not re.fullmatch(r'[ -~]*', follow):
            continue
        cases.append('  one("%s", "%s", %s);' % (text, follow.replace('\\', '\\\\').replace('"', '\\"'), text))
    return LIT_PROG.replace('@CASES@', '\n'.join(cases))


def literal_from_trace(trace):
    """The literal text the counterexample put into the harness buffer `c14_text` and its length `c14_n`
    (last assignment to each element before the call of primitive_load)."""
    chars, n = {}, None
    for s in trace or []:
        if s.get('stepType') == 'function-call' and ((s.get('function') or {}).get('displayName') == 'primitive_load'):
            break
        if s.get('stepType') != 'assignment':
            continue
        lhs = s.get('lhs') or ''
        m = re.fullmatch(r'c14_text\[(\d+)l?\]', lhs)
        v = s.get('value') or {}
        if m and v.get('binary'):
            chars[int(m.group(1))] = int(v['binary'].replace(' ', ''), 2)
        elif lhs == 'c14_n' and v.get('binary'):
            n = int(v['binary'].replace(' ', ''), 2)
    if not n or any(i not in chars for i in range(n + 1)):
        return None
    if any(not (32 <= chars[i] < 127) for i in range(n)):
        return None
    text = ''.join(chr(chars[i]) for i in range(n))
    follow = chr(chars[n]) if 32 <= chars[n] < 127 and chars[n] not in (34, 92) else ''
    return text, follow


def replay_literal(ctx, g, o, inputs):
    """The counterexample literal (and a fixed list of edge literals) goes through the REAL
    primitive::load of the freshly built libocca; oracle: the same literal text compiled by the host
    g++ (decltype and value), both in one program."""
    lits = []
    cx = literal_from_trace(o.trace)
    if cx:
        lits.append(cx)
    lits += [(t, '') for t in LIT_EDGES]
    prog = literal_program(lits)
    rc, out, src = replaylib.compile_run(ctx, 'replay_literal', prog)
    p = replaylib.keep_replay_source(ctx, g, prog)
    lines = [l for l in out.splitlines() if l.startswith('MISMATCH')]
    kind = ('type' if 'has the type' in o.key else 'value' if 'has the value' in o.key or 'converted value' in o.key else
            'cursor' if 'consumed' in o.key else 'raise' if 'no error' in o.key else 'source' if 'spelling' in o.key else '')

    def same_class(line):
        """the mismatching literal belongs to the class of literals the failed obligation speaks about"""
        m = re.search(r'literal (\S+) ', line)
        t = m.group(1) if m else ''
        is_float = bool(re.search(r'[.]|^[0-9]+[eE]', t)) and not t.lower().startswith(('0x', '0b'))
        has_u = not is_float and 'u' in t.lower() and t not in ('true',)
        if o.key.startswith('h_literal: integer literal with u suffix'):
            return has_u
        if o.key.startswith('h_literal: decimal literal without u suffix'):
            return not is_float and not has_u and t[:1] in '123456789'
        if o.key.startswith('h_literal: binary/octal/hexadecimal literal without u suffix'):
            return not is_float and not has_u and t[:1] == '0'
        if o.key.startswith('h_literal: floating literal'):
            return is_float
        if o.key.startswith('h_literal: boolean literal'):
            return t in ('true', 'false')
        return True
    hit = [l for l in lines if (not kind or ('[%s]' % kind) in l) and same_class(l)]
    first = bool(cx) and any(('literal %s ' % cx[0]) in l for l in hit)
    return {'reproduced': rc == 1 and bool(hit), 'counterexample_literal': cx[0] if cx else None,
            'counterexample_reproduced_itself': first, 'failing_kind': kind,
            'oracle': 'the same literal text compiled by the host g++ (decltype and value), in the same program',
            'mismatches': hit[:8], 'program': p, 'output': out[-600:]}
