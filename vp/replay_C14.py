"""Native replay for C14 (filled in below)."""
def replay_operator(ctx, g, o, inputs):
    return None
