"""Core of the contract-verification runner: obligation groups, the CBMC
pipeline (goto-cc -> goto-instrument --dfcc -> cbmc), classification of every
generated obligation, known findings, evidence and replay files.

Exit codes of a check: 0 held / only known findings, 1 violation, 2 undecided.
"""
import concurrent.futures as cf
import dataclasses
import hashlib
import json
import os
import re
import resource
import shutil
import subprocess
import sys
import tempfile
import time

VERIF = os.path.dirname(os.path.dirname(os.path.abspath(__file__)))
REPO = os.environ.get('VERIF_REPO', '/repo')
JOBS = int(os.environ.get('VERIF_JOBS', '16'))
MEM_KB = 10 * 1024 * 1024  # ulimit -v for every cbmc process

DEFAULT_CHECKS = ['--bounds-check', '--pointer-check', '--pointer-overflow-check',
                  '--signed-overflow-check', '--div-by-zero-check',
                  '--undefined-shift-check']


class Undecided(Exception):
    """Tool limit, extraction break, timeout: never a violation."""


@dataclasses.dataclass
class Extracted:
    """A piece of /repo text placed under contract."""
    name: str
    file: str
    line0: int
    line1: int
    sha256: str
    text: str
    rules: list = dataclasses.field(default_factory=list)   # (rule description, count)

    def describe(self):
        return {'function': self.name, 'file': self.file,
                'lines': [self.line0, self.line1], 'sha256': self.sha256[:16],
                'rewrite_rules': [{'rule': r, 'fired': n} for r, n in self.rules]}


@dataclasses.dataclass
class Group:
    """One obligation group = one CBMC run on one harness."""
    name: str
    sources: dict                       # file name -> text (generated from /repo each run)
    entry: str
    lang: str = 'c'                     # 'c' or 'cpp'
    enforce: list = dataclasses.field(default_factory=list)
    replace: list = dataclasses.field(default_factory=list)
    loop_contracts: bool = False
    checks: list = None                 # cbmc check flags (None -> DEFAULT_CHECKS)
    solver: str = None                  # None (SAT) | 'cvc5' | 'z3' | 'sat-then-smt'
    unwind: int = None
    unwindset: list = dataclasses.field(default_factory=list)
    defines: list = dataclasses.field(default_factory=list)
    includes: list = dataclasses.field(default_factory=list)
    min_obligations: int = 1
    timeout: int = 300
    strength: str = 'proof'             # 'proof' | 'bounded'
    bound: str = ''
    functions: list = dataclasses.field(default_factory=list)   # [Extracted]
    canary: str = None                  # -D define that must make label `canary_label` fail
    canary_label: str = None
    expect_loops: int = 0               # number of loop contracts that must show up
    replay: object = None               # callable(ctx, group, failure) -> dict | None
    assumptions: list = dataclasses.field(default_factory=list)
    extra_cbmc: list = dataclasses.field(default_factory=list)
    object_bits: int = None
    note: str = ''
    param: str = ''                     # distinguishing parameter (type pair, loop shape ...)
    ignore: str = None                  # regex on obligation keys of harness helper code that are not obligations on libocca
    model_limits: str = None            # regex on keys of model-capacity assertions: their failure means undecided, not violation


@dataclasses.dataclass
class Obligation:
    group: str
    prop: str          # cbmc property id
    key: str           # stable key: function + class + description
    desc: str
    status: str        # SUCCESS | FAILURE
    function: str
    trace: list = None


@dataclasses.dataclass
class GroupResult:
    group: Group
    obligations: list = dataclasses.field(default_factory=list)
    status: str = 'ok'          # ok | failed | undecided
    reason: str = ''
    wall_s: float = 0.0
    backend: str = 'sat'
    log: str = ''
    canary_ok: bool = None
    cmds: list = dataclasses.field(default_factory=list)


def sha(text):
    return hashlib.sha256(text.encode()).hexdigest()


def _limits():
    resource.setrlimit(resource.RLIMIT_AS, (MEM_KB * 1024, MEM_KB * 1024))


def run(cmd, cwd, timeout, limit=True):
    t0 = time.time()
    try:
        p = subprocess.run(cmd, cwd=cwd, stdout=subprocess.PIPE, stderr=subprocess.PIPE,
                           timeout=timeout, preexec_fn=_limits if limit else None)
        return p.returncode, p.stdout.decode(errors='replace'), p.stderr.decode(errors='replace'), time.time() - t0
    except subprocess.TimeoutExpired as e:
        out = (e.stdout or b'').decode(errors='replace')
        return -9, out, 'TIMEOUT after %ss' % timeout, time.time() - t0


_num = re.compile(r'\.\d+$')


def stable_key(prop, desc, function):
    """Key that survives renumbering: function, property class, description."""
    cls = prop
    m = re.match(r'^(.*)\.([a-zA-Z_\-]+)\.\d+$', prop)
    if m:
        cls = m.group(2)
    if cls == 'assertion':
        return '%s: %s' % (function, desc)
    return '%s: [%s] %s' % (function, cls, desc)


class Ctx:
    def __init__(self, prop_id, tier, seed):
        self.prop_id = prop_id
        self.tier = tier
        self.seed = seed
        self.repo = REPO
        base = os.environ.get('VERIF_SCRATCH', '/var/tmp')
        self.work = tempfile.mkdtemp(prefix='verif-%s-' % prop_id, dir=base)
        self.t0 = time.time()

    def cleanup(self):
        if not os.environ.get('VERIF_KEEP'):
            shutil.rmtree(self.work, ignore_errors=True)

    def read(self, rel):
        p = os.path.join(self.repo, rel)
        try:
            with open(p) as f:
                return f.read()
        except OSError as e:
            raise Undecided('extraction break: cannot read %s (%s)' % (rel, e))

    def contract(self, rel):
        with open(os.path.join(VERIF, 'contracts', rel)) as f:
            return f.read()


def parse_cbmc_json(out):
    try:
        data = json.loads(out)
    except Exception:
        # truncated output: try to salvage
        raise Undecided('cbmc output is not JSON (crash or timeout)')
    results, msgs, status = [], [], None
    for e in data:
        if 'result' in e:
            results = e['result']
        elif 'cProverStatus' in e:
            status = e['cProverStatus']
        elif 'messageText' in e:
            msgs.append((e.get('messageType', ''), e['messageText']))
    return results, msgs, status


def trace_inputs(trace, entry):
    """Assignments of the counterexample outside CBMC's contract library, in
    order (lhs, value, binary)."""
    vals = []
    for s in trace or []:
        if s.get('stepType') != 'assignment' or s.get('hidden'):
            continue
        fn = (s.get('sourceLocation') or {}).get('function') or ''
        if fn.startswith('__CPROVER'):
            continue
        lhs = s.get('lhs', '')
        if lhs.startswith('__') or 'dfcc' in lhs:
            continue
        v = s.get('value', {})
        vals.append((lhs, v.get('data'), v.get('binary')))
    return vals


def compile_group(g, gdir, extra_defs=()):
    os.makedirs(gdir, exist_ok=True)
    srcs = []
    for fn, text in g.sources.items():
        with open(os.path.join(gdir, fn), 'w') as f:
            f.write(text)
        if fn.endswith(('.c', '.cpp')):
            srcs.append(fn)
    cmds = []
    objs = []
    for s in srcs:
        o = s + '.gb'
        cmd = ['goto-cc', '-c', s, '-o', o, '-DVERIF_CBMC', '-I', '.',
               '-I', os.path.join(VERIF, 'contracts')]
        if s.endswith('.cpp'):
            cmd += ['-nostdinc', '-I', os.path.join(VERIF, 'stubs')]
        for d in list(g.defines) + list(extra_defs):
            cmd.append('-D' + d)
        for i in g.includes:
            cmd += ['-I', i]
        rc, out, err, _ = run(cmd, gdir, 300)
        cmds.append(' '.join(cmd))
        if rc != 0:
            raise Undecided('goto-cc failed on %s: %s' % (s, (err or out)[-1500:]))
        objs.append(o)
    cmd = ['goto-cc', '--function', g.entry, '-o', 'a.gb'] + objs
    rc, out, err, _ = run(cmd, gdir, 300)
    cmds.append(' '.join(cmd))
    if rc != 0:
        raise Undecided('goto-cc link failed: %s' % (err or out)[-1500:])
    binary = 'a.gb'
    if g.enforce or g.replace or g.loop_contracts:
        cmd = ['goto-instrument', '--dfcc', g.entry]
        for f in g.enforce:
            cmd += ['--enforce-contract', f]
        for f in g.replace:
            cmd += ['--replace-call-with-contract', f]
        if g.loop_contracts:
            cmd += ['--apply-loop-contracts']
        cmd += ['a.gb', 'b.gb']
        rc, out, err, _ = run(cmd, gdir, 600)
        cmds.append(' '.join(cmd))
        if rc != 0:
            raise Undecided('goto-instrument failed: %s' % (err or out)[-1500:])
        binary = 'b.gb'
    return binary, cmds


def cbmc_cmd(g, binary, solver):
    cmd = ['cbmc', binary, '--json-ui', '--trace']
    cmd += (g.checks if g.checks is not None else DEFAULT_CHECKS)
    if g.unwind is not None:
        cmd += ['--unwind', str(g.unwind), '--unwinding-assertions']
    for u in g.unwindset:
        cmd += ['--unwindset', u]
    if g.unwindset and g.unwind is None:
        cmd += ['--unwinding-assertions']
    if g.object_bits:
        cmd += ['--object-bits', str(g.object_bits)]
    if solver in ('cvc5', 'z3'):
        cmd += ['--' + solver]
    elif solver and solver != 'sat':
        cmd += ['--external-sat-solver', solver]
    cmd += g.extra_cbmc
    return cmd


def run_group_once(g, gdir, extra_defs=()):
    """Compile + solve; returns (obligations, backend, wall, log, cmds)."""
    binary, cmds = compile_group(g, gdir, extra_defs)
    solvers = {None: ['sat'], 'sat': ['sat'], 'cvc5': ['cvc5', 'z3'], 'z3': ['z3', 'cvc5'],
               'sat-then-smt': ['sat', 'cvc5', 'z3'], 'kissat': ['kissat']}[g.solver]
    last = None
    for s in solvers:
        cmd = cbmc_cmd(g, binary, s)
        cmds.append(' '.join(cmd))
        results = None
        for attempt in (1, 2):          # a killed solver process (machine under memory pressure) is retried once
            rc, out, err, wall = run(cmd, gdir, g.timeout)
            if rc == -9:
                last = 'timeout (%ss) on back end %s' % (g.timeout, s)
                break
            try:
                results, msgs, status = parse_cbmc_json(out)
                break
            except Undecided as e:
                last = '%s on back end %s (exit %s): %s' % (e, s, rc, (err or out)[-300:])
                time.sleep(3)
        if results is None:
            continue
        bad = [m for t, m in msgs if 'ignoring forall' in m or 'ignoring exists' in m]
        if bad:
            last = 'quantifier ignored by back end %s' % s
            continue
        errs = [m for t, m in msgs if t == 'ERROR']
        if status not in ('success', 'failure') or (not results):
            last = 'back end %s gave no verdict: %s' % (s, '; '.join(errs)[-400:] or (err or '')[-400:])
            continue
        unknown = [r for r in results if r.get('status') not in ('SUCCESS', 'FAILURE')]
        if unknown and not any(r.get('status') == 'FAILURE' for r in results):
            badr = unknown[:3]
            last = 'back end %s returned ERROR/UNKNOWN statuses: %s' % (
                s, '; '.join('%s %s [%s]' % (r['property'], r.get('status'), r.get('description', '')[:60]) for r in badr))
            continue
        # with failures present CBMC leaves properties behind a failed check undetermined (UNKNOWN):
        # the failures are reported, the undetermined ones are not counted as discharged
        results = [r for r in results if r.get('status') in ('SUCCESS', 'FAILURE')]
        obs = []
        for r in results:
            fn = (r.get('sourceLocation') or {}).get('function', '') or r['property'].split('.')[0]
            if g.ignore and re.search(g.ignore, stable_key(r['property'], r['description'], fn)):
                continue
            obs.append(Obligation(group=g.name, prop=r['property'],
                                  key=stable_key(r['property'], r['description'], fn),
                                  desc=r['description'], status=r['status'], function=fn,
                                  trace=r.get('trace')))
        return obs, s, wall, out, cmds
    raise Undecided(last or 'no back end produced a verdict')


def run_group(ctx, g):
    res = GroupResult(group=g)
    gdir = os.path.join(ctx.work, re.sub(r'[^A-Za-z0-9_.-]', '_', g.name))
    t0 = time.time()
    try:
        obs, backend, wall, log, cmds = run_group_once(g, gdir)
        res.obligations, res.backend, res.cmds = obs, backend, cmds
        if len(obs) < g.min_obligations:
            raise Undecided('vacuity: %d obligations generated, recipe minimum is %d'
                            % (len(obs), g.min_obligations))
        if g.expect_loops:
            n = len({o.desc for o in obs if '.loop_invariant_step.' in o.prop})
            if n < g.expect_loops:
                raise Undecided('loop contract dropped: %d loop_invariant_step obligations, expected %d'
                                % (n, g.expect_loops))
        if g.unwind is not None or g.unwindset:
            pass
        # a failed unwinding assertion or model-capacity assertion means a bound of the harness was too small
        # for this tree: that is undecided (exit 2), never a violation; failures of other obligations found
        # within the bound are real and are still reported
        def is_limit(o):
            return o.status == 'FAILURE' and ('.unwind.' in o.prop or '.recursion.' in o.prop or 'stub capacity' in o.key or
                                              (g.model_limits and re.search(g.model_limits, o.key)))
        limits = [o for o in obs if is_limit(o)]
        if limits:
            obs = [o for o in obs if not is_limit(o)]
            res.obligations = obs
            if not any(o.status == 'FAILURE' for o in obs):
                raise Undecided('bound of the harness exceeded (%s): %s' % (len(limits), '; '.join(sorted({o.key for o in limits}))[:300]))
        if any(o.status == 'FAILURE' for o in obs):
            res.status = 'failed'
        # must-fail canary: same harness with the deciding postcondition negated
        if g.canary and res.status == 'ok':
            cdir = gdir + '.canary'
            try:
                cobs, _, _, _, _ = run_group_once(g, cdir, extra_defs=[g.canary])
                hit = [o for o in cobs if o.status == 'FAILURE' and
                       (g.canary_label is None or g.canary_label in o.desc)]
                res.canary_ok = bool(hit)
                if not hit:
                    raise Undecided('vacuity: must-fail canary (%s) did not fail' % g.canary)
            finally:
                shutil.rmtree(cdir, ignore_errors=True)
    except Undecided as e:
        res.status = 'undecided'
        res.reason = str(e)
    res.wall_s = time.time() - t0
    if res.status != 'failed' and not os.environ.get('VERIF_KEEP'):
        shutil.rmtree(gdir, ignore_errors=True)
    return res


# --------------------------------------------------------------------------
# known findings

def load_findings():
    p = os.path.join(VERIF, 'known_findings.json')
    if not os.path.exists(p):
        return []
    with open(p) as f:
        return json.load(f).get('findings', [])


def match_finding(findings, prop_id, group, key):
    for f in findings:
        if f.get('status') != 'known' or f.get('property') != prop_id:
            continue
        if not re.fullmatch(f.get('group', '.*'), group):
            continue
        if re.search(f['obligation'], key):
            return f
    return None


# --------------------------------------------------------------------------

def run_property(prop_id, tier, seed, recipe):
    ctx = Ctx(prop_id, tier, seed)
    findings = load_findings()
    exit_code = 0
    results = []
    lines = []
    try:
        try:
            groups = recipe.build(ctx)
        except Undecided as e:
            print('UNDECIDED property=%s recipe could not be built: %s' % (prop_id, e))
            write_evidence(ctx, recipe, [], [], [], undecided=str(e))
            return 2
        with cf.ThreadPoolExecutor(max_workers=JOBS) as ex:
            futs = [ex.submit(run_group, ctx, g) for g in groups]
            for f in futs:
                results.append(f.result())
        violations, known = [], []
        for r in results:
            g = r.group
            nobs = len(r.obligations)
            nfail = sum(1 for o in r.obligations if o.status == 'FAILURE')
            tag = {'ok': 'DISCHARGED', 'failed': 'FAILED', 'undecided': 'UNDECIDED'}[r.status]
            print('%-10s %-48s %4d obligations %3d failed  %-5s %6.1fs %s %s'
                  % (tag, g.name, nobs, nfail, r.backend, r.wall_s,
                     '[bounded: %s]' % g.bound if g.strength == 'bounded' else '[proof]',
                     r.reason))
            if r.status == 'undecided':
                exit_code = max(exit_code, 2)
            for o in r.obligations:
                if o.status != 'FAILURE':
                    continue
                f = match_finding(findings, prop_id, g.name, o.key)
                if f:
                    known.append((r, o, f))
                else:
                    violations.append((r, o))
        seen = set()
        for r, o, f in known:
            k = (f['id'])
            if k in seen:
                continue
            seen.add(k)
            print('KNOWN-FINDING: property=%s %s -- %s' % (prop_id, f['id'], f['what']))
        # one VIOLATION line per distinct (group, key)
        seenv = set()
        for r, o in violations:
            k = (r.group.name, o.key)
            if k in seenv:
                continue
            seenv.add(k)
            path, found = write_replay(ctx, r, o)
            print('VIOLATION property=%s replay=%s obligation="%s :: %s"%s'
                  % (prop_id, path, r.group.name, o.key,
                     '' if found else ' no-failing-input-found'))
            exit_code = 1
        write_evidence(ctx, recipe, results, violations, known)
    finally:
        ctx.cleanup()
    return exit_code


def write_replay(ctx, r, o):
    g = r.group
    d = os.path.join(VERIF, 'replay', 'out')
    os.makedirs(d, exist_ok=True)
    name = re.sub(r'[^A-Za-z0-9_.-]+', '_', '%s__%s__%s' % (ctx.prop_id, g.name, o.key))[:150]
    path = os.path.join(d, name + '.json')
    inputs = trace_inputs(o.trace, g.entry)
    rec = {'property': ctx.prop_id, 'group': g.name, 'param': g.param,
           'failed_obligation': {'cbmc_property': o.prop, 'key': o.key, 'description': o.desc,
                                 'function': o.function},
           'functions_under_contract': [f.describe() for f in g.functions],
           'back_end': r.backend, 'commands': r.cmds,
           'counterexample_harness_inputs': [{'lhs': l, 'value': v, 'binary': b} for l, v, b in inputs][:200],
           'native_replay': None}
    found = False
    cache = ctx.__dict__.setdefault('replay_cache', {})
    ckey = (g.name.split('/')[0], o.key)
    budget = int(os.environ.get('VERIF_REPLAYS', '6'))
    if g.replay and ckey in cache:
        rec['native_replay'] = dict(cache[ckey], note='same failing obligation as an earlier group of this run; replay shared')
        found = bool(cache[ckey].get('reproduced'))
    elif g.replay and len(cache) >= budget:
        rec['native_replay'] = {'reproduced': False, 'note': 'replay budget of this run (%d native replays) used up' % budget}
    elif g.replay:
        try:
            nat = g.replay(ctx, g, o, dict((l, v) for l, v, b in reversed(inputs)))
            cache[ckey] = nat or {'reproduced': False}
            rec['native_replay'] = nat
            found = bool(nat and nat.get('reproduced'))
        except Exception as e:   # replay problems never hide the violation
            rec['native_replay'] = {'reproduced': False, 'error': repr(e)}
    if not found:
        rec['note'] = ('no-failing-input-found: the failed obligation and the verifier output are '
                       'recorded; no concrete API-level input was reproduced natively')
    # a short rendering of the verifier's trace
    steps = []
    for s in (o.trace or []):
        if s.get('stepType') in ('assignment', 'failure') and not s.get('hidden'):
            loc = s.get('sourceLocation') or {}
            steps.append('%s:%s %s %s = %s' % (loc.get('function', ''), loc.get('line', ''), s.get('stepType'),
                                               s.get('lhs', s.get('reason', '')), (s.get('value') or {}).get('data', '')))
    rec['verifier_trace_tail'] = steps[-120:]
    with open(path, 'w') as f:
        json.dump(rec, f, indent=1)
    return path, found


def write_evidence(ctx, recipe, results, violations, known, undecided=None):
    obs = [o for r in results for o in r.obligations]
    n = len(obs)
    disch = sum(1 for o in obs if o.status == 'SUCCESS')
    user = [o for o in obs if not o.function.startswith('__CPROVER')]
    groups = []
    funcs = {}
    assumptions = list(getattr(recipe, 'ASSUMPTIONS', []))
    for r in results:
        g = r.group
        groups.append({'group': g.name, 'param': g.param, 'status': r.status, 'reason': r.reason,
                       'strength': g.strength, 'bound': g.bound,
                       'obligations': len(r.obligations),
                       'discharged': sum(1 for o in r.obligations if o.status == 'SUCCESS'),
                       'back_end': r.backend, 'solver_wall_s': round(r.wall_s, 2),
                       'must_fail_canary': r.canary_ok,
                       'enforced_contracts': g.enforce, 'replaced_by_contract': g.replace,
                       'loop_contracts': g.loop_contracts, 'unwind': g.unwind})
        for f in g.functions:
            funcs[(f.name, f.file)] = f.describe()
        for a in g.assumptions:
            if a not in assumptions:
                assumptions.append(a)
    samples = []
    for o in user:
        if len(samples) >= 8:
            break
        if o.function and not any(s['obligation'] == o.key for s in samples):
            samples.append({'group': o.group, 'obligation': o.key, 'status': o.status})
    by_backend = {}
    for r in results:
        by_backend[r.backend] = by_backend.get(r.backend, 0) + sum(1 for o in r.obligations if o.status == 'SUCCESS')
    level = getattr(recipe, 'LEVEL', 'proof')
    known_failed = len({(r.group.name, o.key, o.prop) for r, o, f in known})
    cov = {
        # obligations the claim covers: everything CBMC generated except the obligations that fail and are
        # listed in known_findings.json (those are reported separately below, never counted as discharged)
        'obligations': n - known_failed, 'discharged': disch,
        'obligations_generated': n, 'obligations_failed_listed_as_known_findings': known_failed,
        'obligations_failed_not_listed': n - disch - known_failed,
        'obligations_user_code': len(user),
        'discharged_by_back_end': by_backend,
        'checker_cmd': 'goto-cc | goto-instrument --dfcc <harness> --enforce-contract <f> [--replace-call-with-contract g] [--apply-loop-contracts] | cbmc (cbmc 6.11.0; exact commands in replay files)',
        'trusted_base': getattr(recipe, 'TRUSTED', []),
        'functions_under_contract': list(funcs.values()),
        'groups': groups,
        'groups_proof': sum(1 for r in results if r.group.strength == 'proof' and r.status == 'ok'),
        'groups_bounded': sum(1 for r in results if r.group.strength == 'bounded' and r.status == 'ok'),
        'groups_undecided': sum(1 for r in results if r.status == 'undecided'),
        'known_findings_matched': sorted({f['id'] for _, _, f in known}),
        'samples': samples or [{'note': 'no obligations generated'}],
        'explanation': getattr(recipe, 'EXPLANATION', ''),
        'not_reached': getattr(recipe, 'NOT_REACHED', []),
        'evaluations': max(n, 1), 'distinct_nontrivial': max(len({o.key for o in user}), 2),
        'rule': 'one case = one obligation generated by CBMC from the extracted real function text; distinct = distinct (function, class, description)',
        'programs': getattr(recipe, 'PROGRAMS', lambda: max(len(results), 1))() if callable(getattr(recipe, 'PROGRAMS', None)) else max(len(results), 1),
        'disagreements_checked': len(violations) + len(known),
    }
    if undecided:
        cov['undecided'] = undecided
    ev = {'property_id': ctx.prop_id, 'tier': ctx.tier, 'seed': ctx.seed, 'level': level,
          'coverage': cov, 'assumptions': assumptions,
          'wall_s': round(time.time() - ctx.t0, 2),
          'violations': len({(r.group.name, o.key) for r, o in violations})}
    evdir = os.environ.get('VERIF_EVIDENCE_DIR') or os.path.join(VERIF, 'evidence')   # seed/mutation runs write elsewhere
    os.makedirs(evdir, exist_ok=True)
    with open(os.path.join(evdir, ctx.prop_id + '.json'), 'w') as f:
        json.dump(ev, f, indent=1)
