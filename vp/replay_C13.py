"""Native replay for C13: directive sequences are run through the real tokenizer + preprocessor
(built from the tree under check) and through the system C preprocessor (`cpp -P`); kept lines,
error reports, crashes and the final status stack are compared.

The sequence is derived from the verifier's counterexample (pre-state -> a directive prefix that
drives the real preprocessor into that state, then the directive under test with a condition of the
kind the failed obligation is about), followed by a small fixed family and seeded random sequences."""
import os
import random
import re
import subprocess
import tempfile

from . import replaylib

RD, IG, FI, FE, FN = 1, 2, 4, 8, 16

DRIVER = r'''
#include <cstdio>
#include <cstdlib>
#include <fstream>
#include <sstream>
#include <occa/internal/lang/tokenizer.hpp>
#include <occa/internal/lang/preprocessor.hpp>
using namespace occa::lang;
int main(int argc, char **argv) {
  if (argc < 2) { printf("driver ok\n"); return 0; }
  std::ifstream in(argv[1]); std::stringstream ss; ss << in.rdbuf();
  std::string source = ss.str();
  tokenizer_t tokenizer;
  preprocessor_t preprocessor;
  occa::lang::stream<token_t*> ts = tokenizer.map(preprocessor);
  tokenizer.set(source.c_str());
  preprocessor.clear();
  std::string line;
  int threw = 0;
  try {
    while (!ts.isEmpty()) {
      token_t *t = NULL; ts >> t;
      if (!t) break;
      if (t->type() & tokenType::newline) { if (line.size()) printf("%s\n", line.c_str()); line = ""; fflush(stdout); }
      else { if (line.size()) line += " "; line += t->str(); }
      delete t;
    }
  } catch (...) { threw = 1; }
  if (line.size()) printf("%s\n", line.c_str());
  preprocessor_t &pp = *((preprocessor_t*) ts.getInput("preprocessor_t"));
  printf("@@ errors=%d depth=%d status=%d threw=%d\n", pp.errors, (int) pp.statusStack.size(), pp.status, threw);
  return 0;
}
'''


def build_driver(ctx):
    cached = ctx.__dict__.get('c13_driver')
    if cached and os.path.exists(cached):
        return cached
    ctx.__dict__['c13_driver'] = exe = _build_driver(ctx)
    return exe


def _build_driver(ctx):
    rc, out, src = replaylib.compile_run(ctx, 'c13drv', DRIVER)
    if rc != 0 or 'driver ok' not in out:
        raise RuntimeError('C13 replay driver does not run: ' + out[-400:])
    return src[:-len('.cpp')]


def run_occa(exe, text, workdir):
    fd, path = tempfile.mkstemp(suffix='.c', dir=workdir)
    with os.fdopen(fd, 'w') as f:
        f.write(text)
    try:
        p = subprocess.run([exe, path], stdout=subprocess.PIPE, stderr=subprocess.STDOUT, timeout=60,
                           env=replaylib.env_for_run())
        out = p.stdout.decode(errors='replace')
        rc = p.returncode
    except subprocess.TimeoutExpired:
        out, rc = '', -99
    m = re.search(r'^@@ errors=(-?\d+) depth=(-?\d+) status=(-?\d+) threw=(\d)', out, re.M)
    plain = re.sub(r'\x1b\[[0-9;]*m', '', out)
    lines = [l.strip() for l in plain.split('\n') if re.fullmatch(r'\s*[A-Z]\w*\s*', l)]
    return {'rc': rc, 'crashed': rc < 0 or rc >= 128, 'signal': (-rc if rc < 0 else rc - 128 if rc >= 128 else 0),
            'lines': lines, 'errors': int(m.group(1)) if m else None, 'depth': int(m.group(2)) if m else None,
            'status': int(m.group(3)) if m else None, 'threw': int(m.group(4)) if m else None,
            'printed_error': bool(re.search(r'\bError\b', plain)), 'path': path}


def run_cpp(text, workdir):
    fd, path = tempfile.mkstemp(suffix='.c', dir=workdir)
    with os.fdopen(fd, 'w') as f:
        f.write(text)
    p = subprocess.run(['cpp', '-P', path], stdout=subprocess.PIPE, stderr=subprocess.PIPE, timeout=60)
    lines = [l.strip() for l in p.stdout.decode(errors='replace').split('\n') if re.fullmatch(r'\s*[A-Z]\w*\s*', l)]
    return {'rc': p.returncode, 'lines': lines, 'stderr': p.stderr.decode(errors='replace')[-300:]}


def compare(text, occa, cpp):
    """Returns the list of disagreements with C (empty = agrees)."""
    bad = []
    if occa['crashed']:
        # a crash while evaluating a condition that C evaluates too (cpp reports an error) belongs to
        # expression evaluation (C14), not to the conditional-inclusion state machine
        if cpp['rc'] == 0:
            bad.append('occa preprocessor crashes (signal %d) on a source the C preprocessor accepts' % occa['signal'])
        return bad
    if cpp['rc'] == 0:
        if occa['errors'] or occa['printed_error'] or occa['threw']:
            bad.append('occa reports an error on a source the C preprocessor accepts')
    if occa['lines'] != cpp['lines']:
        bad.append('kept lines differ: occa %s, cpp %s' % (occa['lines'], cpp['lines']))
    opens = len(re.findall(r'^#if', text, re.M))
    closes = len(re.findall(r'^#endif', text, re.M))
    if opens == closes and occa['depth'] is not None and occa['depth'] != 1 and 'unterminated' not in cpp['stderr'] \
            and 'without #if' not in cpp['stderr']:
        bad.append('balanced source leaves %d statuses on the stack (expected 1): a group is still open' % occa['depth'])
    return bad


def prefix_for(s0, p0):
    """Directive lines that drive a fresh preprocessor into a state whose (status, saved parent) window is (s0, p0)."""
    if not (s0 & FI):
        return [], 0
    pre, opens = [], 1
    parent_active = bool(p0 & RD)
    if not parent_active:
        pre += ['#if 0']
        opens += 1
        pre += ['#if 1']
        if s0 & FE:
            pre += ['#else']
        return pre, opens
    if s0 & RD:
        pre += (['#if 0', '#else'] if s0 & FE else ['#if 1'])
    elif not (s0 & FN):
        pre += ['#if 0']
    else:
        pre += (['#if 1', '#else'] if s0 & FE else ['#if 1', '#elif 1'])
    return pre, opens


def render(directives):
    """One marker line after every directive so that kept lines identify the active regions."""
    out = []
    for i, d in enumerate(directives):
        out.append(d)
        out.append('L%d' % i)
    return '\n'.join(out) + '\n'


def ival(inputs, name, default):
    v = inputs.get(name)
    if v is None:
        return default
    m = re.match(r'-?\d+', str(v))
    return int(m.group(0)) if m else default


def candidates(g, o, inputs, seed):
    key = o.key
    m = re.search(r'VERIF_DIR=(\d)', ' '.join(g.defines))
    d = int(m.group(1)) if m else 3
    s0, p0 = ival(inputs, 's0', RD), ival(inputs, 'p0', RD)
    pre, opens = prefix_for(s0, p0)
    if 'depth' in key or 'invalid condition' in key:
        conds = ['1 +', '(1/0)']
    elif 'NOT evaluated' in key or 'no error' in key or 'skipped' in key:
        conds = ['(1/0)', '1 +', '1']
    else:
        conds = ['1', '0', '(1/0)', '1 +']
    seqs = []
    for c in conds:
        test = {0: '#if ' + c, 1: '#ifdef X', 2: '#ifndef X', 3: '#elif ' + c, 4: '#else', 5: '#endif'}[d]
        n_open = opens + (1 if d <= 2 else 0) - (1 if d == 5 and (s0 & FI) else 0)
        seqs.append(('counterexample state status=%d parent=%d, then %s' % (s0, p0, test),
                     render(pre + [test] + ['#endif'] * n_open)))
    fixed = [
        ['#if 1', '#elif (1/0)', '#endif'],
        ['#if 1', '#elif 1 +', '#else', '#endif'],
        ['#if 0', '#if 1', '#elif (1/0)', '#endif', '#endif'],
        ['#if 0', '#if 1', '#elif 1 +', '#endif', '#endif'],
        ['#if 0', '#elif 1', '#elif (1/0)', '#else', '#endif'],
        ['#if 0', '#elif 1 +', '#endif'],
        ['#if 0', '#elif 1 +', '#else', '#endif'],
    ]
    for f in fixed:
        seqs.append(('fixed family', render(f)))
    rnd = random.Random(seed)
    for _ in range(24):
        seqs.append(('seeded random sequence', render(random_sequence(rnd))))
    return seqs


def random_sequence(rnd, max_len=10):
    """Balanced random directive sequence; conditions 0 / 1 / poison, nesting up to 3."""
    out, stack = [], []          # stack of 'seenElse' flags
    conds = ['0', '1', '1', '(1/0)', '1 +']
    for _ in range(rnd.randint(2, max_len)):
        choices = ['if'] if len(stack) < 3 else []
        if stack:
            choices += ['endif', 'endif']
            if not stack[-1]:
                choices += ['elif', 'elif', 'else']
        c = rnd.choice(choices)
        if c == 'if':
            out.append(rnd.choice(['#if ' + rnd.choice(conds[:3]), '#if ' + rnd.choice(conds), '#ifdef X', '#ifndef X']))
            stack.append(False)
        elif c == 'elif':
            out.append('#elif ' + rnd.choice(conds))
        elif c == 'else':
            out.append('#else')
            stack[-1] = True
        else:
            out.append('#endif')
            stack.pop()
    out += ['#endif'] * len(stack)
    return out


def replay(ctx, g, o, inputs):
    exe = build_driver(ctx)
    work = tempfile.mkdtemp(prefix='c13-', dir=ctx.work)
    tried, hits = 0, []
    for what, text in candidates(g, o, inputs, ctx.seed):
        occa = run_occa(exe, text, work)
        cpp = run_cpp(text, work)
        tried += 1
        bad = compare(text, occa, cpp)
        if bad:
            hits.append({'how_chosen': what, 'source': text, 'disagreement': bad,
                         'occa': {k: occa[k] for k in ('rc', 'lines', 'errors', 'depth', 'status', 'printed_error')},
                         'cpp -P': {'rc': cpp['rc'], 'lines': cpp['lines'], 'stderr': cpp['stderr']}})
    p = replaylib.keep_replay_source(ctx, g, DRIVER)
    # the counterexample-derived sequences come first; report those when they reproduce
    return {'reproduced': bool(hits), 'sequences_tried': tried, 'program': p,
            'reproduced_from_counterexample_state': any(h['how_chosen'].startswith('counterexample') for h in hits),
            'oracle': 'system `cpp -P` on the same text; driver = real tokenizer_t.map(preprocessor_t) from the tree under check',
            'failing_inputs': hits[:4]}
