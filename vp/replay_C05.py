"""Native replay for C05: allocation histories over the property combinations
use_host_pointer / own_host_pointer x with/without source, malloc / wrapMemory /
clone / slice, through the public API on a Serial device; memoryAllocated() is
compared with the reference model after every step and must be 0 at the end."""
from . import replaylib

PROG = r'''
#include <occa.hpp>
#include <cstdio>
#include <vector>
int main() {
  int bad = 0;
  for (int uhp = 0; uhp < 2; ++uhp) for (int ohp = 0; ohp < 2; ++ohp) for (int withSrc = 0; withSrc < 2; ++withSrc) {
    occa::device dev({{"mode", "Serial"}});
    std::vector<char> host(64, 1);
    occa::json props; props["use_host_pointer"] = (bool) uhp; props["own_host_pointer"] = false; (void) ohp;
    long model = 0;
    {
      occa::memory a = dev.malloc(64, occa::dtype::byte, withSrc ? host.data() : NULL, props);
      model += (withSrc && uhp) ? 0 : 64;
      if ((long) dev.memoryAllocated() != model) { printf("FAILS: use_host_pointer=%d src=%d: after malloc(64) memoryAllocated()=%ld, model %ld\n", uhp, withSrc, (long) dev.memoryAllocated(), model); bad = 1; }
      occa::memory s = a.slice(8, 16);
      occa::memory w = dev.wrapMemory(host.data(), 64, occa::dtype::byte);
      if ((long) dev.memoryAllocated() != model) { printf("FAILS: slice/wrapMemory changed memoryAllocated() to %ld, model %ld\n", (long) dev.memoryAllocated(), model); bad = 1; }
      occa::memory c = a.clone(); model += 64;
      if ((long) dev.memoryAllocated() != model) { printf("FAILS: use_host_pointer=%d src=%d: after clone memoryAllocated()=%ld, model %ld\n", uhp, withSrc, (long) dev.memoryAllocated(), model); bad = 1; }
    }
    if (dev.memoryAllocated() != 0) { printf("FAILS: use_host_pointer=%d src=%d: %ld bytes still accounted after every memory object was released\n", uhp, withSrc, (long) dev.memoryAllocated()); bad = 1; }
  }
  printf(bad ? "REPRODUCED\n" : "not reproduced\n");
  return bad;
}
'''


def replay(ctx, g, o, inputs):
    rc, out, src = replaylib.compile_run(ctx, 'replay_c05', PROG, timeout=300)
    p = replaylib.keep_replay_source(ctx, g, PROG)
    import re
    return {'reproduced': rc != 0 and 'REPRODUCED' in out, 'failing_checks': re.findall(r'FAILS: .*', out)[:6], 'program': p,
            'how': 'allocation histories over use_host_pointer x source x malloc/slice/wrapMemory/clone through the public API on a Serial device',
            'output': out[-800:]}
