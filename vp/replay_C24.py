"""Native replay for C24: the counterexample string / key is read from the verifier's trace, the real
occa::json dumps it (as a string value and as the key of a one-entry object) and parses the dumped text back;
the same postconditions are evaluated natively.  When the exact string does not reproduce, every string of
length <= 2 over a small alphabet of special bytes is tried."""
import re

from . import replaylib


def last_values(trace):
    vals = {}
    for s in trace or []:
        if s.get('stepType') != 'assignment':
            continue
        v = (s.get('value') or {}).get('data')
        if v is not None:
            vals[s.get('lhs', '')] = v
    return vals


def _byte(v):
    s = str(v)
    m = re.match(r"'(\\?.+?)'$", s)
    if m:
        t = m.group(1)
        esc = {'\\n': 10, '\\t': 9, '\\r': 13, '\\b': 8, '\\f': 12, '\\\\': 92, "\\'": 39, '\\"': 34, '\\0': 0, '\\a': 7, '\\v': 11}
        if t in esc:
            return esc[t]
        if len(t) == 1:
            return ord(t)
        m2 = re.match(r'\\(\d+)$', t)
        if m2:
            return int(m2.group(1), 8) & 255
        m2 = re.match(r'\\x([0-9a-fA-F]+)$', t)
        if m2:
            return int(m2.group(1), 16) & 255
    m = re.match(r'-?\d+', s)
    return (int(m.group(0)) & 255) if m else None


PROG = r'''
#include <occa/types/json.hpp>
#include <cstdio>
#include <string>
#include <set>
static std::set<std::string> fails;
static std::string hex(const std::string &s) { std::string r; char b[8]; for (size_t i = 0; i < s.size(); ++i) { snprintf(b, sizeof b, "%02x ", (unsigned char) s[i]); r += b; } return r; }
#define CHECK(c, what, s) do { if (!(c)) { if (fails.insert(what).second) printf("FAILS: %s | bytes: %s| dumped: %s\n", what, hex(s).c_str(), dumped.c_str()); } } while (0)
static void one(const std::string &s) {
  std::string dumped;
  {
    occa::json v(s);
    dumped = v.dump(0);
    bool ok = false, threw = false;
    try { occa::json w; const char *c = dumped.c_str(); w.load(c); ok = w.isString() && w.string() == s;
          CHECK(c == dumped.c_str() + dumped.size(), "loading a dumped string value consumes exactly the dumped text", s); }
    catch (...) { threw = true; }
    CHECK(!threw, "the codec raises no error while loading text it dumped itself", s);
    if (!threw) CHECK(ok, "loading a dumped string value yields the original string", s);
  }
  if (s.size()) {
    occa::json o;
    o[s] = 1;
    dumped = o.dump(0);
    bool ok = false, threw = false;
    try { occa::json w; w.load(dumped); ok = w.isObject() && w.size() == 1 && w.has(s) && w.object().begin()->first == s; }
    catch (...) { threw = true; }
    CHECK(!threw, "the codec raises no error while loading text it dumped itself", s);
    CHECK(ok, "loading a dumped object key yields the original key", s);
    CHECK(ok, "loading a dumped object key stops exactly at the colon", s);
  }
}
int main() {
  const unsigned char ce[] = { @BYTES@ 0 };
  one(std::string((const char*) ce));
  if (!fails.empty()) { printf("REPRODUCED on the counterexample\n"); return 1; }
  const char special[] = { '"', '\\', 'n', 'u', '\n', '\t', 'a', '\'', (char) 0x80, '/', ':' };
  const int ns = sizeof(special);
  for (int i = 0; i < ns; ++i) {
    one(std::string(1, special[i]));
    for (int j = 0; j < ns; ++j) one(std::string(1, special[i]) + std::string(1, special[j]));
  }
  printf(fails.empty() ? "not reproduced\n" : "REPRODUCED by scanning short strings over special bytes\n");
  return fails.empty() ? 0 : 1;
}
'''


def replay_codec(ctx, g, o, inputs):
    vals = last_values(o.trace)
    n = None
    for k in ('s.len', 'a.len'):
        if k in vals:
            m = re.match(r'\d+', str(vals[k]))
            if m:
                n = int(m.group(0))
    bs = []
    for i in range(16):
        v = vals.get('s.buf[%dl]' % i, vals.get('a.buf[%dl]' % i))
        if v is None:
            break
        b = _byte(v)
        if not b:
            break
        bs.append(b)
    if n is not None:
        bs = bs[:n]
    prog = PROG.replace('@BYTES@', ''.join('%d, ' % b for b in bs))
    rc, out, src = replaylib.compile_run(ctx, 'replay_json', prog, timeout=120)
    p = replaylib.keep_replay_source(ctx, g, prog)
    fails = re.findall(r'FAILS: (.*?) \| (.*)', out)
    hit = [(f, c) for f, c in fails if f in o.desc or o.desc in f]
    return {'reproduced': bool(hit), 'failing_checks': [f for f, _ in fails],
            'witness': hit[0][1] if hit else None,
            'input_from_trace': {'bytes': bs}, 'program': p, 'output': out[-800:]}
