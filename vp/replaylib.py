"""Native replay: the verifier's counterexample (or a witness derived from
the failed obligation) is run against the real code built from /repo's current
tree.  Used only after an obligation failed; a replay problem never hides the
violation (the VIOLATION line then ends with no-failing-input-found)."""
import fcntl
import os
import re
import subprocess
import tempfile

from .core import REPO, VERIF

BUILD = os.environ.get('VERIF_BUILD', '/var/tmp/occa-verif-build')
if REPO != '/repo':
    BUILD = BUILD + '-' + re.sub(r'[^A-Za-z0-9]', '_', REPO)


def sh(cmd, cwd=None, timeout=1800, env=None):
    p = subprocess.run(cmd, cwd=cwd, stdout=subprocess.PIPE, stderr=subprocess.STDOUT,
                       timeout=timeout, env=env)
    return p.returncode, p.stdout.decode(errors='replace')


def ensure_lib():
    """(Re)build libocca.so and bin/occa from /repo's current tree in a
    scratch build dir outside /repo and /verif; incremental."""
    os.makedirs(BUILD, exist_ok=True)
    lock = open(os.path.join(BUILD, '.verif.lock'), 'w')
    fcntl.flock(lock, fcntl.LOCK_EX)
    try:
        if not os.path.exists(os.path.join(BUILD, 'build.ninja')):
            rc, out = sh(['cmake', '-G', 'Ninja', '-S', REPO, '-B', BUILD,
                          '-DCMAKE_BUILD_TYPE=None', '-DCMAKE_CXX_FLAGS=-O1 -Wno-error',
                          '-DOCCA_ENABLE_TESTS=OFF', '-DOCCA_ENABLE_EXAMPLES=OFF',
                          '-DOCCA_ENABLE_CUDA=OFF', '-DOCCA_ENABLE_HIP=OFF', '-DOCCA_ENABLE_OPENCL=OFF',
                          '-DOCCA_ENABLE_DPCPP=OFF', '-DOCCA_ENABLE_METAL=OFF', '-DOCCA_ENABLE_FORTRAN=OFF'])
            if rc != 0:
                raise RuntimeError('cmake configure failed: ' + out[-800:])
        rc, out = sh(['cmake', '--build', BUILD, '-j', '16'])
        if rc != 0:
            raise RuntimeError('build of libocca failed: ' + out[-1500:])
    finally:
        fcntl.flock(lock, fcntl.LOCK_UN)
        lock.close()
    return BUILD


def env_for_run():
    e = dict(os.environ)
    e['LD_LIBRARY_PATH'] = os.path.join(BUILD, 'lib') + ':' + e.get('LD_LIBRARY_PATH', '')
    e['OCCA_CACHE_DIR'] = os.path.join(BUILD, 'occa-cache')
    e['OCCA_DIR'] = REPO
    return e


def compile_run(ctx, name, source, extra_sources=(), flags=(), args=(), need_lib=True, timeout=120):
    """Compile a native replay program against the real headers (public and
    internal) and run it.  Returns (rc, output)."""
    if need_lib:
        ensure_lib()
    d = tempfile.mkdtemp(prefix='replay-', dir=ctx.work)
    src = os.path.join(d, name + '.cpp')
    with open(src, 'w') as f:
        f.write(source)
    exe = os.path.join(d, name)
    cmd = ['g++', '-std=c++17', '-O0', '-g', '-Wno-error', '-fpermissive', '-w',
           '-I', os.path.join(REPO, 'include'), '-I', os.path.join(REPO, 'src'),
           '-I', os.path.join(BUILD, 'include'), src] + list(extra_sources) + list(flags) + \
          ['-o', exe]
    if need_lib:
        cmd += ['-L', os.path.join(BUILD, 'lib'), '-locca', '-Wl,-rpath,' + os.path.join(BUILD, 'lib')]
    rc, out = sh(cmd, timeout=600)
    if rc != 0:
        raise RuntimeError('replay program failed to compile: ' + out[-1500:])
    rc, out = sh([exe] + list(args), cwd=d, timeout=timeout, env=env_for_run())
    return rc, out, src


def keep_replay_source(ctx, group, src_text, suffix='cpp'):
    d = os.path.join(VERIF, 'replay', 'out')
    os.makedirs(d, exist_ok=True)
    p = os.path.join(d, re.sub(r'[^A-Za-z0-9_.-]+', '_', '%s__%s' % (ctx.prop_id, group.name)) + '.' + suffix)
    with open(p, 'w') as f:
        f.write(src_text)
    return p


# ------------------------------------------------------------------ C27

def replay_hash_ub(ctx, g, o, inputs):
    """UB in hash(): run the real hash.cpp under UBSan on a buffer of the
    length the counterexample used (content from the trace when available)."""
    n = 1
    for k, v in inputs.items():
        if k == 'bytes' and v:
            m = re.match(r'(\d+)', v)
            if m:
                n = min(int(m.group(1)), 4096)
    n = max(n, 2)
    prog = r'''
#include <occa/utils/hash.hpp>
#include <cstdio>
#include <cstdlib>
#include <vector>
int main(int argc, char **argv) {
  size_t n = strtoul(argv[1], 0, 10);
  std::vector<char> buf(n, 'a');
  occa::hash_t h = occa::hash(buf.data(), n);
  printf("hash of %zu bytes: %s\n", n, h.getFullString().c_str());
  return 0;
}
'''
    rc, out, src = compile_run(ctx, 'replay_hash', prog,
                               extra_sources=[os.path.join(REPO, 'src/utils/hash.cpp')],
                               flags=['-fsanitize=undefined', '-fno-sanitize-recover=undefined'],
                               args=[str(n)])
    bad = 'runtime error' in out
    p = keep_replay_source(ctx, g, prog)
    return {'reproduced': bad, 'input': {'bytes': n, 'content': "'a' * n"}, 'program': p,
            'how': 'real src/utils/hash.cpp compiled with -fsanitize=undefined, linked before libocca',
            'output': out[-600:]}


def replay_hash_t(ctx, g, o, inputs):
    """hash_t string/operator contracts: evaluate the same postconditions natively on the
    counterexample words plus a few fixed edge values (all-zero, all-ones)."""
    words = []
    for k, v in inputs.items():
        m = re.match(r'(\w+)\.h\[(\d+)l?\]', k)
        if m and v and re.match(r'-?\d+', v):
            words.append((m.group(1), int(m.group(2)), int(re.match(r'-?\d+', v).group(0))))
    vals = {}
    for name, i, v in words:
        vals.setdefault(name, [0] * 8)[i] = v
    cands = list(vals.values())[:4] + [[0] * 8, [-1] * 8, [1, 0, 0, 0, 0, 0, 0, 0]]
    arr = ',\n'.join('{' + ','.join(str(x) for x in c) + '}' for c in cands)
    prog = r'''
#include <occa/utils/hash.hpp>
#include <cstdio>
#include <string>
using occa::hash_t;
static int bad = 0;
#define CHECK(c, what) do { if (!(c)) { printf("FAILS: %%s\n", what); bad = 1; } } while (0)
static void one(const int *w, const int *v) {
  hash_t a(w), b(v);
  std::string f = a.getFullString();
  CHECK(f.size() == 64, "full string has 64 characters");
  CHECK(hash_t::fromString(f) == a, "fromString(getFullString(h)) == h");
  CHECK(a.getString() == f.substr(0, 16), "short string is the first 16 characters of the full string");
  hash_t c = a ^ b;
  CHECK(c.getString() == c.getFullString().substr(0, 16), "short string of a ^ b");
  hash_t d = a; std::string s0 = d.getString(); d ^= b;
  CHECK(d.getString() == d.getFullString().substr(0, 16), "short string after ^= (stale cache)");
  hash_t m = a; s0 = m.getString(); m ^= b; hash_t cpy(m); hash_t asg; asg = m;
  CHECK(cpy.getString() == cpy.getFullString().substr(0, 16), "short string of a copy made after getString(); ^= (cache copied)");
  CHECK(asg.getString() == asg.getFullString().substr(0, 16), "short string of an assigned copy made after getString(); ^= (cache copied)");
  hash_t e = a; s0 = e.getString(); e.clear();
  CHECK(e.getString() == e.getFullString().substr(0, 16), "short string after clear()");
  CHECK(!(a < a), "operator< irreflexive");
  CHECK((a == b) == (!(a < b) && !(b < a)), "operator< total");
  for (int i = 0; i < 8; ++i) CHECK(c.h[i] == (w[i] ^ v[i]), "operator^ word-wise xor");
}
int main() {
  const int W[][8] = {
%s
  };
  const int n = sizeof(W) / sizeof(W[0]);
  for (int i = 0; i < n; ++i) for (int j = 0; j < n; ++j) one(W[i], W[j]);
  hash_t z; CHECK(z.getString() == z.getFullString().substr(0, 16), "short string of default hash");
  printf(bad ? "REPRODUCED\n" : "not reproduced\n");
  return bad;
}
''' % arr
    rc, out, src = compile_run(ctx, 'replay_hash_t', prog)
    p = keep_replay_source(ctx, g, prog)
    fails = sorted(set(re.findall(r'FAILS: (.*)', out)))
    return {'reproduced': rc != 0 and bool(fails), 'failing_checks': fails, 'program': p,
            'input': {'hash words tried': cands}, 'output': out[-600:]}


def replay_hash_determinism(ctx, g, o, inputs):
    """Equal bytes at different addresses/alignments must hash equally (real library)."""
    prog = r'''
#include <occa/utils/hash.hpp>
#include <cstdio>
#include <cstring>
int main() {
  alignas(8) char A[64], B[64]; int bad = 0;
  for (int n = 0; n <= 24 && !bad; ++n) for (int oa = 0; oa < 8 && !bad; ++oa) for (int ob = 0; ob < 8 && !bad; ++ob) {
    for (int i = 0; i < 64; ++i) { A[i] = (char) (i * 37 + 11); B[i] = (char) (i * 91 + 5); }
    memcpy(B + ob, A + oa, n);
    if (occa::hash(A + oa, n) != occa::hash(B + ob, n)) { printf("FAILS: %d equal bytes at offsets %d / %d of 8-aligned arrays hash differently\n", n, oa, ob); bad = 1; }
  }
  printf(bad ? "REPRODUCED\n" : "not reproduced\n");
  return bad;
}
'''
    rc, out, src = compile_run(ctx, 'replay_hash_det', prog)
    p = keep_replay_source(ctx, g, prog)
    return {'reproduced': rc != 0 and 'FAILS' in out, 'program': p, 'output': out[-500:],
            'how': 'occa::hash on equal byte sequences placed at all offsets 0..7 of two 8-aligned arrays, lengths 0..24'}
