"""Native replay for C29: the contracts of recipes/C29.py evaluated by a C++ program that includes the
real headers (public C API + occa/internal/c/types.hpp) and links the freshly built libocca.  Every
check prints `FAILS: <obligation description>` with the SAME text as the CBMC obligation, so a failed
obligation is reproduced iff its description is among the printed lines."""
import re

from . import replaylib

SC = [('bool', 'bool', 'bool_', 'int8_'), ('int8', 'int8_t', 'int8_', 'int8_'), ('uint8', 'uint8_t', 'uint8_', 'uint8_'),
      ('int16', 'int16_t', 'int16_', 'int16_'), ('uint16', 'uint16_t', 'uint16_', 'uint16_'),
      ('int32', 'int32_t', 'int32_', 'int32_'), ('uint32', 'uint32_t', 'uint32_', 'uint32_'),
      ('int64', 'int64_t', 'int64_', 'int64_'), ('uint64', 'uint64_t', 'uint64_', 'uint64_'),
      ('float', 'float', 'float_', 'float_'), ('double', 'double', 'double_', 'double_')]
PUB = {'bool': 'occaBool', 'int8_t': 'occaInt8', 'uint8_t': 'occaUInt8', 'int16_t': 'occaInt16', 'uint16_t': 'occaUInt16',
       'int32_t': 'occaInt32', 'uint32_t': 'occaUInt32', 'int64_t': 'occaInt64', 'uint64_t': 'occaUInt64',
       'float': 'occaFloat', 'double': 'occaDouble'}
AMB = [('occaChar', 'char', 'int8_'), ('occaUChar', 'unsigned char', 'uint8_'), ('occaShort', 'short', 'int16_'),
       ('occaUShort', 'unsigned short', 'uint16_'), ('occaInt', 'int', 'int32_'), ('occaUInt', 'unsigned int', 'uint32_'),
       ('occaLong', 'long', 'int64_'), ('occaULong', 'unsigned long', 'uint64_')]

PROG = r'''
#include <occa.h>
#include <occa.hpp>
#include <occa/internal/c/types.hpp>
#include <cstdio>
#include <cstring>
#include <cmath>
#include <limits>
#include <set>
#include <string>
#include <vector>
namespace tt = occa::c::typeType;
namespace pt = occa::primitiveType;
static std::set<std::string> fails;
static void FAIL(const std::string &what, const std::string &input) {
  if (fails.insert(what).second) printf("FAILS: %s   [input %s]\n", what.c_str(), input.c_str());
}
template <class T> static bool biteq(T a, T b) { return memcmp(&a, &b, sizeof(T)) == 0; }
template <class T> static std::string show(T v) { return std::to_string((long double) v); }
template <class A, class B> static bool conveq(A a, B e) { return biteq<B>((B) a, e); }
static bool conveq(float a, float e) { return (a != a) ? (e != e) : (a == e && std::signbit(a) == std::signbit(e)); }
static bool conveq(double a, double e) { return (a != a) ? (e != e) : (a == e && std::signbit(a) == std::signbit(e)); }
template <class U> static bool defd(double d) {
  if (std::is_same<U, bool>::value || std::is_floating_point<U>::value) return true;
  const double lo = (double) std::numeric_limits<U>::min(), hi = (double) std::numeric_limits<U>::max();
  if (sizeof(U) == 8) return d >= lo && d < hi;            /* (double) max rounds up to 2^63 / 2^64 */
  return d > lo - 1.0 && d < hi + 1.0;
}
template <class U, class T> static bool convdef(T v) { return std::is_floating_point<T>::value ? defd<U>((double) v) : true; }
template <class T> static std::vector<T> values() {
  std::vector<T> r;
  if (std::is_same<T, bool>::value) { r.push_back((T) 0); r.push_back((T) 1); return r; }
  r.push_back((T) 0); r.push_back((T) 1); r.push_back((T) 42);
  r.push_back(std::numeric_limits<T>::max()); r.push_back(std::numeric_limits<T>::lowest());
  if (std::is_floating_point<T>::value) {
    r.push_back((T) -0.0); r.push_back((T) 1.5); r.push_back((T) -2.5); r.push_back((T) 255.9); r.push_back((T) -0.9);
    r.push_back((T) 1e10); r.push_back(std::numeric_limits<T>::infinity()); r.push_back(std::numeric_limits<T>::quiet_NaN());
  } else r.push_back((T) -1);
  return r;
}
#define TRY(stmt, raised) do { raised = false; try { stmt; } catch (occa::exception &e_) { raised = true; } } while (0)

#define SCALAR(S, T, TAG, MEM, PUBLIC) \
static void scalar_##TAG(T v) { \
  const std::string in = #T " v = " + show(v); bool raised; \
  occaType o = occa::c::newOccaType<T>(v); occaType w = PUBLIC(v); \
  if (occaIsUndefined(o)) FAIL(S ": newOccaType<T>(v) is a defined occaType", in); \
  if (o.type != tt::TAG) FAIL(S ": newOccaType<T>(v) has T's type tag", in); \
  if (o.bytes != sizeof(T)) FAIL(S ": newOccaType<T>(v).bytes == sizeof(T)", in); \
  if (o.needsFree) FAIL(S ": newOccaType<T>(v).needsFree == false", in); \
  { T x; memcpy(&x, &o.value.MEM, sizeof(T)); if (!biteq(x, v)) FAIL(S ": newOccaType<T>(v) holds the value v", in); } \
  if (w.magicHeader != o.magicHeader || w.type != o.type || w.bytes != o.bytes || w.needsFree != o.needsFree || memcmp(&w.value.MEM, &v, sizeof(T))) \
    FAIL(S ": public constructor " #PUBLIC "(v) has T's tag, sizeof(T) bytes, needsFree false and the value v", in); \
  occa::primitive p; TRY(p = occa::c::primitive(o), raised); \
  if (raised) FAIL(S ": c::primitive(occaType) does not raise for a scalar occaType", in); \
  else { if (p.type != pt::TAG) FAIL(S ": c::primitive(newOccaType<T>(v)) has T's primitive tag", in); \
         if (p.type != pt::TAG || !biteq(p.value.TAG, v)) FAIL(S ": c::primitive(newOccaType<T>(v)) has the value v", in); } \
  occaType q; TRY(q = occa::c::newOccaType(occa::primitive(v)), raised); \
  if (raised) FAIL(S ": newOccaType(primitive) raises nothing", in); \
  else { if (occaIsUndefined(q) || q.type != tt::TAG) FAIL(S ": newOccaType(primitive p) has the tag of p", in); \
         else { if (memcmp(&q.value.MEM, &v, sizeof(T))) FAIL(S ": newOccaType(primitive p) has the value of p", in); \
                if (q.bytes != sizeof(T) || q.needsFree) FAIL(S ": newOccaType(primitive p) has sizeof(T) bytes and needsFree false", in); } } \
  occa::kernelArg a; TRY(a = occa::c::kernelArg(o), raised); \
  if (raised) FAIL(S ": c::kernelArg(occaType) does not raise for a scalar occaType", in); \
  else { if (a.args.size() != 1) FAIL(S ": the kernel argument is exactly one by-value entry", in); \
         else { if (a.args[0].value.type != pt::TAG) FAIL(S ": the kernel argument has T's primitive tag", in); \
                if (a.args[0].value.type != pt::TAG || !biteq(a.args[0].value.value.TAG, v)) FAIL(S ": the kernel argument has the value v", in); \
                if (a.args[0].ptrSize != 0 || a.args[0].modeMemory != NULL) FAIL(S ": the kernel argument is not a pointer or memory", in); } } \
  occa::json j; TRY(j = occa::c::inferJson(o), raised); \
  if (raised) FAIL(S ": inferJson(occaType) does not raise for a scalar occaType", in); \
  else { if (j.type != occa::json::number_) FAIL(S ": inferJson gives a JSON number", in); \
         if (j.value_.number.type != pt::TAG) FAIL(S ": the JSON number has T's primitive tag", in); \
         if (j.value_.number.type != pt::TAG || !biteq(j.value_.number.value.TAG, v)) FAIL(S ": the JSON number has the value v", in); } \
}

#define CONVERT(S, T, US, U, UTAG, UMEM) \
static void convert_##T##_##UTAG(T v) { \
  if (!convdef<U, T>(v)) return; \
  const std::string in = #T " v = " + show(v); bool raised; U e = (U) v; \
  occaType o = occa::c::newOccaType<T>(v); occa::primitive p(v), r; occaType q; \
  TRY((r = occa::c::primitive(o, tt::UTAG), q = occa::c::newOccaType(p, tt::UTAG)), raised); \
  if (raised) { FAIL(S "->" US ": c::primitive(o, U) and newOccaType(p, U) raise nothing for scalar tags", in); return; } \
  if (r.type != pt::UTAG) FAIL(S "->" US ": c::primitive(o, U) has U's primitive tag", in); \
  if (r.type != pt::UTAG || !conveq(r.value.UTAG, e)) FAIL(S "->" US ": c::primitive(o, U) equals the C conversion (U) v", in); \
  if (occaIsUndefined(q) || q.type != tt::UTAG) FAIL(S "->" US ": newOccaType(p, U) has U's type tag", in); \
  { U x; memcpy(&x, &q.value.UMEM, sizeof(U)); \
    if (q.type != tt::UTAG || !conveq(x, e) || q.bytes != sizeof(U) || q.needsFree) \
      FAIL(S "->" US ": newOccaType(p, U) equals the C conversion (U) v, sizeof(U) bytes, needsFree false", in); } \
}

#define AMBIG(NAME, PT, TAG) \
static void amb_##NAME(PT v) { \
  const std::string in = #PT " v = " + show(v); \
  occaType o = NAME(v); \
  if (occaIsUndefined(o) || o.type != tt::TAG) FAIL(#NAME "(v) has the tag of the fixed-width type of the same size and signedness", in); \
  if (o.bytes != sizeof(PT) || o.needsFree) FAIL(#NAME "(v).bytes == sizeof(T), needsFree false", in); \
  if (!(o.value.TAG == v) || !((PT) o.value.TAG == v)) FAIL(#NAME "(v) holds the value v", in); \
  bool raised; occa::primitive p; TRY(p = occa::c::primitive(o), raised); \
  if (raised || p.type != pt::TAG || !(p.value.TAG == v)) FAIL(#NAME "(v) reads back through c::primitive as v with the same type", in); \
}

@DEFS@

static bool scalar_tt(int t) { return @SCALAR_TT@; }
static bool scalar_pt(int t) { return @SCALAR_PT@; }
static void decisions() {
  const int ptags[] = { pt::none, pt::ptr, 0, -1, 12345, @PTAGS@ };
  for (int ot = -2; ot < 40; ++ot) {
    occaType o = occaInt8(1); o.type = ot; bool raised; const std::string in = "occaType.type = " + std::to_string(ot);
    occa::primitive p; TRY(p = occa::c::primitive(o), raised);
    if (raised != !scalar_tt(ot)) FAIL("decision: c::primitive(occaType) raises exactly for the non-scalar tags", in);
    for (int t = -2; t < 40; ++t) {
      TRY(p = occa::c::primitive(o, t), raised);
      if (raised != !(scalar_tt(ot) && scalar_tt(t))) FAIL("decision: c::primitive(occaType, type) raises exactly when a tag is not scalar", in + ", type = " + std::to_string(t));
    }
    if (ot != tt::memory && ot != tt::json) {           /* handle paths need live objects: not replayed */
      occa::kernelArg a; TRY(a = occa::c::kernelArg(o), raised);
      if (raised != !(scalar_tt(ot) || ot == tt::ptr || ot == tt::struct_ || ot == tt::string || ot == tt::null_))
        FAIL("decision: c::kernelArg raises exactly for undefined values and tags that are neither scalar, ptr, struct, string, memory nor null", in);
      else if (!raised && ((a.args.size() == 1 && a.args[0].ptrSize == 0 && !a.args[0].value.isPointer()) != scalar_tt(ot)))
        FAIL("decision: c::kernelArg passes exactly the scalars by value", in);
      occaType os = o; if (ot == tt::string) os.value.ptr = (char*) "s"; if (ot == tt::ptr) os.value.ptr = (char*) &os;
      occa::json j; TRY(j = occa::c::inferJson(os), raised);
      if (raised != !(scalar_tt(ot) || ot == tt::string || ot == tt::null_))
        FAIL("decision: inferJson raises exactly for tags that are neither scalar, string, json, null nor a NULL ptr", in);
      else if (!raised && ((j.type == occa::json::number_) != scalar_tt(ot)))
        FAIL("decision: inferJson makes a JSON number exactly of the scalars", in);
    }
  }
  for (unsigned i = 0; i < sizeof(ptags) / sizeof(ptags[0]); ++i) {
    occa::primitive p((int64_t) 1); p.type = ptags[i]; bool raised; occaType q;
    const std::string in = "primitive.type = " + std::to_string(ptags[i]);
    TRY(q = occa::c::newOccaType(p), raised);
    if (raised) FAIL("decision: newOccaType(primitive) never raises", in);
    else if (occaIsUndefined(q) != !scalar_pt(ptags[i])) FAIL("decision: newOccaType(primitive) is occaUndefined exactly for the non-arithmetic primitive tags", in);
    for (int t = -2; t < 40; ++t) {
      TRY(q = occa::c::newOccaType(p, t), raised);
      if (raised != (scalar_tt(t) && !scalar_pt(ptags[i]))) FAIL("decision: newOccaType(primitive, type) raises exactly for a scalar tag requested of a non-arithmetic primitive", in + ", type = " + std::to_string(t));
      else if (!raised && occaIsUndefined(q) != !scalar_tt(t)) FAIL("decision: newOccaType(primitive, type) is occaUndefined exactly for the non-scalar type tags", in + ", type = " + std::to_string(t));
    }
  }
}

int main() {
@CALLS@
  decisions();
  printf(fails.empty() ? "not reproduced\n" : "REPRODUCED %d failing checks\n", (int) fails.size());
  return fails.empty() ? 0 : 1;
}
'''


def program(extra=None):
    defs, calls = [], []
    for s, c, t, m in SC:
        defs.append('SCALAR("%s", %s, %s, %s, %s)' % (s, c, t, m, PUB[c]))
        calls.append('  { std::vector<%s> vs = values<%s>(); for (size_t i = 0; i < vs.size(); ++i) scalar_%s(vs[i]); }' % (c, c, t))
        for us, uc, ut, um in SC:
            defs.append('CONVERT("%s", %s, "%s", %s, %s, %s)' % (s, c, us, uc, ut, um))
            calls.append('  { std::vector<%s> vs = values<%s>(); for (size_t i = 0; i < vs.size(); ++i) convert_%s_%s(vs[i]); }' % (c, c, c, ut))
    for n, p, t in AMB:
        defs.append('AMBIG(%s, %s, %s)' % (n, p, t))
        calls.append('  { std::vector<%s> vs = values<%s>(); for (size_t i = 0; i < vs.size(); ++i) amb_%s(vs[i]); }' % (p, p, n))
    return (PROG.replace('@DEFS@', '\n'.join(defs)).replace('@CALLS@', '\n'.join(calls))
            .replace('@SCALAR_TT@', ' || '.join('t == tt::%s' % t for _, _, t, _ in SC))
            .replace('@SCALAR_PT@', ' || '.join('t == pt::%s' % t for _, _, t, _ in SC))
            .replace('@PTAGS@', ', '.join('pt::%s' % t for _, _, t, _ in SC)))


def run(ctx):
    cache = ctx.__dict__.setdefault('c29_native', None)
    if cache is None:
        prog = program()
        rc, out, src = replaylib.compile_run(ctx, 'replay_c29', prog, timeout=300)
        fails = {}
        for m in re.finditer(r'FAILS: (.*?)   \[input (.*)\]', out):
            fails[m.group(1)] = m.group(2)
        cache = ctx.__dict__['c29_native'] = (rc, out, fails, prog)
    return cache


def replay(ctx, g, o, inputs):
    rc, out, fails, prog = run(ctx)
    p = replaylib.keep_replay_source(ctx, g, prog)
    hit = o.desc in fails
    return {'reproduced': hit, 'input': fails.get(o.desc), 'program': p,
            'how': 'the same check evaluated natively through occa/internal/c/types.hpp and the public C API against the '
                   'freshly built libocca, on fixed extreme values of every scalar type and every tag',
            'failing_checks': sorted(fails)[:60], 'output_tail': out[-300:]}
