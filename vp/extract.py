"""Mechanical extraction of function definitions from /repo and the must-fire
rewrite rules (DESIGN 4.1, 4.2).  Every miss raises Undecided (exit 2)."""
import re

from .core import Extracted, Undecided, sha


def _skip_literal(s, i):
    """s[i] is ' or ": return index after the closing quote."""
    q = s[i]
    i += 1
    while i < len(s):
        if s[i] == '\\':
            i += 2
            continue
        if s[i] == q:
            return i + 1
        i += 1
    return i


def match_brace(s, i, open_c='{', close_c='}'):
    """s[i] == open_c; returns index of the matching close_c (comments and
    literals skipped)."""
    assert s[i] == open_c
    depth = 0
    n = len(s)
    while i < n:
        c = s[i]
        if c == '/' and s.startswith('//', i):
            j = s.find('\n', i)
            i = n if j < 0 else j
            continue
        if c == '/' and s.startswith('/*', i):
            j = s.find('*/', i)
            i = n if j < 0 else j + 2
            continue
        if c in '"\'':
            i = _skip_literal(s, i)
            continue
        if c == open_c:
            depth += 1
        elif c == close_c:
            depth -= 1
            if depth == 0:
                return i
        i += 1
    raise Undecided('extraction break: unbalanced %s' % open_c)


def extract_function(ctx, rel, sig_regex, name=None, which=None):
    """Find the unique definition whose opening matches sig_regex (a regex
    matched against the text; must end before the opening brace or include it).
    Returns Extracted with text = signature + body, verbatim."""
    src = ctx.read(rel)
    ms = list(re.finditer(sig_regex, src, re.M))
    # keep only matches followed (after optional initialiser list) by '{' before any ';'
    defs = []
    for m in ms:
        j = m.end()
        if m.group(0).rstrip().endswith('{'):
            k = m.end() - 1
            while src[k] != '{':
                k -= 1
        else:
            k = j
            while k < len(src) and src[k] not in '{;':
                if src[k] == '(':
                    k = match_brace(src, k, '(', ')')
                k += 1
            if k >= len(src) or src[k] == ';':
                continue
        defs.append((m.start(), k))
    if which is not None:
        if which >= len(defs):
            raise Undecided('extraction break: %s: only %d definitions match /%s/ (wanted #%d)'
                            % (rel, len(defs), sig_regex, which))
        defs = [defs[which]]
    if len(defs) != 1:
        raise Undecided('extraction break: %s: %d definitions match /%s/ (need exactly 1)'
                        % (rel, len(defs), sig_regex))
    a, k = defs[0]
    e = match_brace(src, k)
    text = src[a:e + 1]
    line0 = src.count('\n', 0, a) + 1
    line1 = src.count('\n', 0, e) + 1
    return Extracted(name=name or sig_regex, file=rel, line0=line0, line1=line1,
                     sha256=sha(text), text=text)


def extract_block(ctx, rel, start_regex, name=None, open_c='{', close_c='}'):
    """Extract from the match of start_regex to the brace matching the first
    open brace at or after the match end - 1."""
    src = ctx.read(rel)
    ms = list(re.finditer(start_regex, src, re.M))
    if len(ms) != 1:
        raise Undecided('extraction break: %s: %d matches of /%s/ (need exactly 1)'
                        % (rel, len(ms), start_regex))
    m = ms[0]
    k = src.find(open_c, m.end() - 1)
    if k < 0:
        raise Undecided('extraction break: no %s after /%s/' % (open_c, start_regex))
    e = match_brace(src, k, open_c, close_c)
    text = src[m.start():e + 1]
    return Extracted(name=name or start_regex, file=rel,
                     line0=src.count('\n', 0, m.start()) + 1,
                     line1=src.count('\n', 0, e) + 1, sha256=sha(text), text=text)


def extract_span(ctx, rel, start_regex, end_regex, name=None):
    """Verbatim text from the unique match of start_regex to the first match of
    end_regex after it (inclusive)."""
    src = ctx.read(rel)
    ms = list(re.finditer(start_regex, src, re.M))
    if len(ms) != 1:
        raise Undecided('extraction break: %s: %d matches of /%s/ (need exactly 1)'
                        % (rel, len(ms), start_regex))
    m = ms[0]
    m2 = re.compile(end_regex, re.M).search(src, m.end())
    if not m2:
        raise Undecided('extraction break: %s: no /%s/ after /%s/' % (rel, end_regex, start_regex))
    text = src[m.start():m2.end()]
    return Extracted(name=name or start_regex, file=rel,
                     line0=src.count('\n', 0, m.start()) + 1,
                     line1=src.count('\n', 0, m2.end()) + 1, sha256=sha(text), text=text)


def body_of(ex):
    """Text of the outermost braces of an extracted function (with braces)."""
    k = ex.text.find('{')
    # skip ctor-initialiser braces? (not used in targets)
    return ex.text[k:]


def rewrite(ex, rules):
    """rules: list of (description, regex, replacement, expected_count).
    expected_count: int, or None for 'at least once', or '*' for any (optional
    rule, count recorded).  Returns new text; records fired counts on ex."""
    text = ex.text
    for desc, rx, rep, cnt in rules:
        text, n = re.subn(rx, rep, text, flags=re.M | re.S)
        if cnt == '*':
            pass
        elif cnt is None:
            if n < 1:
                raise Undecided('rewrite rule "%s" did not fire on %s' % (desc, ex.name))
        elif n != cnt:
            raise Undecided('rewrite rule "%s" fired %d times on %s, expected %d'
                            % (desc, n, ex.name, cnt))
        ex.rules.append((desc, n))
    return text


def insert_loop_contracts(text, contracts, fname):
    """Insert contract text after the header of the n-th loop (0-based, in
    source order, counting `for` and `while` keywords; do-while not supported)
    of a C function.  contracts: {ordinal: 'contract text'}.  Every ordinal
    must exist; loops without an entry are left alone."""
    loops = []
    i = 0
    n = len(text)
    while i < n:
        c = text[i]
        if c == '/' and text.startswith('//', i):
            j = text.find('\n', i)
            i = n if j < 0 else j
            continue
        if c == '/' and text.startswith('/*', i):
            j = text.find('*/', i)
            i = n if j < 0 else j + 2
            continue
        if c in '"\'':
            i = _skip_literal(text, i)
            continue
        m = re.compile(r'\b(for|while)\s*\(').match(text, i)
        if m and (i == 0 or not (text[i - 1].isalnum() or text[i - 1] == '_')):
            k = m.end() - 1
            e = match_brace(text, k, '(', ')')
            # `while (...) ;` closing a do-while is not a loop header
            rest = text[e + 1:].lstrip()
            if m.group(1) == 'while' and rest.startswith(';') and _is_do_while_tail(text, i):
                i = e + 1
                continue
            loops.append(e + 1)
            i = m.end()
            continue
        i += 1
    for o in contracts:
        if o >= len(loops):
            raise Undecided('loop contract ordinal %d missing in %s (found %d loops)'
                            % (o, fname, len(loops)))
    out = text
    for o in sorted(contracts, reverse=True):
        p = loops[o]
        out = out[:p] + '\n' + contracts[o] + '\n' + out[p:]
    return out, len(loops)


def _is_do_while_tail(text, i):
    j = i - 1
    while j >= 0 and text[j].isspace():
        j -= 1
    return j >= 0 and text[j] == '}'


def extract_local_helpers(ctx, rel):
    """File-local helpers a refactor may introduce next to the functions under contract: anonymous
    namespaces and file-scope `static` functions of the given source file, verbatim (so that a helper
    factored out of an extracted function stays part of the verified text instead of breaking the
    extraction).  Returns [Extracted]."""
    src = ctx.read(rel)
    out = []
    for m in re.finditer(r'^[ \t]*namespace[ \t]*\{', src, re.M):
        k = src.find('{', m.start())
        e = match_brace(src, k)
        text = src[m.start():e + 1]
        out.append(Extracted(name='anonymous namespace in ' + rel, file=rel, line0=src.count('\n', 0, m.start()) + 1,
                             line1=src.count('\n', 0, e) + 1, sha256=sha(text), text=text))
    for m in re.finditer(r'^[ \t]*static[ \t]+(?:inline[ \t]+)?[\w:<>\*&, \t]+?\b(\w+)[ \t]*\([^;{}]*\)[ \t\n]*\{', src, re.M):
        if any(o.line0 <= src.count('\n', 0, m.start()) + 1 <= o.line1 for o in out):
            continue
        k = src.find('{', m.end() - 1)
        e = match_brace(src, k)
        text = src[m.start():e + 1]
        out.append(Extracted(name='static ' + m.group(1) + ' in ' + rel, file=rel, line0=src.count('\n', 0, m.start()) + 1,
                             line1=src.count('\n', 0, e) + 1, sha256=sha(text), text=text))
    return out
