"""Native replay for C12.

CBMC's counterexamples for the scanner groups live in an is_fresh object whose
bytes are not listed in the trace, so the replay does not try to decode them:
for the group of the failed obligation it runs the REAL function (the source
file of the tree under test, compiled with AddressSanitizer and linked in front
of the freshly built libocca) on every string over a small alphabet chosen for
that function (delimiter, escape, backslash, newline, NUL-adjacent positions
...) up to length 4-6, from every cursor position, in exactly-sized heap
buffers, with a watchdog for non-termination, and evaluates the contract's
postcondition natively.  `reproduced` is true when ASan reports, the watchdog
fires, or a postcondition fails; the first few failing inputs are recorded.
"""
import os
import re

from . import replaylib
from .core import REPO

_cache = {}

COMMON = r'''
#include <cstdio>
#include <cstdlib>
#include <cstring>
#include <string>
#include <vector>
#include <signal.h>
#include <unistd.h>
static std::string current_case;
static const char *current_fn = "";
#define FN(name) (current_fn = name)
static int bad = 0;
static std::string show(const std::string &s) {
  std::string r;
  char b[8];
  for (unsigned char ch : s) {
    if (ch == '\\') r += "\\\\"; else if (ch == '\n') r += "\\n"; else if (ch == '"') r += "\\\"";
    else if (ch >= 32 && ch < 127) r += (char) ch; else { snprintf(b, sizeof b, "\\x%02x", ch); r += b; }
  }
  return "\"" + r + "\"";
}
static void on_alarm(int) {
  printf("FAILS: %s: does not terminate: %s\n", current_fn, current_case.c_str());
  fflush(stdout);
  _exit(3);
}
#define CHECK(c, what) do { if (!(c)) { if (bad < 12) { printf("FAILS: %s: %s\n", what, current_case.c_str()); fflush(stdout); } ++bad; } } while (0)
/* all strings over `alpha` with length <= maxlen */
static void strings(const std::string &alpha, int maxlen, std::vector<std::string> &out) {
  out.push_back("");
  size_t from = 0;
  for (int l = 1; l <= maxlen; ++l) {
    size_t to = out.size();
    for (size_t i = from; i < to; ++i) for (char ch : alpha) out.push_back(out[i] + ch);
    from = to;
  }
}
/* exactly-sized heap copy (so that ASan sees a read one past the NUL) */
static char* heap(const std::string &s) {
  char *b = (char*) malloc(s.size() + 1);
  memcpy(b, s.c_str(), s.size() + 1);
  return b;
}
'''

LEX_PROG = COMMON + r'''
#include <occa/internal/utils/lex.hpp>
using namespace occa;
static bool in(const char *set, char ch) { return ch && strchr(set, ch); }
int main() {
  signal(SIGALRM, on_alarm); alarm(60);
  std::vector<std::string> S; strings(std::string("d.e a"), 5, S);
  const char *sets[] = {"", "d", "de", " \t\r\n\v\f"};
  for (const std::string &s : S) for (size_t pos = 0; pos <= s.size(); ++pos) {
    char *b = heap(s); const char *end = b + s.size(), *c;
    current_case = "buffer " + show(s) + " cursor at " + std::to_string(pos);
    c = b + pos; FN("lex::skipTo(c, delimiter)"); lex::skipTo(c, 'd');
    CHECK(b + pos <= c && c <= end, "lex::skipTo(c, delimiter): cursor stays inside the buffer");
    CHECK(c > end || *c == 0 || *c == 'd', "lex::skipTo(c, delimiter): stops at NUL or at the delimiter");
    for (const char *q = b + pos; q < c && q < end; ++q) CHECK(*q != 'd', "lex::skipTo(c, delimiter): stops at the FIRST delimiter");
    c = b + pos; FN("lex::skipTo(c, delimiter, escapeChar)"); lex::skipTo(c, 'd', '.');
    CHECK(b + pos <= c && c <= end, "lex::skipTo(c, delimiter, escapeChar): cursor stays inside the buffer");
    CHECK(c > end || *c == 0 || *c == 'd', "lex::skipTo(c, delimiter, escapeChar): stops at NUL or at the delimiter");
    for (const char *q = b + pos; q < c && q < end; ++q)
      CHECK(*q != 'd' || (q > b + pos && q[-1] == '.'), "lex::skipTo(c, delimiter, escapeChar): a delimiter passed over follows the escape character");
    c = b + pos; FN("lex::skipTo(c, delimiter, 0)"); lex::skipTo(c, 'd', (char) 0);
    CHECK(b + pos <= c && c <= end && (c > end || *c == 0 || *c == 'd'), "lex::skipTo(c, delimiter, 0)");
    for (const char *set : sets) {
      c = b + pos; FN("lex::skipTo(c, delimiters)"); lex::skipTo(c, set);
      CHECK(b + pos <= c && c <= end, "lex::skipTo(c, delimiters): cursor stays inside the buffer");
      CHECK(c > end || *c == 0 || in(set, *c), "lex::skipTo(c, delimiters): stops at NUL or at a character of the set");
      for (const char *q = b + pos; q < c && q < end; ++q) CHECK(!in(set, *q), "lex::skipTo(c, delimiters): stops at the FIRST character of the set");
      c = b + pos; FN("lex::skipTo(c, delimiters, escapeChar)"); lex::skipTo(c, set, '.');
      CHECK(b + pos <= c && c <= end, "lex::skipTo(c, delimiters, escapeChar): cursor stays inside the buffer");
      CHECK(c > end || *c == 0 || in(set, *c), "lex::skipTo(c, delimiters, escapeChar): stops at NUL or at a character of the set");
      c = b + pos; FN("lex::skipFrom"); lex::skipFrom(c, set);
      CHECK(b + pos <= c && c <= end, "lex::skipFrom: cursor stays inside the buffer");
      CHECK(c > end || *c == 0 || !in(set, *c), "lex::skipFrom: stops at NUL or at a character outside the set");
      for (const char *q = b + pos; q < c && q < end; ++q) CHECK(in(set, *q), "lex::skipFrom: passes over characters of the set only");
      FN("lex::inCharset"); for (char ch : std::string("d.e a\n")) CHECK(lex::inCharset(ch, set) == in(set, ch), "lex::inCharset == membership");
      CHECK(!lex::inCharset((char) 0, set), "lex::inCharset(0, set) is false");
    }
    c = b + pos; FN("lex::skipWhitespace"); lex::skipWhitespace(c);
    CHECK(b + pos <= c && c <= end && (c > end || *c == 0 || !in(" \t\r\n\v\f", *c)), "lex::skipWhitespace: inside the buffer, stops at NUL or non-whitespace");
    c = b + pos; FN("lex::skipToWhitespace"); lex::skipToWhitespace(c);
    CHECK(b + pos <= c && c <= end && (c > end || *c == 0 || in(" \t\r\n\v\f", *c)), "lex::skipToWhitespace: inside the buffer, stops at NUL or whitespace");
    free(b);
  }
  for (int ch = -128; ch < 128; ++ch)
    CHECK(lex::isWhitespace((char) ch) == (ch == ' ' || ch == '\t' || ch == '\r' || ch == '\n' || ch == '\v' || ch == '\f'), "lex::isWhitespace == the six whitespace characters");
  printf(bad ? "REPRODUCED (%d failing cases)\n" : "not reproduced\n", bad);
  return bad ? 1 : 0;
}
'''

TOK_PROG = COMMON + r'''
#include <occa/internal/lang/tokenizer.hpp>
using namespace occa;
using namespace occa::lang;
static bool in(const char *set, char ch) { return ch && strchr(set, ch); }
int main() {
  signal(SIGALRM, on_alarm); alarm(120);
  tokenizer_t tok("x");
  std::vector<std::string> S; strings(std::string("\\\n\"a"), 5, S);
  const char *sets[] = {"\"\n", "a", "\\a"};
  for (const std::string &s : S) for (size_t pos = 0; pos <= s.size(); ++pos) {
    char *b = heap(s); const char *end = b + s.size();
    current_case = "buffer " + show(s) + " cursor at " + std::to_string(pos);
#define RESET() do { tok.fp.start = b + pos; tok.fp.lineStart = b; tok.fp.line = 1; } while (0)
#define INSIDE(what) do { \
      CHECK(b + pos <= tok.fp.start && tok.fp.start <= end, what ": cursor stays inside the buffer"); \
      CHECK(b <= tok.fp.lineStart && tok.fp.lineStart <= end, what ": line start stays inside the buffer"); } while (0)
    const char ds[] = {'"', '\n', 'a'};
    for (char d : ds) {
      RESET(); FN("tokenizer_t::skipTo(char)"); tok.skipTo(d); INSIDE("tokenizer_t::skipTo(char)");
      CHECK(tok.fp.start > end || *tok.fp.start == 0 || *tok.fp.start == d, "tokenizer_t::skipTo(char): stops at NUL or at the delimiter");
      for (const char *q = b + pos; q < tok.fp.start && q < end; ++q)
        CHECK(*q != d || (q > b + pos && q[-1] == '\\'), "tokenizer_t::skipTo(char): a delimiter passed over follows a backslash");
    }
    for (const char *set : sets) {
      RESET(); FN("tokenizer_t::skipTo(const char*)"); tok.skipTo(set); INSIDE("tokenizer_t::skipTo(const char*)");
      CHECK(tok.fp.start > end || *tok.fp.start == 0 || in(set, *tok.fp.start), "tokenizer_t::skipTo(const char*): stops at NUL or at a character of the set");
      RESET(); FN("tokenizer_t::skipFrom"); tok.skipFrom(set); INSIDE("tokenizer_t::skipFrom");
      CHECK(tok.fp.start > end || *tok.fp.start == 0 || (!in(set, *tok.fp.start) && *tok.fp.start != '\\'), "tokenizer_t::skipFrom: stops at NUL or outside the set");
      for (const char *q = b + pos; q < tok.fp.start && q < end; ++q)
        CHECK(in(set, *q) || *q == '\\' || (q > b + pos && q[-1] == '\\'), "tokenizer_t::skipFrom: passes over set characters and backslash pairs only");
    }
    /* countSkippedLines over the span [pos, e) for every e >= pos */
    for (size_t e = pos; e <= s.size(); ++e) {
      current_case = "buffer " + show(s) + " token span [" + std::to_string(pos) + ", " + std::to_string(e) + ")";
      RESET(); tok.push(); tok.fp.start = b + e;
      FN("countSkippedLines"); tok.countSkippedLines();
      CHECK(tok.fp.start == b + e, "countSkippedLines: the cursor is not moved");
      CHECK(b <= tok.fp.lineStart && tok.fp.lineStart <= end, "countSkippedLines: line start stays inside the buffer");
      tok.pop();
    }
    free(b);
  }
  /* getRawString: R"delim( ... )delim" */
  std::vector<std::string> R; strings(std::string("\"()d\n"), 6, R);
  for (const std::string &s : R) {
    if (s.empty() || s[0] != '"') continue;
    char *b = heap(s); const char *end = b + s.size(); size_t pos = 0;
    current_case = "buffer " + show(s) + " (getRawString)";
    RESET(); std::string value; FN("tokenizer_t::getRawString"); tok.getRawString(value);
    INSIDE("tokenizer_t::getRawString");
    while (tok.stack.size()) tok.pop();
    free(b);
  }
  /* getRawString finds the end pattern and stops right after it */
  {
    const char *in[][2] = {{"\"(a)\"", "a"}, {"\"d(a)d\"", "a"}, {"\"d(a)d\" x", "a"}, {"\"(a)x)\"", "a)x"}, {"\"dd(a)d)dd\"y", "a)d"}};
    for (auto &c : in) {
      std::string s = c[0]; char *b = heap(s); const char *end = b + s.size(); size_t pos = 0;
      current_case = "buffer " + show(s) + " (getRawString, expected value " + show(c[1]) + ")";
      RESET(); std::string value; FN("tokenizer_t::getRawString"); tok.getRawString(value);
      CHECK(value == c[1], "tokenizer_t::getRawString: finds the end pattern )delim\"");
      size_t consumed = 1 + (strchr(c[0] + 1, '(') - (c[0] + 1)) + 1 + strlen(c[1]) + 1 + (strchr(c[0] + 1, '(') - (c[0] + 1)) + 1;
      CHECK(tok.fp.start == b + consumed, "tokenizer_t::getRawString: the cursor stops right after the end pattern");
      while (tok.stack.size()) tok.pop();
      free(b);
    }
  }
  printf(bad ? "REPRODUCED (%d failing cases)\n" : "not reproduced\n", bad);
  return bad ? 1 : 0;
}
'''

PRIM_PROG = COMMON + r'''
#include <occa/types/primitive.hpp>
#include <cctype>
using namespace occa;
int main() {
  signal(SIGALRM, on_alarm); alarm(120);
  std::vector<std::string> S; strings(std::string("01xbe+-. fLut"), 4, S);
  const char *extra[] = {"true", "false", "tru", "fals", "truefalse", "0x", "0b", "0xFFl", "0b101u", "1e", "1e+", "1e+ ", "1e+ 5", "1e5f",
                         "1.5e-3", "-", "+", "- 1", "0", "00", "0.", ".5", "1ll", "1lu", "1ul", "0xg", "0b2", "1e1e1e1",
                         "G", "FG", "fg", "aG1", "9:", "/0", "@A", "`a", "2", "12", "102", "true1", "falsex"};
  for (const char *e : extra) S.push_back(e);
  for (const std::string &s : S) for (size_t pos = 0; pos <= s.size(); ++pos) {
    char *b = heap(s); const char *end = b + s.size(), *c;
    current_case = "buffer " + show(s) + " cursor at " + std::to_string(pos);
    for (int sign = 0; sign < 2; ++sign) {
      c = b + pos; FN("primitive::load:"); primitive p = primitive::load(c, sign);
      CHECK(b + pos <= c && c <= end, "primitive::load: cursor stays inside the buffer and does not move backwards");
    }
    for (int neg = 0; neg < 2; ++neg) {
      c = b + pos; FN("primitive::loadHex"); primitive p = primitive::loadHex(c, neg);
      CHECK(b + pos <= c && c <= end, "primitive::loadHex: cursor stays inside the buffer and does not move backwards");
      CHECK(c > end || !isxdigit((unsigned char) *c), "primitive::loadHex: stops at the first non-hex character");
      for (const char *q = b + pos; q < c && q < end; ++q) CHECK(isxdigit((unsigned char) *q), "primitive::loadHex: passes over hex digits only");
      CHECK(((p.type & primitiveType::none) != 0) == (c == b + pos), "primitive::loadHex: none iff nothing consumed");
      c = b + pos; FN("primitive::loadBinary"); p = primitive::loadBinary(c, neg);
      CHECK(b + pos <= c && c <= end, "primitive::loadBinary: cursor stays inside the buffer and does not move backwards");
      CHECK(c > end || (*c != '0' && *c != '1'), "primitive::loadBinary: stops at the first non-binary character");
      for (const char *q = b + pos; q < c && q < end; ++q) CHECK(*q == '0' || *q == '1', "primitive::loadBinary: passes over binary digits only");
      CHECK(((p.type & primitiveType::none) != 0) == (c == b + pos), "primitive::loadBinary: none iff nothing consumed");
    }
    free(b);
  }
  printf(bad ? "REPRODUCED (%d failing cases)\n" : "not reproduced\n", bad);
  return bad ? 1 : 0;
}
'''

ESC_PROG = COMMON + r'''
#include <occa/internal/utils/string.hpp>
using namespace occa;
static bool well_formed(const std::string &raw, char q, char e) {
  size_t i = 0;
  while (i < raw.size()) {
    if (raw[i] == e) { if (i + 1 >= raw.size()) return false; i += 2; }
    else if (raw[i] == q) return false;
    else ++i;
  }
  return true;
}
int main() {
  signal(SIGALRM, on_alarm); alarm(120);
  const char q = '"', e = '\\';
  std::vector<std::string> S; strings(std::string("\"\\a"), 5, S);
  for (const std::string &s : S) {
    current_case = "s = " + show(s);
    std::string r = escape(s, q, e);
    current_case = "s = " + show(s) + " escape(s) = " + show(r);
    CHECK(unescape(r, q, e) == s, "unescape(escape(s, q, e), q, e) == s");
    for (size_t j = 0; j < r.size(); ++j)
      if (r[j] == q) CHECK(j >= 1 && r[j - 1] == e, "every quote in escape(s, q, e) is preceded by the escape character");
    if (well_formed(s, q, e)) {
      std::string v = unescape(s, q, e), p = escape(v, q, e);
      current_case = "literal body " + show(s) + " value " + show(v) + " printed " + show(p);
      CHECK(p == s, "escape(unescape(body, q, e), q, e) == body for every well-formed literal body");
      CHECK(well_formed(p, q, e), "the printed literal body is scanned to its end by the tokenizer");
    }
  }
  printf(bad ? "REPRODUCED (%d failing cases)\n" : "not reproduced\n", bad);
  return bad ? 1 : 0;
}
'''


def _run(ctx, g, key, prog, sources, args=()):
    if key in _cache:
        return _cache[key]
    extra = [os.path.join(REPO, s) for s in sources]
    try:
        rc, out, src = replaylib.compile_run(
            ctx, 'replay_' + key, prog, extra_sources=extra,
            flags=['-fsanitize=address', '-fno-omit-frame-pointer'], args=list(args), timeout=300)
    except Exception as e:      # build problems never hide the violation
        _cache[key] = {'error': repr(e)[:600]}
        return _cache[key]
    _cache[key] = {'rc': rc, 'out': out, 'program': replaylib.keep_replay_source(ctx, g, prog)}
    return _cache[key]


def _verdict(r, o, how, hints):
    if 'error' in r:
        return {'reproduced': False, 'error': r['error'], 'how': how}
    out = r['out']
    fails = sorted(set(re.findall(r'FAILS: (.*)', out)))
    asan = 'AddressSanitizer' in out
    # failures that belong to the function of the failed obligation
    mine = [f for f in fails if any(h in f for h in hints)] if hints else fails
    asan_mine = asan and (not hints or any(h.split('::')[-1].split('(')[0] in out for h in hints))
    m = re.search(r'ERROR: AddressSanitizer: ([^\n]*)(?:\n[^\n]*){0,6}', out)
    return {'reproduced': bool(mine) or asan_mine, 'failing_checks': mine[:12], 'other_failing_checks': [f for f in fails if f not in mine][:6],
            'address_sanitizer': m.group(0)[:700] if m else None, 'program': r.get('program'), 'how': how,
            'output_tail': out[-500:]}


def replay_lex(ctx, g, o, inputs):
    r = _run(ctx, g, 'lex', LEX_PROG, ['src/occa/internal/utils/lex.cpp'])
    fn = g.name.split('/')[1]
    hints = {'inCharset': ['lex::inCharset'], 'skipTo_c': ['lex::skipTo(c, delimiter)'],
             'skipTo_ce': ['lex::skipTo(c, delimiter, escapeChar)', 'lex::skipTo(c, delimiter, 0)'],
             'skipTo_s': ['lex::skipTo(c, delimiters)'], 'skipTo_se': ['lex::skipTo(c, delimiters, escapeChar)'],
             'skipFrom': ['lex::skipFrom'], 'isWhitespace': ['lex::isWhitespace'],
             'skipWhitespace': ['lex::skipWhitespace'], 'skipToWhitespace': ['lex::skipToWhitespace'],
             'whitespace-table': ['lex::isWhitespace']}.get(fn, [])
    return _verdict(r, o, 'real src/occa/internal/utils/lex.cpp under AddressSanitizer, all strings over {d . e a space} up to '
                    'length 5, every cursor position, exactly-sized heap buffers, 60 s watchdog', hints)


def replay_tokenizer(ctx, g, o, inputs):
    r = _run(ctx, g, 'tokenizer', TOK_PROG, ['src/occa/internal/lang/tokenizer.cpp'])
    fn = g.name.split('/')[1]
    hints = {'skipTo_c': ['tokenizer_t::skipTo(char)'], 'skipTo_s': ['tokenizer_t::skipTo(const char*)'],
             'skipFrom': ['tokenizer_t::skipFrom'], 'countSkippedLines_loop': ['countSkippedLines'],
             'getRawString_endloop': ['tokenizer_t::getRawString', 'getRawString']}.get(fn, [])
    return _verdict(r, o, 'real src/occa/internal/lang/tokenizer.cpp under AddressSanitizer (linked in front of libocca), public '
                    'members of tokenizer_t driven directly, all strings over {backslash newline quote a} up to length 5, '
                    'every cursor position / token span, exactly-sized heap buffers, 120 s watchdog', hints)


def replay_primitive(ctx, g, o, inputs):
    r = _run(ctx, g, 'primitive', PRIM_PROG, ['src/types/primitive.cpp'])
    fn = g.name.split('/')[1]
    hints = {'load': ['primitive::load:'], 'loadHex': ['primitive::loadHex'], 'loadBinary': ['primitive::loadBinary']}.get(fn, [])
    return _verdict(r, o, 'real src/types/primitive.cpp under AddressSanitizer, all strings over {0 1 x b e + - . space f L u t} up to '
                    'length 4 plus fixed edge cases, every cursor position, exactly-sized heap buffers', hints)


def replay_escape(ctx, g, o, inputs):
    r = _run(ctx, g, 'escape', ESC_PROG, ['src/occa/internal/utils/string.cpp'])
    hints = [o.desc] if o.desc else []
    return _verdict(r, o, 'real src/occa/internal/utils/string.cpp under AddressSanitizer, every string over {quote backslash a} up '
                    'to length 5 with q = quote, e = backslash', hints)


SCANSTEP_PROG = COMMON + r"""
#include <occa/internal/lang/tokenizer.hpp>
#include <occa/internal/lang/token.hpp>
using namespace occa;
using namespace occa::lang;
/* unterminated literals / headers at the end of the buffer, scanned in place (tokenizer_t(const char *root)) */
int main(int argc, char **argv) {
  signal(SIGALRM, on_alarm); alarm(120);
  std::string site = argc > 1 ? argv[1] : "";
  std::vector<const char*> inputs;
  if (site == "getString") inputs = {"\"abc", "x = \"abc", "\"", "\"a\\"};
  if (site == "getRawString") inputs = {"R\"abc", "R\"", "u8R\"d"};
  if (site == "getCharToken") inputs = {"'a", "L'", "'", "'\\"};
  if (site == "getHeader") inputs = {"<abc", "<"};
  for (const char *s : inputs) {
    char *b = heap(s);
    current_case = std::string(site == "getHeader" ? "getHeader() on " : "tokenizing ") + show(s) + " in a buffer of exactly " + std::to_string(strlen(s) + 1) + " bytes";
    printf("%s\n", current_case.c_str()); fflush(stdout);
    tokenizer_t tok(b);
    if (site == "getHeader") {
      FN("tokenizer_t::getHeader");
      std::string h = tok.getHeader();
      /* the cursor is past the end already; the next read is what AddressSanitizer sees */
      CHECK(b <= tok.fp.start && tok.fp.start <= b + strlen(s), "tokenizer_t::getHeader: cursor stays inside the buffer");
    } else {
      FN("tokenizer_t::getToken");
      int n = 0; token_t *t;
      while ((t = tok.getToken()) != NULL && n < 100) ++n;
      CHECK(b <= tok.fp.start && tok.fp.start <= b + strlen(s), "tokenizer_t::getToken: cursor stays inside the buffer");
    }
  }
  printf(bad ? "REPRODUCED (%d failing cases)\n" : "not reproduced\n", bad);
  return bad ? 1 : 0;
}
"""


def replay_scanstep(ctx, g, o, inputs):
    site = g.name.split('/')[-1]
    r = _run(ctx, g, 'scanstep_' + site, SCANSTEP_PROG, ['src/occa/internal/lang/tokenizer.cpp'], args=[site])
    return _verdict(r, o, 'real src/occa/internal/lang/tokenizer.cpp under AddressSanitizer: unterminated literal / <header of the '
                    'kind ' + site + ' handles, at the end of an exactly-sized heap buffer, tokenized in place through the public '
                    'tokenizer_t(const char*) / getToken() / getHeader()', [])
