"""Native replay for C10.  A real OKL kernel f(const int n, float *x, const double *y) is built on a Serial
device; argument lists drawn from {int scalar, float/double/int/float2 memory, occa::null} are pushed and the real
modeKernel_t::setupRun() is called (the decision only: the kernel is not launched, so a wrongly accepted
list cannot crash the replay).  The expected decision is the property's sentence with the real
dtype_t::canBeCastedTo as the cast oracle.  The cast-rule safety obligations are replayed by calling
canBeCastedTo / running a kernel with a dtype that flattens to zero entries under a SIGFPE handler."""
import re

from . import replaylib

PROG = r'''
#include <occa.hpp>
#include <occa/internal/core/kernel.hpp>
#include <occa/internal/core/memory.hpp>
#include <cstdio>
#include <csignal>
#include <csetjmp>
#include <set>
#include <string>
#include <vector>
static sigjmp_buf jb;
static void onfpe(int) { siglongjmp(jb, 1); }
static std::set<std::string> fails;
static void FAIL(const std::string &what, const std::string &in) { if (fails.insert(what).second) printf("FAILS: %s   [input %s]\n", what.c_str(), in.c_str()); }

struct cand { const char *name; occa::kernelArg arg; bool isMem; bool isNull; occa::dtype_t dt; };

int main() {
  signal(SIGFPE, onfpe);
  /* ---- cast rule safety ---- */
  occa::dtype_t t0 = occa::dtype_t::tuple(occa::dtype::int_, 0, true);
  if (sigsetjmp(jb, 1) == 0) { bool r = occa::dtype::int_.canBeCastedTo(t0); printf("int.canBeCastedTo(int[0]) = %d\n", (int) r); }
  else FAIL("division by zero in size % cycleLength", "occa::dtype::int_.canBeCastedTo(occa::dtype_t::tuple(occa::dtype::int_, 0)) -> SIGFPE");
  if (sigsetjmp(jb, 1) == 0) { bool r = t0.canBeCastedTo(occa::dtype::int_); printf("int[0].canBeCastedTo(int) = %d\n", (int) r); }
  else FAIL("division by zero in size % cycleLength", "tuple(int,0).canBeCastedTo(int) -> SIGFPE");

  occa::device dev(std::string("{mode: 'Serial'}"));
  const char *src = "@kernel void f(const int n, float *x, const double *y) {"
                    " for (int i = 0; i < 1; ++i; @outer) { for (int j = 0; j < 1; ++j; @inner) { x[0] = n + y[0]; } } }";
  /* twice: the second build is loaded from the cache (metadata read back from build.json) */
  for (int pass = 0; pass < 2; ++pass) {
    occa::kernel k = dev.buildKernelFromString(src, "f");
    occa::modeKernel_t *mk = k.getModeKernel();
    const bool paramIsPtr[3] = { false, true, true };
    const occa::dtype_t paramDtype[3] = { occa::dtype::int_, occa::dtype::float_, occa::dtype::double_ };
    occa::memory mf = dev.malloc<float>(4), md = dev.malloc<double>(4), mi = dev.malloc<int>(4), mf2 = dev.malloc(4, occa::dtype::float2);
    occa::memory mb = dev.malloc(16);   /* dtype byte: casts to anything */
    std::vector<cand> c;
    c.push_back({"int 3", occa::kernelArg(3), false, false, occa::dtype::int_});
    c.push_back({"double 2.5", occa::kernelArg(2.5), false, false, occa::dtype::double_});
    c.push_back({"float memory", occa::kernelArg(mf), true, false, occa::dtype::float_});
    c.push_back({"double memory", occa::kernelArg(md), true, false, occa::dtype::double_});
    c.push_back({"int memory", occa::kernelArg(mi), true, false, occa::dtype::int_});
    c.push_back({"float2 memory", occa::kernelArg(mf2), true, false, occa::dtype::float2});
    c.push_back({"byte memory", occa::kernelArg(mb), true, false, occa::dtype::byte});
    c.push_back({"occa::null", occa::kernelArg(occa::null), false, true, occa::dtype::void_});
    const int n = (int) c.size();
    for (int len = 0; len <= 4; ++len) {
      int total = 1; for (int i = 0; i < len; ++i) total *= n;
      for (int code = 0; code < total; ++code) {
        int idx[4]; int t = code; for (int i = 0; i < len; ++i) { idx[i] = t % n; t /= n; }
        std::string in = std::string(pass ? "cached kernel, args (" : "fresh kernel, args (");
        k.clearArgs();
        for (int i = 0; i < len; ++i) { k.pushArg(c[idx[i]].arg); in += c[idx[i]].name; in += (i + 1 < len) ? ", " : ""; }
        in += ")";
        /* the property's sentence */
        bool count_differs = (len != 3), kind = false, cast = false;
        if (!count_differs) for (int i = 0; i < 3; ++i) {
          const cand &a = c[idx[i]];
          if ((a.isMem || a.isNull) != paramIsPtr[i]) kind = true;
          else if (a.isMem && !a.isNull && !a.dt.canBeCastedTo(paramDtype[i])) cast = true;
        }
        bool raised = false;
        try { mk->setupRun(); } catch (occa::exception &e) { raised = true; }
        if (count_differs && !raised) FAIL("raises when the number of arguments differs from the kernel's parameter list", in);
        if (!count_differs && kind && !raised) FAIL("raises when memory is passed for a non-pointer parameter or a non-memory value for a pointer parameter", in);
        if (!count_differs && cast && !raised) FAIL("raises when a memory object's element type cannot be cast to the parameter's element type", in);
        if (!count_differs && !kind && !cast && raised) FAIL("every compatible argument list runs (no exception)", in);
        if (raised != (count_differs || kind || cast)) FAIL("raises exactly for the incompatible argument lists", in);
      }
    }
    if (pass == 0) {
      /* a memory whose dtype flattens to zero entries, through the kernel path */
      occa::memory m0 = dev.malloc<int>(4);
      if (sigsetjmp(jb, 1) == 0) {
        try { m0.setDtype(t0); k.clearArgs(); k.pushArg(3); k.pushArg(m0); k.pushArg(md); mk->setupRun(); printf("setupRun with an int[0] memory: accepted\n"); }
        catch (occa::exception &e) { printf("setupRun with an int[0] memory raises occa::exception (as it must)\n"); }
      } else FAIL("division by zero in size / cycleLength", "memory.setDtype(tuple(int,0,registered)); kernel(3, memory, y) -> SIGFPE inside modeKernel_t::setupRun");
    }
  }
  printf(fails.empty() ? "not reproduced\n" : "REPRODUCED %d failing checks\n", (int) fails.size());
  return fails.empty() ? 0 : 1;
}
'''


def run(ctx):
    cache = ctx.__dict__.get('c10_native')
    if cache is None:
        rc, out, src = replaylib.compile_run(ctx, 'replay_c10', PROG, timeout=600)
        fails = {}
        for m in re.finditer(r'FAILS: (.*?)   \[input (.*)\]', out):
            fails[m.group(1)] = m.group(2)
        cache = ctx.__dict__['c10_native'] = (rc, out, fails)
    return cache


def replay(ctx, g, o, inputs):
    rc, out, fails = run(ctx)
    p = replaylib.keep_replay_source(ctx, g, PROG)
    hit = None
    for k in fails:
        if k in o.desc or o.desc in k:
            hit = k
    if hit is None and 'division by zero' in o.desc:
        hit = next((k for k in fails if 'division by zero' in k), None)
    if hit is None and 'isCyclic' in o.desc and any('division by zero' in k for k in fails):
        # the functional contract of isCyclic fails for cycleLength == 0 only: same input as the division by zero
        hit = next(k for k in fails if 'division by zero' in k)
    return {'reproduced': hit is not None, 'input': fails.get(hit) if hit else None, 'program': p,
            'failing_checks': sorted(fails)[:20], 'output_tail': out[-500:],
            'how': 'real modeKernel_t::setupRun on a kernel built by the Serial device (fresh and cached), every argument list of length 0..4 over 8 '
                   'argument kinds; dtype_t::canBeCastedTo with a zero-entry dtype under a SIGFPE handler'}
