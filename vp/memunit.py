"""Shared translation unit for C02 and C05: the Serial-mode memory stack
(occa::memory handle, modeMemory_t, modeBuffer_t, serial::buffer, serial::memory,
serial::device::malloc/wrapMemory, core device::malloc/wrapMemory) extracted
verbatim from /repo and placed under flattened class skeletons."""
import re

from .core import Undecided
from .extract import extract_function, rewrite, extract_local_helpers

W = r'\s*'
CORE_MEM = 'src/core/memory.cpp'
INT_MEM = 'src/occa/internal/core/memory.cpp'
INT_BUF = 'src/occa/internal/core/buffer.cpp'
SER_BUF = 'src/occa/internal/modes/serial/buffer.cpp'
SER_MEM = 'src/occa/internal/modes/serial/memory.cpp'
SER_DEV = 'src/occa/internal/modes/serial/device.cpp'
CORE_DEV = 'src/core/device.cpp'

PRELUDE = r'''
typedef long dim_t;
typedef unsigned long udim_t;
static bool verif_request_invalid;   /* set by the harness from the property's own definition */
static int verif_raised;
/* exception model (DESIGN 4.2): a raise is first checked against the property, then the path ends */
#define OCCA_ERROR(msg, cond) do { if (!(cond)) { verif_raised = 1; \
  __CPROVER_assert(verif_request_invalid, "occa::exception is raised only for requests that are invalid by the property's definition"); \
  __CPROVER_assume(0); } } while (0)
namespace std { inline udim_t max(udim_t a, udim_t b) { return (a < b) ? b : a; } }
extern char verif_heap[];            /* address space of the host device (never dereferenced: memcpy is a recording stub) */
/* ghost record of what the backend memcpy was asked to do */
static int verif_memcpy_calls; static const void *verif_memcpy_dst, *verif_memcpy_src; static udim_t verif_memcpy_n;
static void* verif_memcpy(void *d, const void *s, udim_t n) {
  ++verif_memcpy_calls; verif_memcpy_dst = d; verif_memcpy_src = s; verif_memcpy_n = n; return d; }
'''

SKELETON = r'''
namespace occa {
  namespace sys {
    static int verif_frees; static int verif_mallocs; static udim_t verif_malloc_bytes;
    static void free(void *p) { ++verif_frees; }
    static void* malloc(udim_t bytes) { ++verif_mallocs; verif_malloc_bytes = bytes;
      udim_t base = nondet_ulong(); __CPROVER_assume(base < (1ul << 40)); return (void*) (verif_heap + base); }
  }
  class modeMemory_t; class modeBuffer_t; class modeDevice_t; class memory; class device;
  /* uninterpreted-but-consistent property lookup */
  class json { public: bool use_host_pointer; bool own_host_pointer;
    json() : use_host_pointer(false), own_host_pointer(false) {}
    bool get(const char *key, bool dflt) const {
      /* keys are string literals in the extracted text; told apart by their first letters (loop-free) */
      if (key[0] == 'u' && key[1] == 's' && key[2] == 'e' && key[3] == '_' && key[4] == 'h') return use_host_pointer;
      if (key[0] == 'o' && key[1] == 'w' && key[2] == 'n' && key[3] == '_' && key[4] == 'h') return own_host_pointer;
      __CPROVER_assert(0, "skeleton json: unknown key"); return dflt; } };
  class dtype_t { public: int bytes_; bool registered;
    dtype_t() : bytes_(1), registered(true) {}
    int bytes() const { return bytes_; }
    bool isRegistered() const { return registered; }
    dtype_t& self() const { return *(dtype_t*) this; }   /* front end cannot return a const reference to *this */ };
  namespace dtype { static dtype_t byte; static dtype_t none; }

  class modeDevice_t { public:
    udim_t bytesAllocated; udim_t maxBytesAllocated; int memRefs;
    modeDevice_t() : bytesAllocated(0), maxBytesAllocated(0), memRefs(0) {}
    void addMemoryRef(modeBuffer_t *b) { ++memRefs; }      /* device ring: C01 */
    void removeMemoryRef(modeBuffer_t *b) { --memRefs; }
    modeMemory_t* malloc(const udim_t bytes, const void *src, const occa::json &props);      /* serial::device::malloc */
    modeMemory_t* wrapMemory(const void *ptr, const udim_t bytes, const occa::json &props);  /* serial::device::wrapMemory */
  };

  class modeBuffer_t : public gc::ringEntry_t { public:
    occa::json properties;
    gc::ring_t<modeMemory_t> modeMemoryRing;
    char *ptr;
    occa::modeDevice_t *modeDevice;
    udim_t size;
    bool isWrapped;
    modeBuffer_t(modeDevice_t *modeDevice_, udim_t size_, const occa::json &properties_);
    virtual ~modeBuffer_t();
    void serial_dtor_body();                    /* serial::buffer::~buffer, runs before ~modeBuffer_t */
    bool needsFree() const;
    void addModeMemoryRef(modeMemory_t *mem);
    void removeModeMemoryRef(modeMemory_t *mem);
    void malloc(udim_t bytes);                  /* serial::buffer::malloc */
    void wrapMemory(const void *ptr_, const udim_t bytes);
    modeMemory_t* slice(const dim_t offset, const udim_t bytes);
  };

  class modeMemory_t : public gc::ringEntry_t { public:
    gc::ring_t<memory> memoryRing;
    occa::modeBuffer_t *modeBuffer;
    char *ptr;
    const dtype_t *dtype_;
    udim_t size;
    dim_t offset;
    modeMemory_t(modeBuffer_t *modeBuffer_, udim_t size_, dim_t offset_);
    virtual ~modeMemory_t();
    void serial_ctor_body(modeBuffer_t *b);     /* body of serial::memory::memory(buffer*, ...) */
    void dontUseRefs();
    void addMemoryRef(memory *mem);
    void removeMemoryRef(memory *mem);
    void removeModeMemoryRef();
    bool needsFree() const;
    modeMemory_t* slice(const dim_t offset_, const udim_t bytes);
    void copyTo(void *dest, const udim_t bytes, const udim_t offset_, const occa::json &props) const;
    void copyFrom(const void *src, const udim_t bytes, const udim_t offset_, const occa::json &props);
    void copyFrom(const modeMemory_t *src, const udim_t bytes, const udim_t destOffset, const udim_t srcOffset, const occa::json &props);
  };

  class memory : public gc::ringEntry_t { public:
    modeMemory_t *modeMemory;
    memory();
    memory(modeMemory_t *modeMemory_);
    memory(const memory &m);
    memory& operator = (const memory &m);
    ~memory();
    void assertInitialized() const;
    static void assertValidRange(const dim_t count, const dim_t offset, const udim_t entries);
    void setModeMemory(modeMemory_t *modeMemory_);
    void removeMemoryRef();
    bool isInitialized() const;
    void setDtype(const dtype_t &dtype__);
    const dtype_t& dtype() const;
    udim_t size() const;
    udim_t length() const;
    udim_t byte_size() const;
    void plus(occa::memory &verif_ret, const dim_t offset) const;          /* operator+, return value as out-parameter */
    void slice(occa::memory &verif_ret, const dim_t offset, const dim_t count) const;
    void copyFrom(const void *src, const dim_t count, const dim_t offset, const occa::json &props);
    void copyFrom(const memory src, const dim_t count, const dim_t destOffset, const dim_t srcOffset, const occa::json &props);
    void copyTo(void *dest, const dim_t count, const dim_t offset, const occa::json &props) const;
    void copyTo(memory dest, const dim_t count, const dim_t destOffset, const dim_t srcOffset, const occa::json &props) const;
    void cast(occa::memory &verif_ret, const dtype_t &dtype_) const;
  };

  class device { public:
    modeDevice_t *modeDevice;
    device() : modeDevice(0) {}
    void assertInitialized() const;
    occa::json memoryProperties(const occa::json &additionalProps) const { return additionalProps; }  /* json merging: C25/C26 */
    void malloc(occa::memory &verif_ret, const dim_t entries, const dtype_t &dtype, const void *src, const occa::json &props);
    void wrapMemory(occa::memory &verif_ret, const void *ptr, const dim_t entries, const dtype_t &dtype, const occa::json &props);
  };

  /* [expr.new]/[class.base.init]: new serial::memory(b, s, o) = base constructor, then the derived body */
  static modeMemory_t* verif_new_serial_memory(modeBuffer_t *b, udim_t s, dim_t o) {
    modeMemory_t *m = new modeMemory_t(b, s, o); m->serial_ctor_body(b); return m; }
  /* [expr.delete]/[class.dtor]: derived destructor body, base destructor body, deallocation */
  static int verif_deleted_buffers, verif_deleted_memories;
#ifdef VERIF_RECORD_DELETES
  /* object lifetime is C01's subject: here a delete-expression is recorded, not executed, which keeps
     the mutually recursive destructor chain (~modeBuffer_t <-> ~modeMemory_t) out of the symbolic execution */
  static void verif_delete(modeBuffer_t *p) { if (p) ++verif_deleted_buffers; }
  static void verif_delete(modeMemory_t *p) { if (p) ++verif_deleted_memories; }
#else
  static void verif_delete(modeBuffer_t *p) { if (p) { ++verif_deleted_buffers; p->serial_dtor_body(); p->~modeBuffer_t(); delete p; } }
  static void verif_delete(modeMemory_t *p) { if (p) { ++verif_deleted_memories; p->~modeMemory_t(); delete p; } }
#endif
}
'''


def _get(ctx, fns, rel, rx, name, rules=()):
    e = extract_function(ctx, rel, rx, name=name)
    fns.append(e)
    return rewrite(e, list(rules))


def build_unit(ctx, gc_text):
    """Returns (text, [Extracted])."""
    fns = []
    parts = []
    # ---- occa::memory (handle) ----
    H = [
        (r'^  memory::memory\(\)%s:%smodeMemory\(NULL\)%s\{\}' % (W, W, W), 'memory::memory()'),
        (r'^  memory::memory\(modeMemory_t \*modeMemory_\)%s:' % W, 'memory::memory(modeMemory_t*)'),
        (r'^  memory::memory\(const memory &m\)%s:' % W, 'memory::memory(const memory&)'),
        (r'^  memory& memory::operator = \(const memory &m\)%s\{' % W, 'memory::operator='),
        (r'^  memory::~memory\(\)%s\{' % W, 'memory::~memory'),
        (r'^  void memory::assertInitialized\(\) const%s\{' % W, 'memory::assertInitialized'),
        (r'^  void memory::assertValidRange\(const dim_t count,\s*const dim_t offset,\s*const udim_t entries\)%s\{' % W, 'memory::assertValidRange'),
        (r'^  void memory::setModeMemory\(modeMemory_t \*modeMemory_\)%s\{' % W, 'memory::setModeMemory'),
        (r'^  void memory::removeMemoryRef\(\)%s\{' % W, 'memory::removeMemoryRef'),
        (r'^  bool memory::isInitialized\(\) const%s\{' % W, 'memory::isInitialized'),
        (r'^  void memory::setDtype\(const dtype_t &dtype__\)%s\{' % W, 'memory::setDtype'),
        (r'^  const dtype_t& memory::dtype\(\) const%s\{' % W, 'memory::dtype'),
        (r'^  udim_t memory::size\(\) const%s\{' % W, 'memory::size'),
        (r'^  udim_t memory::length\(\) const%s\{' % W, 'memory::length'),
        (r'^  udim_t memory::byte_size\(\) const%s\{' % W, 'memory::byte_size'),
        (r'^  occa::memory memory::operator \+ \(const dim_t offset\) const%s\{' % W, 'memory::operator+'),
        (r'^  occa::memory memory::slice\(const dim_t offset,\s*const dim_t count\) const%s\{' % W, 'memory::slice'),
        (r'^  void memory::copyFrom\(const void \*src,\s*const dim_t count,\s*const dim_t offset,\s*const occa::json &props\)%s\{' % W, 'memory::copyFrom(const void*, count, offset)'),
        (r'^  void memory::copyFrom\(const memory src,\s*const dim_t count,\s*const dim_t destOffset,\s*const dim_t srcOffset,\s*const occa::json &props\)%s\{' % W, 'memory::copyFrom(memory, count, destOffset, srcOffset)'),
        (r'^  void memory::copyTo\(void \*dest,\s*const dim_t count,\s*const dim_t offset,\s*const occa::json &props\) const%s\{' % W, 'memory::copyTo(void*, count, offset)'),
        (r'^  void memory::copyTo\(memory dest,\s*const dim_t count,\s*const dim_t destOffset,\s*const dim_t srcOffset,\s*const occa::json &props\) const%s\{' % W, 'memory::copyTo(memory, count, destOffset, srcOffset)'),
        (r'^  occa::memory memory::cast\(const dtype_t &dtype_\) const%s\{' % W, 'memory::cast'),
    ]
    RV = ('return by value -> out-parameter: the front end bit-copies class return values without running the copy '
          'constructor; for occa::memory copy-construction == default construction + operator= (both only call setModeMemory)')
    byval = {
        'memory::operator+': [(RV, r'occa::memory memory::operator \+ \(const dim_t offset\) const', 'void memory::plus(occa::memory &verif_ret, const dim_t offset) const', 1),
                              (RV, r'return slice\(offset\);', '{ slice(verif_ret, offset, -1); return; }', 1)],
        'memory::slice': [(RV, r'occa::memory memory::slice\(const dim_t offset,\s*const dim_t count\) const', 'void memory::slice(occa::memory &verif_ret, const dim_t offset, const dim_t count) const', 1),
                          (RV, r'return memory\(\);', '{ verif_ret = memory(); return; }', 1),
                          (RV, r'return m;', '{ verif_ret = m; return; }', 1)],
        'memory::cast': [(RV, r'occa::memory memory::cast\(const dtype_t &dtype_\) const', 'void memory::cast(occa::memory &verif_ret, const dtype_t &dtype_) const', 1),
                         (RV, r'occa::memory mem = slice\(0\);', 'occa::memory mem; slice(mem, 0, -1);', 1),
                         (RV, r'return mem;', '{ verif_ret = mem; return; }', 1)],
    }
    for rx, name in H:
        rules = list(byval.get(name, []))
        if name == 'memory::dtype':
            rules += [('name lookup: inside the member function dtype() the namespace occa::dtype is hidden for the front end; qualified explicitly',
                      r'return dtype::none;', 'return ::occa::dtype::none;', 1)]
        parts.append(_get(ctx, fns, CORE_MEM, rx, name, rules))
    # ---- modeMemory_t ----
    M = [
        (r'^  modeMemory_t::modeMemory_t\(modeBuffer_t \*modeBuffer_,\s*udim_t size_, dim_t offset_\)%s:' % W, 'modeMemory_t::modeMemory_t'),
        (r'^  modeMemory_t::~modeMemory_t\(\)%s\{' % W, 'modeMemory_t::~modeMemory_t'),
        (r'^  void modeMemory_t::dontUseRefs\(\)%s\{' % W, 'modeMemory_t::dontUseRefs'),
        (r'^  void modeMemory_t::addMemoryRef\(memory \*mem\)%s\{' % W, 'modeMemory_t::addMemoryRef'),
        (r'^  void modeMemory_t::removeMemoryRef\(memory \*mem\)%s\{' % W, 'modeMemory_t::removeMemoryRef'),
        (r'^  void modeMemory_t::removeModeMemoryRef\(\)%s\{' % W, 'modeMemory_t::removeModeMemoryRef'),
        (r'^  bool modeMemory_t::needsFree\(\) const%s\{' % W, 'modeMemory_t::needsFree'),
        (r'^  modeMemory_t\* modeMemory_t::slice\(const dim_t offset_,\s*const udim_t bytes\)%s\{' % W, 'modeMemory_t::slice'),
    ]
    for rx, name in M:
        parts.append(_get(ctx, fns, INT_MEM, rx, name))
    # ---- modeBuffer_t ----
    B = [
        (r'^  modeBuffer_t::modeBuffer_t\(modeDevice_t \*modeDevice_,\s*udim_t size_,\s*const occa::json &properties_\)%s:' % W, 'modeBuffer_t::modeBuffer_t'),
        (r'^  modeBuffer_t::~modeBuffer_t\(\)%s\{' % W, 'modeBuffer_t::~modeBuffer_t'),
        (r'^  void modeBuffer_t::addModeMemoryRef\(modeMemory_t \*mem\)%s\{' % W, 'modeBuffer_t::addModeMemoryRef'),
        (r'^  void modeBuffer_t::removeModeMemoryRef\(modeMemory_t \*mem\)%s\{' % W, 'modeBuffer_t::removeModeMemoryRef'),
        (r'^  bool modeBuffer_t::needsFree\(\) const%s\{' % W, 'modeBuffer_t::needsFree'),
    ]
    for rx, name in B:
        parts.append(_get(ctx, fns, INT_BUF, rx, name))
    # ---- serial::buffer flattened into modeBuffer_t ----
    ctor = extract_function(ctx, SER_BUF, r'^    buffer::buffer\(modeDevice_t \*modeDevice_,\s*udim_t size_,\s*const occa::json &properties_\)%s:' % W,
                            name='serial::buffer::buffer')
    fns.append(ctor)
    if not re.search(r'occa::modeBuffer_t\(modeDevice_, size_, properties_\)\s*\{\s*\}\s*$', ctor.text):
        raise Undecided('flattening rule: serial::buffer constructor is no longer a pure forwarder to modeBuffer_t')
    ctor.rules.append(('flattening: serial::buffer constructor only forwards to modeBuffer_t(modeDevice_, size_, properties_) with an empty body (checked)', 1))
    flat = 'flattening to the Serial-mode class: qualifier serial::%s:: -> %s::'
    parts.append(_get(ctx, fns, SER_BUF, r'^    buffer::~buffer\(\)%s\{' % W, 'serial::buffer::~buffer',
                      [('flattening: derived destructor body becomes serial_dtor_body(), called before the base destructor body',
                        r'^    buffer::~buffer\(\)\s*\{', '    void modeBuffer_t::serial_dtor_body() {', 1)]))
    parts.append(_get(ctx, fns, SER_BUF, r'^    void buffer::malloc\(udim_t bytes\)%s\{' % W, 'serial::buffer::malloc',
                      [(flat % ('buffer', 'modeBuffer_t'), r'void buffer::malloc', 'void modeBuffer_t::malloc', 1)]))
    parts.append(_get(ctx, fns, SER_BUF, r'^    void buffer::wrapMemory\(const void \*ptr_,\s*const udim_t bytes\)%s\{' % W, 'serial::buffer::wrapMemory',
                      [(flat % ('buffer', 'modeBuffer_t'), r'void buffer::wrapMemory', 'void modeBuffer_t::wrapMemory', 1)]))
    parts.append(_get(ctx, fns, SER_BUF, r'^    modeMemory_t\* buffer::slice\(const dim_t offset,\s*const udim_t bytes\)%s\{' % W, 'serial::buffer::slice',
                      [(flat % ('buffer', 'modeBuffer_t'), r'modeMemory_t\* buffer::slice', 'modeMemory_t* modeBuffer_t::slice', 1),
                       ('flattening: new serial::memory(b, s, o) -> base constructor + derived constructor body', r'new serial::memory\(', 'verif_new_serial_memory(', 1)]))
    # ---- serial::memory flattened into modeMemory_t ----
    parts.append(_get(ctx, fns, SER_MEM, r'^    memory::memory\(buffer \*b,\s*udim_t size_, dim_t offset_\)%s:' % W, 'serial::memory::memory(buffer*)',
                      [('flattening: derived constructor body becomes serial_ctor_body(b), called after the base constructor',
                        r'^    memory::memory\(buffer \*b,\s*udim_t size_, dim_t offset_\)\s*:\s*occa::modeMemory_t\(b, size_, offset_\)\s*\{',
                        '    void modeMemory_t::serial_ctor_body(modeBuffer_t *b) {', 1)]))
    cp = [('flattening: qualifier serial::memory:: -> modeMemory_t::', r'^    void memory::(copyTo|copyFrom)\(', r'    void modeMemory_t::\1(', 1),
          ('::memcpy -> recording stub verif_memcpy (the libc contract is checked by the harness: ranges, not contents)', r'::memcpy\(', 'verif_memcpy(', 1)]
    parts.append(_get(ctx, fns, SER_MEM, r'^    void memory::copyTo\(void \*dest,', 'serial::memory::copyTo', cp))
    parts.append(_get(ctx, fns, SER_MEM, r'^    void memory::copyFrom\(const void \*src,', 'serial::memory::copyFrom(const void*)', cp))
    parts.append(_get(ctx, fns, SER_MEM, r'^    void memory::copyFrom\(const modeMemory_t \*src,', 'serial::memory::copyFrom(const modeMemory_t*)', cp))
    # ---- serial::device ----
    dv = [('flattening: qualifier serial::device:: -> modeDevice_t::', r'modeMemory_t\* device::(malloc|wrapMemory)\(', r'modeMemory_t* modeDevice_t::\1(', 1),
          ('flattening: new serial::buffer(...) -> new modeBuffer_t(...) (forwarding constructor)', r'buffer \*buf = new serial::buffer\(', 'modeBuffer_t *buf = new modeBuffer_t(', 1),
          ('flattening: new serial::memory(b, s, o) -> base constructor + derived constructor body', r'new serial::memory\(', 'verif_new_serial_memory(', 1)]
    parts.append(_get(ctx, fns, SER_DEV, r'^    modeMemory_t\* device::malloc\(const udim_t bytes,\s*const void \*src,\s*const occa::json &props\)%s\{' % W,
                      'serial::device::malloc', dv + [('flattening: local of type serial::memory* -> modeMemory_t*', r'\bmemory \*mem = ', 'modeMemory_t *mem = ', 1)]))
    parts.append(_get(ctx, fns, SER_DEV, r'^    modeMemory_t\* device::wrapMemory\(const void \*ptr,\s*const udim_t bytes,\s*const occa::json &props\)%s\{' % W,
                      'serial::device::wrapMemory', dv))
    # ---- core device ----
    parts.append(_get(ctx, fns, CORE_DEV, r'^  void device::assertInitialized\(\) const%s\{' % W, 'device::assertInitialized'))
    parts.append(_get(ctx, fns, CORE_DEV, r'^  occa::memory device::malloc\(const dim_t entries,\s*const dtype_t &dtype,\s*const void \*src,\s*const occa::json &props\)%s\{' % W,
                      'device::malloc(entries, dtype, src, props)',
                      [(RV, r'occa::memory device::malloc\(const dim_t entries,', 'void device::malloc(occa::memory &verif_ret, const dim_t entries,', 1),
                       (RV, r'return memory\(\);', '{ verif_ret = memory(); return; }', 1),
                       (RV, r'return mem;', '{ verif_ret = mem; return; }', 1)]))
    parts.append(_get(ctx, fns, CORE_DEV, r'^  occa::memory device::wrapMemory\(const void \*ptr,\s*const dim_t entries,\s*const dtype_t &dtype,\s*const occa::json &props\)%s\{' % W,
                      'device::wrapMemory(ptr, entries, dtype, props)',
                      [(RV, r'occa::memory device::wrapMemory\(const void \*ptr,', 'void device::wrapMemory(occa::memory &verif_ret, const void *ptr,', 1),
                       (RV, r'return mem;', '{ verif_ret = mem; return; }', 1)]))
    helpers = []
    for rel in (CORE_MEM, INT_MEM, INT_BUF, SER_BUF, SER_MEM):
        for h in extract_local_helpers(ctx, rel):
            fns.append(h)
            ht, nn = re.subn(r'^([ \t]*)namespace[ \t]*\{', r'\1namespace verif_anon {', h.text, count=1, flags=re.M)
            if nn:
                h.rules.append(('anonymous namespace -> named namespace + using-directive (front end: "unique namespace not supported")', nn))
                ht += '\n  using namespace verif_anon;\n'
            helpers.append(ht)
    real = '\n\n'.join(helpers + parts)
    real, n = re.subn(r'\bnullptr\b', '0', real)
    real, n = re.subn(r'\bdelete\s+([A-Za-z_]\w*)\s*;', r'verif_delete(\1);', real)
    if n < 2:
        raise Undecided('rewrite rule "delete p; -> destructor call + deallocation" fired %d times (expected >= 2)' % n)
    fns[0].rules.append(('delete p; -> verif_delete(p): [expr.delete] destructor call made explicit (front end does not run destructors on delete)', n))
    text = gc_text + PRELUDE + SKELETON + '\nnamespace occa {\n' + real + '\n}\nusing namespace occa;\n'
    return text, fns
