"""Native replay for C01: every handle history of length <= 3 over 3 handle
slots and 2 backend objects is run against the real library through the public
API (each history in a forked child), compared with the reference model
(attachment, isInitialized, accounted memory back to zero)."""
import re

from . import replaylib

PROG = r'''
#include <occa.hpp>
#include <cstdio>
#include <cstdlib>
#include <unistd.h>
#include <sys/wait.h>
#include <vector>
#include <string>
typedef occa::@H@ HT;
static occa::device dev;
static HT make(int which) { @MAKE@ }
static long accounted() { return (long) dev.memoryAllocated(); }
struct Op { int op, i, j; };
static const char *opname[] = {"copy-construct", "assign", "free", "destroy", "swap"};
static int run(const std::vector<Op> &seq, bool verbose) {
  long base = accounted();
  HT *h[4] = {0, 0, 0, 0}; int att[4] = {-1, -1, -1, -1}; bool alive[2] = {true, true};
  h[0] = new HT(make(0)); att[0] = 0;
  h[1] = new HT(make(1)); att[1] = 1;
  h[2] = new HT(*h[0]);   att[2] = 0;
  int bad = 0;
  for (size_t s = 0; s < seq.size() && !bad; ++s) {
    Op o = seq[s];
    if (!h[o.i] || (o.op != 2 && o.op != 3 && !h[o.j])) continue;
    int cnt[2];
    switch (o.op) {
      case 0: if (h[3]) { delete h[3]; } h[3] = new HT(*h[o.j]); att[3] = att[o.j]; break;
      case 1: *h[o.i] = *h[o.j]; att[o.i] = att[o.j]; break;
      case 2: { int ob = att[o.i]; h[o.i]->free(); if (ob >= 0) { alive[ob] = false; for (int k = 0; k < 4; ++k) if (att[k] == ob) att[k] = -1; } break; }
      case 3: delete h[o.i]; h[o.i] = 0; att[o.i] = -1; break;
      case 4: @SWAP@ break;
    }
    for (int k = 0; k < 4; ++k) if (h[k] && (h[k]->isInitialized() != (att[k] >= 0))) {
      if (verbose) printf("FAILS: after step %zu (%s %d %d): handle %d isInitialized()=%d, model says %d\n", s, opname[o.op], o.i, o.j, k, (int) h[k]->isInitialized(), att[k] >= 0);
      bad = 1;
    }
  }
  for (int k = 0; k < 4; ++k) if (h[k]) { delete h[k]; h[k] = 0; }
  if (!bad && accounted() != base) { if (verbose) printf("FAILS: %ld accounted bytes still allocated after every handle is gone (leak)\n", accounted() - base); bad = 1; }
  return bad;
}
int main() {
  dev = occa::device({{"mode", "Serial"}});
  int nops = @NOPS@;
  std::vector<Op> all;
  for (int op = 0; op < nops; ++op) for (int i = 0; i < 3; ++i) for (int j = 0; j < 3; ++j) {
    if ((op == 2 || op == 3 || op == 0) && j != 0 && op != 0) continue;
    Op o = {op, i, j}; all.push_back(o); }
  int found = 0;
  for (size_t a = 0; a < all.size() && !found; ++a) for (size_t b = 0; b < all.size() && !found; ++b) for (int len = 1; len <= 2 && !found; ++len) {
    std::vector<Op> seq; seq.push_back(all[a]); if (len == 2) seq.push_back(all[b]);
    if (len == 1 && b != 0) continue;
    fflush(stdout);
    pid_t p = fork();
    if (p == 0) { int r = run(seq, true); fflush(stdout); _exit(r); }
    int st = 0; waitpid(p, &st, 0);
    bool bad = !(WIFEXITED(st) && WEXITSTATUS(st) == 0);
    if (bad) {
      found = 1;
      printf("FAILING HISTORY: h0=X, h1=Y, h2=copy(h0);");
      for (size_t s = 0; s < seq.size(); ++s) printf(" %s(h%d,h%d);", opname[seq[s].op], seq[s].i, seq[s].j);
      printf(" then destroy all  -> %s\n", WIFSIGNALED(st) ? "crash (signal)" : "model mismatch");
    }
  }
  printf(found ? "REPRODUCED\n" : "not reproduced\n");
  return found;
}
'''

MAKERS = {
    'memory': dict(H='memory', MAKE='return dev.malloc(16 + which);', SWAP='h[o.i]->swap(*h[o.j]); { int t = att[o.i]; att[o.i] = att[o.j]; att[o.j] = t; }', NOPS='5'),
    'memoryPool': dict(H='memoryPool', MAKE='occa::memoryPool p = dev.createMemoryPool(); p.resize(256 + which); return p;',
                       SWAP='h[o.i]->swap(*h[o.j]); { int t = att[o.i]; att[o.i] = att[o.j]; att[o.j] = t; }', NOPS='5'),
    'stream': dict(H='stream', MAKE='return dev.createStream();', SWAP='', NOPS='4'),
}


def make_replay(fam):
    if fam not in MAKERS:
        return None
    m = MAKERS[fam]

    def replay(ctx, g, o, inputs):
        prog = PROG
        for k, v in m.items():
            prog = prog.replace('@' + k + '@', v)
        rc, out, src = replaylib.compile_run(ctx, 'replay_c01_' + fam, prog, timeout=600)
        p = replaylib.keep_replay_source(ctx, g, prog)
        return {'reproduced': 'REPRODUCED' in out and rc != 0, 'program': p,
                'how': 'all histories of length <= 2 after the setup h0=X, h1=Y, h2=copy(h0) through the public API on a Serial device, each in a forked child',
                'output': out[-1500:]}
    return replay
