"""Native replay for C02: the failing API function is run through the public
occa:: API on a Serial device over a grid of requests (small values around the
view bounds plus 64-bit extremes, the counterexample's shape) and compared with
the byte-array reference model: must raise iff invalid, must move exactly the
model's bytes otherwise.  Each request runs in a forked child (crash = finding)."""
import re

from . import replaylib

PROG = r'''
#include <occa.hpp>
#include <cstdio>
#include <cstring>
#include <climits>
#include <unistd.h>
#include <sys/wait.h>
#include <vector>
static const long VALS[] = {-4611686018427387904L, -3, -2, -1, 0, 1, 2, 3, 5, 7, 8, 9, 15, 16, 17, 4611686018427387904L, 4611686018427387903L, 2305843009213693952L, LONG_MAX};
static const int NV = sizeof(VALS) / sizeof(VALS[0]);
typedef __int128 wide;
static int DSZ = @DSZ@;
static const occa::dtype_t& dt() { return DSZ == 1 ? occa::dtype::char_ : DSZ == 2 ? occa::dtype::short_ : DSZ == 4 ? occa::dtype::int_ : DSZ == 8 ? occa::dtype::double_ : DSZ == 12 ? occa::dtype::float3 : occa::dtype::float4; }
static int one(int fn, long count, long offset, long offset2, bool useSlice, bool init) {
  occa::device dev({{"mode", "Serial"}});
  const long NB = 16 * DSZ;                       /* bytes in the parent allocation */
  std::vector<unsigned char> model(NB), host(4 * NB, 0xAB);
  for (long i = 0; i < NB; ++i) model[i] = (unsigned char) (i * 7 + 1);
  occa::memory base = dev.malloc(NB, occa::dtype::byte, model.data());
  occa::memory parent = base.cast(dt());
  occa::memory m = useSlice ? parent.slice(4, 8) : parent;       /* view: elements [4,12) or [0,16) */
  const long voff = useSlice ? 4 * DSZ : 0, vsize = useSlice ? 8 * DSZ : NB, len = vsize / DSZ;
  occa::memory other = dev.malloc(NB, occa::dtype::byte, model.data()); other = other.cast(dt());
  if (!init) m = occa::memory();
  bool threw = false; int bad = 0;
  wide cnt = (count == -1) ? (fn == 4 ? (wide) len - offset : (wide) len) : (wide) count;
  bool valid;
  try {
    switch (fn) {
      case 0: valid = init && offset >= 0 && count >= -1 && ((wide) offset + cnt) * DSZ <= vsize;
              if (valid && cnt * DSZ > (wide) host.size()) return 0;
              m.copyFrom(host.data(), count, offset); break;
      case 1: valid = init && offset >= 0 && count >= -1 && ((wide) offset + cnt) * DSZ <= vsize;
              if (valid && cnt * DSZ > (wide) host.size()) return 0;
              m.copyTo(host.data(), count, offset); break;
      case 2: valid = init && offset >= 0 && offset2 >= 0 && count >= -1 && ((wide) offset + cnt) * DSZ <= vsize && ((wide) offset2 + cnt) * DSZ <= NB;
              m.copyFrom(other, count, offset, offset2); break;
      case 3: valid = init && offset >= 0 && offset2 >= 0 && count >= -1 && ((wide) offset2 + cnt) * DSZ <= vsize && ((wide) offset + cnt) * DSZ <= NB;
              m.copyTo(other, count, offset, offset2); break;
      default: valid = init && offset >= 0 && count >= -1 && cnt >= 0 && (wide) offset + cnt <= len;
              { occa::memory s = m.slice(offset, count);
                if (valid && init) { if ((long) s.length() != (long) cnt) { printf("FAILS: slice(%ld,%ld) has length %ld, model %ld\n", offset, count, (long) s.length(), (long) cnt); bad = 1; }
                  if (cnt > 0) { unsigned char b = 0; s.cast(occa::dtype::byte).copyTo(&b, 1, 0); unsigned char want = model[voff + offset * DSZ];
                    if (b != want) { printf("FAILS: slice(%ld,%ld) first byte %u, model %u\n", offset, count, b, want); bad = 1; } } }
                if (!valid && s.isInitialized()) { /* reported below as missing exception */ } }
              break;
    }
  } catch (occa::exception &e) { threw = true; }
  if (threw && valid) { printf("FAILS: fn=%d count=%ld offset=%ld offset2=%ld slice=%d init=%d: valid request raised\n", fn, count, offset, offset2, useSlice, init); bad = 1; }
  if (!threw && !valid) { printf("FAILS: fn=%d count=%ld offset=%ld offset2=%ld slice=%d init=%d: invalid request did not raise\n", fn, count, offset, offset2, useSlice, init); bad = 1; }
  if (!threw && valid && fn == 1 && cnt > 0) {
    if (memcmp(host.data(), &model[voff + offset * DSZ], (size_t) (cnt * DSZ)) != 0) { printf("FAILS: copyTo(host,%ld,%ld) read the wrong bytes\n", count, offset); bad = 1; } }
  if (!threw && valid && fn == 0 && cnt > 0) {
    std::vector<unsigned char> all(NB); base.copyTo(all.data());
    for (long i = 0; i < NB; ++i) { bool in = i >= voff + offset * DSZ && i < voff + (offset + (long) cnt) * DSZ;
      if (all[i] != (in ? 0xAB : model[i])) { printf("FAILS: copyFrom(host,%ld,%ld) wrote byte %ld wrongly\n", count, offset, i); bad = 1; break; } } }
  return bad;
}
int main() {
  int fn = @FN@, found = 0, tried = 0;
  for (int init = 1; init >= 0 && !found; --init) for (int sl = 0; sl < 2 && !found; ++sl)
  for (int a = 0; a < NV && !found; ++a) for (int b = 0; b < NV && !found; ++b) for (int c = 0; c < ((fn == 2 || fn == 3) ? 5 : 1) && !found; ++c) {
    if (!init && (a > 6 || b > 6)) continue;
    fflush(stdout); ++tried;
    pid_t p = fork();
    if (p == 0) { int r = one(fn, VALS[a], VALS[b], VALS[4 + c], sl, init); fflush(stdout); _exit(r); }
    int st = 0; waitpid(p, &st, 0);
    if (WIFSIGNALED(st)) { printf("FAILS: fn=%d count=%ld offset=%ld slice=%d init=%d: crashed with signal %d\n", fn, VALS[a], VALS[b], sl, init, WTERMSIG(st)); found = 1; }
    else if (WEXITSTATUS(st) != 0) found = 1;
  }
  printf("%d requests tried; %s\n", tried, found ? "REPRODUCED" : "not reproduced");
  return found;
}
'''

FN = {'copyFrom_ptr': 0, 'copyTo_ptr': 1, 'copyFrom_mem': 2, 'copyTo_mem': 3, 'slice': 4}


def replay(ctx, g, o, inputs):
    name = g.name.split('/')[0].split('-')[0]
    if name not in FN:
        return None
    m = re.search(r'dsz=(\d+)', g.name)
    dsz = int(m.group(1)) if m else 4
    if dsz not in (1, 2, 4, 8, 12, 16):
        dsz = 4
    prog = PROG.replace('@FN@', str(FN[name])).replace('@DSZ@', str(dsz))
    rc, out, src = replaylib.compile_run(ctx, 'replay_c02', prog, timeout=900)
    p = replaylib.keep_replay_source(ctx, g, prog)
    fails = re.findall(r'FAILS: .*', out)
    # only count the replay as a reproduction of THIS obligation when the kind of failure matches
    kind_uninit = 'uninitialized handle' in o.key
    rel = [f for f in fails if (('init=0' in f) == kind_uninit) or 'init=' not in f]
    return {'reproduced': bool(rel), 'failing_requests': rel[:5], 'program': p,
            'how': 'public occa:: API on a Serial device, grid of requests around the view bounds and at 64-bit extremes, '
                   'byte-array reference model, one forked child per request', 'output': out[-800:]}
