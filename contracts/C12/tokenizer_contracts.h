/* C12 - contracts for the cursor loops of occa::lang::tokenizer_t
   (src/occa/internal/lang/tokenizer.cpp).  `fp` (the member
   tokenizer_t::fp of class filePosition) is a global struct in the C
   extraction so that contracts and loop invariants can name it. */
#ifndef C12_TOKENIZER_CONTRACTS_H
#define C12_TOKENIZER_CONTRACTS_H
#include "C12/lex_contracts.h"

/* cursor fp.start anywhere in the buffer, fp.lineStart at or before it, line
   counter far enough from INT_MAX that counting every byte cannot overflow */
#define TOK_LINE_MAX (INT_MAX - (int) VERIF_MAXLEN - 2)
#define TOK_PRE \
  (BUF_OK && CUR_IN_BUF(fp.start) && \
   __CPROVER_pointer_in_range_dfcc(verif_buf, fp.lineStart, fp.start) && \
   0 <= fp.line && fp.line <= TOK_LINE_MAX)
/* the cursor stays in the buffer and never moves backwards; the line start
   stays in the buffer at or before the cursor; the line counter grows by at
   most the number of bytes passed */
#define TOK_STATE(entry_start, entry_line) \
  (IN_BUF(fp.start) && OFF(fp.start) >= OFF(entry_start) && \
   IN_BUF(fp.lineStart) && OFF(fp.lineStart) <= OFF(fp.start) && \
   fp.line >= (entry_line) && \
   (size_t) (fp.line - (entry_line)) <= OFF(fp.start) - OFF(entry_start))
/* (pointer predicates first: see CURSOR_POST) */
#define TOK_POST \
  (CUR_IN_BUF(fp.start) && __CPROVER_pointer_in_range_dfcc(verif_buf, fp.lineStart, fp.start) && \
   TOK_STATE(__CPROVER_old(fp.start), __CPROVER_old(fp.line)))
#define TOK_INV  TOK_STATE(__CPROVER_loop_entry(fp.start), __CPROVER_loop_entry(fp.line))
#define TOK_SKIPPED     SKIPPED(__CPROVER_old(fp.start), fp.start)
#define TOK_SKIPPED_INV SKIPPED(__CPROVER_loop_entry(fp.start), fp.start)
#define TOK_ASSIGNS __CPROVER_assigns(fp.start, fp.lineStart, fp.line)
/* position verif_g directly follows a backslash that lies inside the scanned span */
#define AFTER_BACKSLASH(entry_start) (verif_g > OFF(entry_start) && BUF_GP == '\\')

/* void tokenizer_t::skipTo(const char delimiter):
   stops at NUL or at delimiter; a delimiter that was passed over directly
   follows a backslash (line continuation / escape) */
#define CONTRACT_tokenizer_skipTo_c \
  __CPROVER_requires(TOK_PRE) \
  __CPROVER_ensures(TOK_POST) \
  __CPROVER_ensures(*fp.start == 0 || *fp.start == delimiter) \
  __CPROVER_ensures(TOK_SKIPPED ==> BUF_G != 0) \
  __CPROVER_ensures((TOK_SKIPPED && BUF_G == delimiter && delimiter != '\\') ==> AFTER_BACKSLASH(__CPROVER_old(fp.start))) \
  TOK_ASSIGNS
#define LOOP_tokenizer_skipTo_c_0 \
  TOK_ASSIGNS \
  __CPROVER_loop_invariant(TOK_INV) \
  __CPROVER_loop_invariant(TOK_SKIPPED_INV ==> BUF_G != 0) \
  __CPROVER_loop_invariant((TOK_SKIPPED_INV && BUF_G == delimiter && delimiter != '\\') ==> AFTER_BACKSLASH(__CPROVER_loop_entry(fp.start))) \
  __CPROVER_decreases(verif_len - OFF(fp.start))

/* void tokenizer_t::skipTo(const char *delimiters):
   stops at NUL or at a character of the set */
#define CONTRACT_tokenizer_skipTo_s \
  __CPROVER_requires(TOK_PRE && CS_PRE(delimiters)) \
  __CPROVER_ensures(TOK_POST) \
  __CPROVER_ensures(*fp.start == 0 || IN_SET(*fp.start)) \
  __CPROVER_ensures(TOK_SKIPPED ==> BUF_G != 0) \
  __CPROVER_ensures((TOK_SKIPPED && IN_SET(BUF_G) && BUF_G != '\\') ==> AFTER_BACKSLASH(__CPROVER_old(fp.start))) \
  TOK_ASSIGNS
#define LOOP_tokenizer_skipTo_s_0 \
  TOK_ASSIGNS \
  __CPROVER_loop_invariant(TOK_INV) \
  __CPROVER_loop_invariant(TOK_SKIPPED_INV ==> BUF_G != 0) \
  __CPROVER_loop_invariant((TOK_SKIPPED_INV && IN_SET(BUF_G) && BUF_G != '\\') ==> AFTER_BACKSLASH(__CPROVER_loop_entry(fp.start))) \
  __CPROVER_decreases(verif_len - OFF(fp.start))

/* void tokenizer_t::skipFrom(const char *delimiters):
   stops at NUL or at the first character that is neither in the set nor a
   backslash; everything passed over is in the set, a backslash, or the
   character after a backslash */
#define CONTRACT_tokenizer_skipFrom \
  __CPROVER_requires(TOK_PRE && CS_PRE(delimiters)) \
  __CPROVER_ensures(TOK_POST) \
  __CPROVER_ensures(*fp.start == 0 || (!IN_SET(*fp.start) && *fp.start != '\\')) \
  __CPROVER_ensures(TOK_SKIPPED ==> (BUF_G != 0 && \
        (IN_SET(BUF_G) || BUF_G == '\\' || AFTER_BACKSLASH(__CPROVER_old(fp.start))))) \
  TOK_ASSIGNS
#define LOOP_tokenizer_skipFrom_0 \
  TOK_ASSIGNS \
  __CPROVER_loop_invariant(TOK_INV) \
  __CPROVER_loop_invariant(TOK_SKIPPED_INV ==> (BUF_G != 0 && \
        (IN_SET(BUF_G) || BUF_G == '\\' || AFTER_BACKSLASH(__CPROVER_loop_entry(fp.start))))) \
  __CPROVER_decreases(verif_len - OFF(fp.start))

/* the loop of tokenizer_t::countSkippedLines() (from `const char *pos = ...`
   to the end of the function; the stack/file guards before it are STL and
   are dropped).  last_position_start stands for stack.back().position.start:
   any position of the buffer at or before the cursor.
   The cursor is not moved; the line start stays inside the buffer. */
#define CONTRACT_tokenizer_countSkippedLines_loop \
  __CPROVER_requires(BUF_OK && CUR_IN_BUF(fp.start) && \
        __CPROVER_pointer_in_range_dfcc(verif_buf, fp.lineStart, fp.start) && \
        __CPROVER_pointer_in_range_dfcc(verif_buf, last_position_start, fp.start) && \
        0 <= fp.line && fp.line <= TOK_LINE_MAX) \
  __CPROVER_ensures(fp.start == __CPROVER_old(fp.start)) \
  __CPROVER_ensures(IN_BUF(fp.lineStart)) \
  __CPROVER_ensures(fp.line >= __CPROVER_old(fp.line) && \
        (size_t) (fp.line - __CPROVER_old(fp.line)) <= OFF(fp.start) - OFF(last_position_start) + 1) \
  __CPROVER_assigns(fp.lineStart, fp.line)
#define LOOP_tokenizer_countSkippedLines_loop_0 \
  __CPROVER_assigns(pos, fp.lineStart, fp.line) \
  __CPROVER_loop_invariant(IN_BUF(pos) && OFF(pos) >= OFF(last_position_start) && OFF(pos) <= OFF(end) + 1) \
  __CPROVER_loop_invariant(IN_BUF(fp.lineStart)) \
  __CPROVER_loop_invariant(fp.line >= __CPROVER_loop_entry(fp.line) && \
        (size_t) (fp.line - __CPROVER_loop_entry(fp.line)) <= OFF(pos) - OFF(last_position_start)) \
  __CPROVER_decreases(verif_len + 1 - OFF(pos))

/* the end-pattern loop of tokenizer_t::getRawString() (between the comments
   `// Find end match` and `// Make sure we found delimiter`).
   end_size / end_c_str stand for end.size() / end.c_str() of the
   std::string `end` = ')' + delimiter + '"': at most VERIF_K characters,
   no interior NUL (it is built from a buffer span skipTo has passed over).
   Stops at NUL or at a full match with room for `fp.start += chars`. */
extern char verif_pat_arr[VERIF_K + 1];
#define PAT_NN1(k) ((k) >= end_size || verif_pat_arr[k] != 0)
#define PAT_NO_NUL \
  (PAT_NN1(0) && PAT_NN1(1) && PAT_NN1(2) && PAT_NN1(3) && PAT_NN1(4) && PAT_NN1(5) && PAT_NN1(6) && PAT_NN1(7) && \
   PAT_NN1(8) && PAT_NN1(9) && PAT_NN1(10) && PAT_NN1(11) && PAT_NN1(12) && PAT_NN1(13) && PAT_NN1(14) && PAT_NN1(15) && \
   PAT_NN1(16) && PAT_NN1(17) && PAT_NN1(18) && PAT_NN1(19) && PAT_NN1(20) && PAT_NN1(21) && PAT_NN1(22) && PAT_NN1(23) && \
   PAT_NN1(24) && PAT_NN1(25) && PAT_NN1(26) && PAT_NN1(27) && PAT_NN1(28) && PAT_NN1(29) && PAT_NN1(30) && PAT_NN1(31) && \
   PAT_NN1(32) && PAT_NN1(33) && PAT_NN1(34) && PAT_NN1(35) && PAT_NN1(36) && PAT_NN1(37) && PAT_NN1(38) && PAT_NN1(39) && \
   PAT_NN1(40) && PAT_NN1(41) && PAT_NN1(42) && PAT_NN1(43) && PAT_NN1(44) && PAT_NN1(45) && PAT_NN1(46) && PAT_NN1(47) && \
   PAT_NN1(48) && PAT_NN1(49) && PAT_NN1(50) && PAT_NN1(51) && PAT_NN1(52) && PAT_NN1(53) && PAT_NN1(54) && PAT_NN1(55) && \
   PAT_NN1(56) && PAT_NN1(57) && PAT_NN1(58) && PAT_NN1(59) && PAT_NN1(60) && PAT_NN1(61) && PAT_NN1(62) && PAT_NN1(63))
#define PAT_PRE \
  (end_size <= VERIF_K && __CPROVER_pointer_equals(end_c_str, verif_pat_arr) && \
   verif_pat_arr[end_size] == 0 && PAT_NO_NUL)
#define CONTRACT_tokenizer_getRawString_endloop \
  __CPROVER_requires(TOK_PRE && PAT_PRE) \
  __CPROVER_ensures(TOK_POST) \
  __CPROVER_ensures(*fp.start == 0 || OFF(fp.start) + end_size <= verif_len) \
  __CPROVER_ensures((*fp.start != 0 && verif_g < end_size) ==> fp.start[verif_g] == end_c_str[verif_g]) \
  TOK_ASSIGNS
#define LOOP_tokenizer_getRawString_endloop_0 \
  __CPROVER_assigns(mi, fp.start, fp.lineStart, fp.line) \
  __CPROVER_loop_invariant(TOK_INV) \
  __CPROVER_decreases(verif_len - OFF(fp.start))
#define LOOP_tokenizer_getRawString_endloop_1 \
  __CPROVER_assigns(mi) \
  __CPROVER_loop_invariant(0 <= mi && mi <= chars && OFF(fp.start) + (size_t) mi <= verif_len) \
  __CPROVER_loop_invariant((verif_g < (size_t) mi) ==> fp.start[verif_g] == m[verif_g]) \
  __CPROVER_decreases(chars - mi)

/* ---- scan-then-step fragments -------------------------------------------
   getString, getRawString, getCharToken and getHeader call skipTo("<c>\n")
   to find the closing character and then step over it with `++fp.start`.
   The fragment from that skipTo call to the first `++fp.start;` after it is
   cut out of each function (statements that do not touch the cursor - stack
   bookkeeping, diagnostics, std::string value extraction - are dropped by
   must-fire rules; popAndRewind() becomes a rewind to the ghost position
   verif_pushed, an earlier cursor inside the buffer).  skipTo is replaced by
   its contract (stops at NUL or at a character of the set).
   Obligation: at the end of the fragment, and on every early return, the
   cursor is still inside the buffer - i.e. the step is not taken from the
   terminating NUL. */
#ifndef C12_TOKENIZER_SCANSTEP
#define C12_TOKENIZER_SCANSTEP
extern const char *verif_pushed;
#define CONTRACT_tokenizer_scanstep(lit) \
  __CPROVER_requires(TOK_PRE && verif_cs == (lit) && verif_cs_len == sizeof(lit) - 1 && \
        __CPROVER_pointer_in_range_dfcc(verif_buf, verif_pushed, fp.start)) \
  __CPROVER_ensures(IN_BUF(fp.start)) \
  TOK_ASSIGNS
#endif
#endif
