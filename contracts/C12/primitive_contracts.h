/* C12 - cursor contracts for occa::primitive::load / loadBinary / loadHex
   (src/types/primitive.cpp) and the assumed contracts / models of what they
   call.  Only the cursor is specified here; the value and type of the
   literal are C14's business, so class primitive is reduced to its type tag. */
#ifndef C12_PRIMITIVE_CONTRACTS_H
#define C12_PRIMITIVE_CONTRACTS_H
#include <stdint.h>
#include "C12/lex_contracts.h"

/* ---- model of class primitive (type tag only) ---------------------------
   primitiveType_* are generated from the real header by the recipe. */
typedef struct primitive { int type; } primitive;
/* (macros, not functions: every extra function and every address-taken local
   multiplies the cost of dfcc's write-set instrumentation) */
#define PRIMITIVE_WITH_TYPE(t) ((primitive) { (t) })
#define primitive_ctor()         PRIMITIVE_WITH_TYPE(primitiveType_none)
#define primitive_of_bool(v)     PRIMITIVE_WITH_TYPE(primitiveType_bool_)
#define primitive_of_int8_t(v)   PRIMITIVE_WITH_TYPE(primitiveType_int8_)
#define primitive_of_uint8_t(v)  PRIMITIVE_WITH_TYPE(primitiveType_uint8_)
#define primitive_of_int16_t(v)  PRIMITIVE_WITH_TYPE(primitiveType_int16_)
#define primitive_of_uint16_t(v) PRIMITIVE_WITH_TYPE(primitiveType_uint16_)
#define primitive_of_int32_t(v)  PRIMITIVE_WITH_TYPE(primitiveType_int32_)
#define primitive_of_uint32_t(v) PRIMITIVE_WITH_TYPE(primitiveType_uint32_)
#define primitive_of_int64_t(v)  PRIMITIVE_WITH_TYPE(primitiveType_int64_)
#define primitive_of_uint64_t(v) PRIMITIVE_WITH_TYPE(primitiveType_uint64_)
#define primitive_of_float(v)    PRIMITIVE_WITH_TYPE(primitiveType_float_)
#define primitive_of_double(v)   PRIMITIVE_WITH_TYPE(primitiveType_double_)
/* p.to<T>(): value conversion dropped, result has the type tag of T */
#define primitive_to_int32_t(p)  PRIMITIVE_WITH_TYPE(primitiveType_int32_)
#define primitive_to_uint32_t(p) PRIMITIVE_WITH_TYPE(primitiveType_uint32_)
#define primitive_to_int64_t(p)  PRIMITIVE_WITH_TYPE(primitiveType_int64_)
#define primitive_to_uint64_t(p) PRIMITIVE_WITH_TYPE(primitiveType_uint64_)

/* std::string(c0, n): the n bytes must be readable (and n must not be negative) */
#define STRING_RANGE_OK(s, n) \
  __CPROVER_assert((n) >= 0 && __CPROVER_r_ok((s), (size_t) (n)), \
                   "std::string(c0, c - c0): the range [c0, c) is a readable part of the buffer")
#define primitive_set_source(p, s, n) STRING_RANGE_OK(s, n)
#define primitive_set_source_lit(p, s) ((void) 0)
/* occa::parseInt / parseFloat / parseDouble(std::string(c0, n)): value uninterpreted */
uint64_t nondet_uint64_t(void); float nondet_float(void); double nondet_double(void);
#define occa_parseInt(s, n)    (STRING_RANGE_OK(s, n), nondet_uint64_t())
#define occa_parseFloat(s, n)  (STRING_RANGE_OK(s, n), nondet_float())
#define occa_parseDouble(s, n) (STRING_RANGE_OK(s, n), nondet_double())

/* ---- assumed libc contracts (replace only, never enforced) -------------- */
/* strlen: distance to the first NUL at or after s, which is inside the buffer */
#define CONTRACT_verif_strlen \
  __CPROVER_requires(IN_BUF(s)) \
  __CPROVER_ensures(OFF(s) + __CPROVER_return_value <= verif_len && s[__CPROVER_return_value] == 0) \
  __CPROVER_ensures((OFF(s) <= verif_g && verif_g < OFF(s) + __CPROVER_return_value) ==> BUF_G != 0) \
  __CPROVER_assigns()
/* strncmp(s, literal, n): s is NUL-terminated inside the buffer; result uninterpreted */
#define CONTRACT_verif_strncmp \
  __CPROVER_requires(IN_BUF(a)) \
  __CPROVER_assigns()

#define IS_BIN(ch) ((ch) == '0' || (ch) == '1')
/* (two reads of ch instead of six: every read of the symbolic buffer in a clause is costly) */
#define IS_HEX(ch) ((unsigned char) ((ch) - '0') <= 9 || (unsigned char) (((ch) | 0x20) - 'a') <= 5)
#define IS_NONE(p) (((p).type & primitiveType_none) != 0)

/* primitive primitive::loadBinary(const char *&c, const bool isNegative):
   passes over binary digits only, stops at the first other character;
   returns none exactly when nothing was consumed */
#define CONTRACT_primitive_loadBinary \
  __CPROVER_requires(CURSOR_PRE) \
  __CPROVER_ensures(CURSOR_POST) \
  __CPROVER_ensures(!IS_BIN(**c_)) \
  __CPROVER_ensures(CUR_SKIPPED ==> IS_BIN(BUF_G)) \
  __CPROVER_ensures(IS_NONE(__CPROVER_return_value) == (OFF(*c_) == OFF(__CPROVER_old(*c_)))) \
  __CPROVER_assigns(*c_)
#define LOOP_primitive_loadBinary_0 \
  __CPROVER_assigns(*c_, value_) \
  __CPROVER_loop_invariant(IN_BUF(*c_) && OFF(*c_) >= OFF(c0)) \
  __CPROVER_loop_invariant(SKIPPED(c0, *c_) ==> IS_BIN(BUF_G)) \
  __CPROVER_decreases(verif_len - OFF(*c_))

/* primitive primitive::loadHex(const char *&c, const bool isNegative) */
#define CONTRACT_primitive_loadHex \
  __CPROVER_requires(CURSOR_PRE) \
  __CPROVER_ensures(CURSOR_POST) \
  __CPROVER_ensures(!IS_HEX(**c_)) \
  __CPROVER_ensures(CUR_SKIPPED ==> IS_HEX(BUF_G)) \
  __CPROVER_ensures(IS_NONE(__CPROVER_return_value) == (OFF(*c_) == OFF(__CPROVER_old(*c_)))) \
  __CPROVER_assigns(*c_)
#define LOOP_primitive_loadHex_0 \
  __CPROVER_assigns(*c_, value_) \
  __CPROVER_loop_invariant(IN_BUF(*c_) && OFF(*c_) >= OFF(c0)) \
  __CPROVER_loop_invariant(SKIPPED(c0, *c_) ==> IS_HEX(BUF_G)) \
  __CPROVER_decreases(verif_len - OFF(*c_))

/* primitive primitive::load(const char *&c, const bool includeSign):
   for every string the cursor stays inside the buffer and does not move
   backwards; every passed-over byte is non-NUL.
   verif_load_entry is a ghost copy of the entry offset: the recursive call
   (exponent) is replaced by this same contract (induction) with the extra
   call-site obligation that it starts strictly after the caller's entry,
   so the measure verif_len - offset decreases and the recursion terminates. */
extern size_t verif_load_entry;
#define CONTRACT_primitive_load \
  __CPROVER_requires(CURSOR_PRE && WS_SET && verif_load_entry == OFF(*c_)) \
  __CPROVER_ensures(CURSOR_POST) \
  __CPROVER_ensures(CUR_SKIPPED ==> BUF_G != 0) \
  __CPROVER_assigns(*c_)
#define CONTRACT_primitive_load_rec \
  __CPROVER_requires(CURSOR_REF_OK && IN_BUF(*c_) && WS_SET) \
  __CPROVER_requires(OFF(*c_) > verif_load_entry) \
  __CPROVER_ensures(CURSOR_POST) \
  __CPROVER_ensures(CUR_SKIPPED ==> BUF_G != 0) \
  __CPROVER_assigns(*c_)
/* loop 0: digits and dots */
#define LOOP_primitive_load_0 \
  __CPROVER_assigns(*c_, digits, decimal) \
  __CPROVER_loop_invariant(IN_BUF(*c_) && OFF(*c_) >= OFF(c0)) \
  __CPROVER_loop_invariant(0 <= digits && (size_t) digits <= OFF(*c_) - OFF(c0) + 1) \
  __CPROVER_loop_invariant(IN_BUF(cDigits) && OFF(cDigits) >= OFF(c0) && OFF(cDigits) <= OFF(*c_)) \
  __CPROVER_loop_invariant(SKIPPED(c0, *c_) ==> BUF_G != 0) \
  __CPROVER_decreases(verif_len - OFF(*c_))
/* loop 1: suffixes L U F and the exponent */
#define LOOP_primitive_load_1 \
  __CPROVER_assigns(*c_, longs, unsigned_, float_, decimal) \
  __CPROVER_loop_invariant(IN_BUF(*c_) && OFF(*c_) >= OFF(c0)) \
  __CPROVER_loop_invariant(0 <= longs && (size_t) longs <= OFF(*c_) - OFF(c0)) \
  __CPROVER_loop_invariant(IN_BUF(cDigits) && IN_BUF(cSuffix) && OFF(cDigits) >= OFF(c0) && OFF(cDigits) <= OFF(cSuffix) && OFF(cSuffix) <= OFF(*c_)) \
  __CPROVER_loop_invariant(SKIPPED(c0, *c_) ==> BUF_G != 0) \
  __CPROVER_decreases(verif_len - OFF(*c_))
#endif
