/* C12 - contracts for every function of src/occa/internal/utils/lex.cpp */
#ifndef C12_LEX_CONTRACTS_H
#define C12_LEX_CONTRACTS_H
#include "C12/c12_spec.h"

/* ======================================================================
   lex.cpp  (reference parameter `const char *&c` becomes `const char **c_`,
   the body sees `c` through `#define c (*c_)`)
   ====================================================================== */
#define CURSOR_PRE  (BUF_FRESH && __CPROVER_is_fresh(c_, sizeof(*c_)) && CUR_IN_BUF(*c_))
/* the cursor stays inside the buffer and never moves backwards */
#define CURSOR_POST (IN_BUF(*c_) && OFF(*c_) >= OFF(__CPROVER_old(*c_)))
#define CURSOR_INV  (IN_BUF(*c_) && OFF(*c_) >= OFF(__CPROVER_loop_entry(*c_)))
#define CUR_SKIPPED      SKIPPED(__CPROVER_old(*c_), *c_)
#define CUR_SKIPPED_INV  SKIPPED(__CPROVER_loop_entry(*c_), *c_)
#define BUF_G (verif_buf[verif_g])
#define IS_WS(ch) ((ch) == ' ' || (ch) == '\t' || (ch) == '\r' || (ch) == '\n' || (ch) == '\v' || (ch) == '\f')
#define WS_SET (verif_cs == lex_whitespaceCharset && verif_cs_len == 6)

/* bool inCharset(const char c, const char *charset) */
#define CONTRACT_lex_inCharset \
  __CPROVER_requires(CS_FRESH(charset)) \
  __CPROVER_ensures(__CPROVER_return_value ==> c != 0) \
  __CPROVER_ensures(CS_EXACT ==> (__CPROVER_return_value == CS_MEMBER(c))) \
  __CPROVER_assigns()
#define LOOP_lex_inCharset_0 \
  __CPROVER_assigns(charset) \
  __CPROVER_loop_invariant(__CPROVER_same_object(charset, verif_cs) && OFF(charset) <= verif_cs_len) \
  __CPROVER_loop_invariant(CS_EXACT ==> !CS_MEMBER_BELOW(c, OFF(charset))) \
  __CPROVER_decreases(verif_cs_len - OFF(charset))

/* void skipTo(const char *&c, const char delimiter):
   stops at NUL or at the first occurrence of delimiter */
#define CONTRACT_lex_skipTo_c \
  __CPROVER_requires(CURSOR_PRE) \
  __CPROVER_ensures(CURSOR_POST) \
  __CPROVER_ensures(**c_ == 0 || **c_ == delimiter) \
  __CPROVER_ensures(CUR_SKIPPED ==> (BUF_G != 0 && BUF_G != delimiter)) \
  __CPROVER_assigns(*c_)
#define LOOP_lex_skipTo_c_0 \
  __CPROVER_assigns(*c_) \
  __CPROVER_loop_invariant(CURSOR_INV) \
  __CPROVER_loop_invariant(CUR_SKIPPED_INV ==> (BUF_G != 0 && BUF_G != delimiter)) \
  __CPROVER_decreases(verif_len - OFF(*c_))

/* void skipTo(const char *&c, const char delimiter, const char escapeChar):
   stops at NUL or at delimiter; a delimiter that was passed over directly
   follows an escape character (when delimiter != escapeChar) */
#define ESC_SKIP_OK(entry, isdelim) \
  ((isdelim) ==> ((escapeChar != 0) && verif_g > OFF(entry) && verif_buf[verif_g - 1] == escapeChar))
#define CONTRACT_lex_skipTo_ce \
  __CPROVER_requires(CURSOR_PRE) \
  __CPROVER_ensures(CURSOR_POST) \
  __CPROVER_ensures(**c_ == 0 || **c_ == delimiter) \
  __CPROVER_ensures(CUR_SKIPPED ==> BUF_G != 0) \
  __CPROVER_ensures(CUR_SKIPPED ==> ESC_SKIP_OK(__CPROVER_old(*c_), \
        BUF_G == delimiter && !(escapeChar != 0 && delimiter == escapeChar))) \
  __CPROVER_assigns(*c_)
#define LOOP_lex_skipTo_ce_0 \
  __CPROVER_assigns(*c_) \
  __CPROVER_loop_invariant(CURSOR_INV) \
  __CPROVER_loop_invariant(CUR_SKIPPED_INV ==> BUF_G != 0) \
  __CPROVER_loop_invariant(CUR_SKIPPED_INV ==> ESC_SKIP_OK(__CPROVER_loop_entry(*c_), \
        BUF_G == delimiter && !(escapeChar != 0 && delimiter == escapeChar))) \
  __CPROVER_decreases(verif_len - OFF(*c_))

/* void skipTo(const char *&c, const char *delimiters):
   stops at NUL or at the first character that is in the set */
#define CONTRACT_lex_skipTo_s \
  __CPROVER_requires(CURSOR_PRE && CS_FRESH(delimiters)) \
  __CPROVER_ensures(CURSOR_POST) \
  __CPROVER_ensures(**c_ == 0 || !CS_EXACT || CS_MEMBER(**c_)) \
  __CPROVER_ensures(CUR_SKIPPED ==> (BUF_G != 0 && (CS_EXACT ==> !CS_MEMBER(BUF_G)))) \
  __CPROVER_assigns(*c_)
#define LOOP_lex_skipTo_s_0 \
  __CPROVER_assigns(*c_) \
  __CPROVER_loop_invariant(CURSOR_INV) \
  __CPROVER_loop_invariant(CUR_SKIPPED_INV ==> (BUF_G != 0 && (CS_EXACT ==> !CS_MEMBER(BUF_G)))) \
  __CPROVER_decreases(verif_len - OFF(*c_))

/* void skipTo(const char *&c, const char *delimiters, const char escapeChar) */
#define CONTRACT_lex_skipTo_se \
  __CPROVER_requires(CURSOR_PRE && CS_FRESH(delimiters)) \
  __CPROVER_ensures(CURSOR_POST) \
  __CPROVER_ensures(**c_ == 0 || !CS_EXACT || CS_MEMBER(**c_)) \
  __CPROVER_ensures(CUR_SKIPPED ==> BUF_G != 0) \
  __CPROVER_ensures(CUR_SKIPPED ==> ESC_SKIP_OK(__CPROVER_old(*c_), \
        CS_EXACT && CS_MEMBER(BUF_G) && !(escapeChar != 0 && BUF_G == escapeChar))) \
  __CPROVER_assigns(*c_)
#define LOOP_lex_skipTo_se_0 \
  __CPROVER_assigns(*c_) \
  __CPROVER_loop_invariant(CURSOR_INV) \
  __CPROVER_loop_invariant(CUR_SKIPPED_INV ==> BUF_G != 0) \
  __CPROVER_loop_invariant(CUR_SKIPPED_INV ==> ESC_SKIP_OK(__CPROVER_loop_entry(*c_), \
        CS_EXACT && CS_MEMBER(BUF_G) && !(escapeChar != 0 && BUF_G == escapeChar))) \
  __CPROVER_decreases(verif_len - OFF(*c_))

/* void skipFrom(const char *&c, const char *delimiters):
   stops at NUL or at the first character that is NOT in the set */
#define CONTRACT_lex_skipFrom \
  __CPROVER_requires(CURSOR_PRE && CS_FRESH(delimiters)) \
  __CPROVER_ensures(CURSOR_POST) \
  __CPROVER_ensures(**c_ == 0 || !CS_EXACT || !CS_MEMBER(**c_)) \
  __CPROVER_ensures(CUR_SKIPPED ==> (BUF_G != 0 && (CS_EXACT ==> CS_MEMBER(BUF_G)))) \
  __CPROVER_assigns(*c_)
#define LOOP_lex_skipFrom_0 \
  __CPROVER_assigns(*c_) \
  __CPROVER_loop_invariant(CURSOR_INV) \
  __CPROVER_loop_invariant(CUR_SKIPPED_INV ==> (BUF_G != 0 && (CS_EXACT ==> CS_MEMBER(BUF_G)))) \
  __CPROVER_decreases(verif_len - OFF(*c_))

/* bool isWhitespace(const char c): the six C whitespace characters */
#define CONTRACT_lex_isWhitespace \
  __CPROVER_requires(WS_SET) \
  __CPROVER_ensures(__CPROVER_return_value == IS_WS(c)) \
  __CPROVER_assigns()

/* void skipWhitespace(const char *&c) */
#define CONTRACT_lex_skipWhitespace \
  __CPROVER_requires(CURSOR_PRE && WS_SET) \
  __CPROVER_ensures(CURSOR_POST) \
  __CPROVER_ensures(**c_ == 0 || !IS_WS(**c_)) \
  __CPROVER_ensures(CUR_SKIPPED ==> IS_WS(BUF_G)) \
  __CPROVER_assigns(*c_)

/* void skipToWhitespace(const char *&c) */
#define CONTRACT_lex_skipToWhitespace \
  __CPROVER_requires(CURSOR_PRE && WS_SET) \
  __CPROVER_ensures(CURSOR_POST) \
  __CPROVER_ensures(**c_ == 0 || IS_WS(**c_)) \
  __CPROVER_ensures(CUR_SKIPPED ==> (BUF_G != 0 && !IS_WS(BUF_G))) \
  __CPROVER_assigns(*c_)

#endif
