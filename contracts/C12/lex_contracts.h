/* C12 - contracts for every function of src/occa/internal/utils/lex.cpp */
#ifndef C12_LEX_CONTRACTS_H
#define C12_LEX_CONTRACTS_H
#include "C12/c12_spec.h"

/* ======================================================================
   lex.cpp  (reference parameter `const char *&c` becomes `const char **c_`,
   the body sees `c` through `#define c (*c_)`)
   ====================================================================== */
/* c_ is the address of the caller's cursor variable, outside the buffer */
#define CURSOR_REF_OK (__CPROVER_w_ok(c_, sizeof(*c_)) && !__CPROVER_same_object(c_, verif_buf))
#define CURSOR_PRE  (BUF_OK && CURSOR_REF_OK && CUR_IN_BUF(*c_))
/* the cursor stays inside the buffer and never moves backwards.
   (CUR_IN_BUF = pointer_in_range_dfcc says the same as IN_BUF; it is there
   for the callers that see this contract instead of the body: a pointer that
   is havocked and then merely ASSUMED to lie in the buffer is not tracked by
   CBMC's points-to analysis - reading through it returns arbitrary bytes -
   whereas the pointer predicate assigns it.) */
#define CURSOR_POST (CUR_IN_BUF(*c_) && IN_BUF(*c_) && OFF(*c_) >= OFF(__CPROVER_old(*c_)))
#define CURSOR_INV  (IN_BUF(*c_) && OFF(*c_) >= OFF(__CPROVER_loop_entry(*c_)))
#define CUR_SKIPPED      SKIPPED(__CPROVER_old(*c_), *c_)
#define CUR_SKIPPED_INV  SKIPPED(__CPROVER_loop_entry(*c_), *c_)
#define IS_WS(ch) ((ch) == ' ' || (ch) == '\t' || (ch) == '\r' || (ch) == '\n' || (ch) == '\v' || (ch) == '\f')
/* The membership table of the six whitespace characters, entry by entry.
   isWhitespace / skipWhitespace / skipToWhitespace do not mention the ghost
   table in their contracts (and no real code can read a ghost), so their
   contracts hold for every table as soon as they are proved for one: their
   harnesses install THIS table (verif_install_ws_table below) so that the
   table-based contracts of inCharset / skipFrom / skipTo they are checked
   against speak about whitespace.  That this table is the characteristic
   function of the real array lex::whitespaceCharset is group
   lex/whitespace-table. */
#define WS_TABLE \
  (!verif_member[0] && !verif_member[1] && !verif_member[2] && !verif_member[3] && !verif_member[4] && !verif_member[5] && !verif_member[6] && !verif_member[7] && \
   !verif_member[8] && verif_member[9] && verif_member[10] && verif_member[11] && verif_member[12] && verif_member[13] && !verif_member[14] && !verif_member[15] && \
   !verif_member[16] && !verif_member[17] && !verif_member[18] && !verif_member[19] && !verif_member[20] && !verif_member[21] && !verif_member[22] && !verif_member[23] && \
   !verif_member[24] && !verif_member[25] && !verif_member[26] && !verif_member[27] && !verif_member[28] && !verif_member[29] && !verif_member[30] && !verif_member[31] && \
   verif_member[32] && !verif_member[33] && !verif_member[34] && !verif_member[35] && !verif_member[36] && !verif_member[37] && !verif_member[38] && !verif_member[39] && \
   !verif_member[40] && !verif_member[41] && !verif_member[42] && !verif_member[43] && !verif_member[44] && !verif_member[45] && !verif_member[46] && !verif_member[47] && \
   !verif_member[48] && !verif_member[49] && !verif_member[50] && !verif_member[51] && !verif_member[52] && !verif_member[53] && !verif_member[54] && !verif_member[55] && \
   !verif_member[56] && !verif_member[57] && !verif_member[58] && !verif_member[59] && !verif_member[60] && !verif_member[61] && !verif_member[62] && !verif_member[63] && \
   !verif_member[64] && !verif_member[65] && !verif_member[66] && !verif_member[67] && !verif_member[68] && !verif_member[69] && !verif_member[70] && !verif_member[71] && \
   !verif_member[72] && !verif_member[73] && !verif_member[74] && !verif_member[75] && !verif_member[76] && !verif_member[77] && !verif_member[78] && !verif_member[79] && \
   !verif_member[80] && !verif_member[81] && !verif_member[82] && !verif_member[83] && !verif_member[84] && !verif_member[85] && !verif_member[86] && !verif_member[87] && \
   !verif_member[88] && !verif_member[89] && !verif_member[90] && !verif_member[91] && !verif_member[92] && !verif_member[93] && !verif_member[94] && !verif_member[95] && \
   !verif_member[96] && !verif_member[97] && !verif_member[98] && !verif_member[99] && !verif_member[100] && !verif_member[101] && !verif_member[102] && !verif_member[103] && \
   !verif_member[104] && !verif_member[105] && !verif_member[106] && !verif_member[107] && !verif_member[108] && !verif_member[109] && !verif_member[110] && !verif_member[111] && \
   !verif_member[112] && !verif_member[113] && !verif_member[114] && !verif_member[115] && !verif_member[116] && !verif_member[117] && !verif_member[118] && !verif_member[119] && \
   !verif_member[120] && !verif_member[121] && !verif_member[122] && !verif_member[123] && !verif_member[124] && !verif_member[125] && !verif_member[126] && !verif_member[127] && \
   !verif_member[128] && !verif_member[129] && !verif_member[130] && !verif_member[131] && !verif_member[132] && !verif_member[133] && !verif_member[134] && !verif_member[135] && \
   !verif_member[136] && !verif_member[137] && !verif_member[138] && !verif_member[139] && !verif_member[140] && !verif_member[141] && !verif_member[142] && !verif_member[143] && \
   !verif_member[144] && !verif_member[145] && !verif_member[146] && !verif_member[147] && !verif_member[148] && !verif_member[149] && !verif_member[150] && !verif_member[151] && \
   !verif_member[152] && !verif_member[153] && !verif_member[154] && !verif_member[155] && !verif_member[156] && !verif_member[157] && !verif_member[158] && !verif_member[159] && \
   !verif_member[160] && !verif_member[161] && !verif_member[162] && !verif_member[163] && !verif_member[164] && !verif_member[165] && !verif_member[166] && !verif_member[167] && \
   !verif_member[168] && !verif_member[169] && !verif_member[170] && !verif_member[171] && !verif_member[172] && !verif_member[173] && !verif_member[174] && !verif_member[175] && \
   !verif_member[176] && !verif_member[177] && !verif_member[178] && !verif_member[179] && !verif_member[180] && !verif_member[181] && !verif_member[182] && !verif_member[183] && \
   !verif_member[184] && !verif_member[185] && !verif_member[186] && !verif_member[187] && !verif_member[188] && !verif_member[189] && !verif_member[190] && !verif_member[191] && \
   !verif_member[192] && !verif_member[193] && !verif_member[194] && !verif_member[195] && !verif_member[196] && !verif_member[197] && !verif_member[198] && !verif_member[199] && \
   !verif_member[200] && !verif_member[201] && !verif_member[202] && !verif_member[203] && !verif_member[204] && !verif_member[205] && !verif_member[206] && !verif_member[207] && \
   !verif_member[208] && !verif_member[209] && !verif_member[210] && !verif_member[211] && !verif_member[212] && !verif_member[213] && !verif_member[214] && !verif_member[215] && \
   !verif_member[216] && !verif_member[217] && !verif_member[218] && !verif_member[219] && !verif_member[220] && !verif_member[221] && !verif_member[222] && !verif_member[223] && \
   !verif_member[224] && !verif_member[225] && !verif_member[226] && !verif_member[227] && !verif_member[228] && !verif_member[229] && !verif_member[230] && !verif_member[231] && \
   !verif_member[232] && !verif_member[233] && !verif_member[234] && !verif_member[235] && !verif_member[236] && !verif_member[237] && !verif_member[238] && !verif_member[239] && \
   !verif_member[240] && !verif_member[241] && !verif_member[242] && !verif_member[243] && !verif_member[244] && !verif_member[245] && !verif_member[246] && !verif_member[247] && \
   !verif_member[248] && !verif_member[249] && !verif_member[250] && !verif_member[251] && !verif_member[252] && !verif_member[253] && !verif_member[254] && !verif_member[255])
#define WS_SET (verif_cs == lex_whitespaceCharset && verif_cs_len == 6)
#define INSTALL_WS_TABLE do { \
    __CPROVER_array_set(verif_member, (_Bool) 0); \
    verif_member[' '] = 1; verif_member['\t'] = 1; verif_member['\r'] = 1; \
    verif_member['\n'] = 1; verif_member['\v'] = 1; verif_member['\f'] = 1; } while (0)

/* bool inCharset(const char c, const char *charset) */
#ifdef C12_ANYSET
/* memory safety + termination for a set of any length */
#define CONTRACT_lex_inCharset \
  __CPROVER_requires(CS_FRESH_ANY(charset)) \
  __CPROVER_ensures(__CPROVER_return_value ==> c != 0) \
  __CPROVER_assigns()
#define LOOP_lex_inCharset_0 \
  __CPROVER_assigns(charset) \
  __CPROVER_loop_invariant(__CPROVER_same_object(charset, verif_cs) && OFF(charset) <= verif_cs_len) \
  __CPROVER_decreases(verif_cs_len - OFF(charset))
#else
/* for a set of at most VERIF_K characters whose membership table is
   verif_member: the result is the table entry; and (where the link is not
   compiled out) the table entry is exact membership in the string */
#ifdef C12_LINK_ASSUMED
#define INCHARSET_FLAT_POST
#define INCHARSET_FLAT_INV
#else
#define INCHARSET_FLAT_POST __CPROVER_ensures(__CPROVER_return_value == CS_MEMBER(c))
#define INCHARSET_FLAT_INV  __CPROVER_loop_invariant(!CS_MEMBER_BELOW(c, OFF(charset)))
#endif
#define CONTRACT_lex_inCharset \
  __CPROVER_requires(CS_PRE(charset) && CS_LINK(c)) \
  __CPROVER_ensures(__CPROVER_return_value == (c != 0 && IN_SET(c))) \
  INCHARSET_FLAT_POST \
  __CPROVER_assigns()
#define LOOP_lex_inCharset_0 \
  __CPROVER_assigns(charset) \
  __CPROVER_loop_invariant(__CPROVER_same_object(charset, verif_cs) && OFF(charset) <= verif_cs_len) \
  INCHARSET_FLAT_INV \
  __CPROVER_decreases(verif_cs_len - OFF(charset))
#endif

/* void skipTo(const char *&c, const char delimiter):
   stops at NUL or at the first occurrence of delimiter */
#define CONTRACT_lex_skipTo_c \
  __CPROVER_requires(CURSOR_PRE) \
  __CPROVER_ensures(CURSOR_POST) \
  __CPROVER_ensures(**c_ == 0 || **c_ == delimiter) \
  __CPROVER_ensures(CUR_SKIPPED ==> (BUF_G != 0 && BUF_G != delimiter)) \
  __CPROVER_assigns(*c_)
#define LOOP_lex_skipTo_c_0 \
  __CPROVER_assigns(*c_) \
  __CPROVER_loop_invariant(CURSOR_INV) \
  __CPROVER_loop_invariant(CUR_SKIPPED_INV ==> (BUF_G != 0 && BUF_G != delimiter)) \
  __CPROVER_decreases(verif_len - OFF(*c_))

/* void skipTo(const char *&c, const char delimiter, const char escapeChar):
   stops at NUL or at delimiter; a delimiter that was passed over directly
   follows an escape character (when delimiter != escapeChar) */
#define ESC_SKIP_OK(entry, isdelim) \
  ((isdelim) ==> ((escapeChar != 0) && verif_g > OFF(entry) && BUF_GP == escapeChar))
#define CONTRACT_lex_skipTo_ce \
  __CPROVER_requires(CURSOR_PRE) \
  __CPROVER_ensures(CURSOR_POST) \
  __CPROVER_ensures(**c_ == 0 || **c_ == delimiter) \
  __CPROVER_ensures(CUR_SKIPPED ==> BUF_G != 0) \
  __CPROVER_ensures(CUR_SKIPPED ==> ESC_SKIP_OK(__CPROVER_old(*c_), \
        BUF_G == delimiter && !(escapeChar != 0 && delimiter == escapeChar))) \
  __CPROVER_assigns(*c_)
#define LOOP_lex_skipTo_ce_0 \
  __CPROVER_assigns(*c_) \
  __CPROVER_loop_invariant(CURSOR_INV) \
  __CPROVER_loop_invariant(CUR_SKIPPED_INV ==> BUF_G != 0) \
  __CPROVER_loop_invariant(CUR_SKIPPED_INV ==> ESC_SKIP_OK(__CPROVER_loop_entry(*c_), \
        BUF_G == delimiter && !(escapeChar != 0 && delimiter == escapeChar))) \
  __CPROVER_decreases(verif_len - OFF(*c_))

/* void skipTo(const char *&c, const char *delimiters):
   stops at NUL or at the first character that is in the set */
#define CONTRACT_lex_skipTo_s \
  __CPROVER_requires(CURSOR_PRE && CS_PRE(delimiters)) \
  __CPROVER_ensures(CURSOR_POST) \
  __CPROVER_ensures(**c_ == 0 || IN_SET(**c_)) \
  __CPROVER_ensures(CUR_SKIPPED ==> (BUF_G != 0 && !IN_SET(BUF_G))) \
  __CPROVER_assigns(*c_)
#define LOOP_lex_skipTo_s_0 \
  __CPROVER_assigns(*c_) \
  __CPROVER_loop_invariant(CURSOR_INV) \
  __CPROVER_loop_invariant(CUR_SKIPPED_INV ==> (BUF_G != 0 && !IN_SET(BUF_G))) \
  __CPROVER_decreases(verif_len - OFF(*c_))

/* void skipTo(const char *&c, const char *delimiters, const char escapeChar) */
#define CONTRACT_lex_skipTo_se \
  __CPROVER_requires(CURSOR_PRE && CS_PRE(delimiters)) \
  __CPROVER_ensures(CURSOR_POST) \
  __CPROVER_ensures(**c_ == 0 || IN_SET(**c_)) \
  __CPROVER_ensures(CUR_SKIPPED ==> BUF_G != 0) \
  __CPROVER_ensures(CUR_SKIPPED ==> ESC_SKIP_OK(__CPROVER_old(*c_), \
        IN_SET(BUF_G) && !(escapeChar != 0 && BUF_G == escapeChar))) \
  __CPROVER_assigns(*c_)
#define LOOP_lex_skipTo_se_0 \
  __CPROVER_assigns(*c_) \
  __CPROVER_loop_invariant(CURSOR_INV) \
  __CPROVER_loop_invariant(CUR_SKIPPED_INV ==> BUF_G != 0) \
  __CPROVER_loop_invariant(CUR_SKIPPED_INV ==> ESC_SKIP_OK(__CPROVER_loop_entry(*c_), \
        IN_SET(BUF_G) && !(escapeChar != 0 && BUF_G == escapeChar))) \
  __CPROVER_decreases(verif_len - OFF(*c_))

/* void skipFrom(const char *&c, const char *delimiters):
   stops at NUL or at the first character that is NOT in the set */
#define CONTRACT_lex_skipFrom \
  __CPROVER_requires(CURSOR_PRE && CS_PRE(delimiters)) \
  __CPROVER_ensures(CURSOR_POST) \
  __CPROVER_ensures(**c_ == 0 || !IN_SET(**c_)) \
  __CPROVER_ensures(CUR_SKIPPED ==> (BUF_G != 0 && IN_SET(BUF_G))) \
  __CPROVER_assigns(*c_)
#define LOOP_lex_skipFrom_0 \
  __CPROVER_assigns(*c_) \
  __CPROVER_loop_invariant(CURSOR_INV) \
  __CPROVER_loop_invariant(CUR_SKIPPED_INV ==> (BUF_G != 0 && IN_SET(BUF_G))) \
  __CPROVER_decreases(verif_len - OFF(*c_))

/* bool isWhitespace(const char c): the six C whitespace characters */
#define CONTRACT_lex_isWhitespace \
  __CPROVER_requires(WS_SET) \
  __CPROVER_ensures(__CPROVER_return_value == IS_WS(c)) \
  __CPROVER_assigns()

/* void skipWhitespace(const char *&c) */
#define CONTRACT_lex_skipWhitespace \
  __CPROVER_requires(CURSOR_PRE && WS_SET) \
  __CPROVER_ensures(CURSOR_POST) \
  __CPROVER_ensures(**c_ == 0 || !IS_WS(**c_)) \
  __CPROVER_ensures(CUR_SKIPPED ==> IS_WS(BUF_G)) \
  __CPROVER_assigns(*c_)

/* void skipToWhitespace(const char *&c) */
#define CONTRACT_lex_skipToWhitespace \
  __CPROVER_requires(CURSOR_PRE && WS_SET) \
  __CPROVER_ensures(CURSOR_POST) \
  __CPROVER_ensures(**c_ == 0 || IS_WS(**c_)) \
  __CPROVER_ensures(CUR_SKIPPED ==> (BUF_G != 0 && !IS_WS(BUF_G))) \
  __CPROVER_assigns(*c_)

#endif
