/* C12 - ghost state, spec macros and contracts (CBMC function/loop contracts)
   for the scanners of lex.cpp, the cursor loops of tokenizer_t and the
   cursor handling of primitive::load*.  Everything here is specification;
   the function bodies are extracted from the repository on every run and the
   contract macros below are attached to them by must-fire rewrite rules
   (recipes/C12.py).

   Ghost state (written by nobody but the harness / the contract's requires):
     verif_buf, verif_len : THE buffer: a heap object of exactly verif_len+1
                            bytes whose last byte is NUL.  All other bytes are
                            arbitrary - in particular further NULs may occur
                            anywhere before the end; every scanner must stop
                            at the first one it meets.
     verif_g              : an arbitrary index (universally quantified by
                            nondeterminism) used to state "for every skipped
                            position ..." without quantifiers.
     verif_gv, verif_gp   : ghost copies of the bytes at verif_g and at
                            verif_g - 1, bound once in the precondition
                            (GHOST_BOUND).  The buffer is never written (it
                            is in no assigns clause), so the copies stay
                            valid; stating the clauses over the copies keeps
                            the number of reads of the symbolic-size buffer -
                            the dominating cost in the solver - small.
     verif_cs, verif_cs_len : THE character set passed to inCharset / the
                            set-taking scanners: verif_cs_len+1 readable
                            bytes, NUL at verif_cs_len.  The harness points
                            verif_cs either at the ghost array verif_cs_arr
                            (arbitrary content = any set of <= VERIF_K
                            characters) or at the real lex::whitespaceCharset.
                            Only inCharset ever reads a set; its memory
                            safety for a set of ANY length (fresh object of
                            exactly strlen+1 bytes, interior NULs allowed) is
                            a separate group (C12_ANYSET).
     verif_member[256]    : ghost table "ch is in THE set".  The scanners'
                            contracts speak about the set only through this
                            table (one array lookup instead of a 64-way
                            disjunction).  That the table IS the
                            characteristic function of the string verif_cs
                            is the hypothesis CS_LINK(c) of inCharset's
                            contract; it is used (and needed) only where
                            inCharset itself is verified; in the callers'
                            groups, where inCharset is replaced by its
                            contract, C12_LINK_ASSUMED compiles the
                            hypothesis out: there the table is an arbitrary
                            function, i.e. the callers are proved for every
                            table, in particular for the characteristic
                            function of the set (which nobody modifies:
                            every contract here has an assigns clause).
   Membership is stated exactly (quantifier free) for sets of at most
   VERIF_K = 64 characters without interior NUL; the longest set literal in
   libocca (charcodes::identifier) has 63.  */
#ifndef C12_SPEC_H
#define C12_SPEC_H
#include <stddef.h>
#include <stdbool.h>
#include <limits.h>
#include <stdlib.h>

#define VERIF_MAXLEN 100000000ul
#define VERIF_K 64

extern const char *verif_buf;
extern size_t verif_len;
extern size_t verif_g;
extern char verif_gv, verif_gp;
extern char verif_cs_arr[VERIF_K + 1];
extern const char *verif_cs;
extern _Bool verif_member[256];
extern size_t verif_cs_len;

#define OFF(p) ((size_t) __CPROVER_POINTER_OFFSET(p))

/* ---- the buffer --------------------------------------------------------- */
#define GHOST_BOUND \
  ((verif_g >= verif_len || verif_gv == verif_buf[verif_g]) && \
   (verif_g == 0 || verif_g > verif_len || verif_gp == verif_buf[verif_g - 1]))
/* The harness allocates the buffer (malloc(verif_len + 1), arbitrary content)
   and the storage of a by-reference cursor; the contracts only CHECK them
   (r_ok / w_ok, exact object size, separation).  __CPROVER_is_fresh would let
   the contract allocate them itself, but every is_fresh - above all the ones
   re-checked at each call that is replaced by a contract - costs a multiple
   of everything else in dfcc's instrumentation (measured: primitive::load
   10.8 M clauses with is_fresh, 2.7 M without). */
#define BUF_OK \
  (verif_len <= VERIF_MAXLEN && __CPROVER_r_ok(verif_buf, verif_len + 1) && \
   OFF(verif_buf) == 0 && __CPROVER_OBJECT_SIZE(verif_buf) == verif_len + 1 && \
   verif_buf[verif_len] == 0 && GHOST_BOUND)
#define ALLOC_BUF \
  __CPROVER_assume(verif_len <= VERIF_MAXLEN); verif_buf = malloc(verif_len + 1)
/* the byte at position verif_g / verif_g - 1 */
#define BUF_G  verif_gv
#define BUF_GP verif_gp
/* cursor lvalue p points into the buffer (NUL position included) */
#define CUR_IN_BUF(p) __CPROVER_pointer_in_range_dfcc(verif_buf, p, verif_buf + verif_len)
#define IN_BUF(p) (__CPROVER_same_object(p, verif_buf) && OFF(p) <= verif_len)
/* "position verif_g was skipped": old cursor <= g < new cursor */
#define SKIPPED(oldp, newp) (OFF(oldp) <= verif_g && verif_g < OFF(newp))

/* ---- the character set -------------------------------------------------- */
/* (the parameter is bound to the ghost with pointer_equals: a plain
   `verif_cs == cs` assumption on a pointer is not tracked by CBMC's
   points-to analysis) */
#define CS_PRE(cs) \
  (verif_cs_len <= VERIF_K && __CPROVER_r_ok(verif_cs, verif_cs_len + 1) && \
   verif_cs[verif_cs_len] == 0 && __CPROVER_pointer_equals(cs, verif_cs))
/* any length, fresh object of exactly strlen+1 bytes (group C12_ANYSET) */
#define CS_FRESH_ANY(cs) \
  (verif_cs_len <= VERIF_MAXLEN && __CPROVER_is_fresh(verif_cs, verif_cs_len + 1) && \
   verif_cs[verif_cs_len] == 0 && __CPROVER_pointer_equals(cs, verif_cs))
#define CS_NN1(k) ((k) >= verif_cs_len || verif_cs[k] != 0)
/* the set is small and its only NUL is the terminator */
#define CS_EXACT (verif_cs_len <= VERIF_K && \
   !((!CS_NN1(0) || !CS_NN1(1) || !CS_NN1(2) || !CS_NN1(3) || !CS_NN1(4) || !CS_NN1(5) || !CS_NN1(6) || !CS_NN1(7)) || \
   (!CS_NN1(8) || !CS_NN1(9) || !CS_NN1(10) || !CS_NN1(11) || !CS_NN1(12) || !CS_NN1(13) || !CS_NN1(14) || !CS_NN1(15)) || \
   (!CS_NN1(16) || !CS_NN1(17) || !CS_NN1(18) || !CS_NN1(19) || !CS_NN1(20) || !CS_NN1(21) || !CS_NN1(22) || !CS_NN1(23)) || \
   (!CS_NN1(24) || !CS_NN1(25) || !CS_NN1(26) || !CS_NN1(27) || !CS_NN1(28) || !CS_NN1(29) || !CS_NN1(30) || !CS_NN1(31)) || \
   (!CS_NN1(32) || !CS_NN1(33) || !CS_NN1(34) || !CS_NN1(35) || !CS_NN1(36) || !CS_NN1(37) || !CS_NN1(38) || !CS_NN1(39)) || \
   (!CS_NN1(40) || !CS_NN1(41) || !CS_NN1(42) || !CS_NN1(43) || !CS_NN1(44) || !CS_NN1(45) || !CS_NN1(46) || !CS_NN1(47)) || \
   (!CS_NN1(48) || !CS_NN1(49) || !CS_NN1(50) || !CS_NN1(51) || !CS_NN1(52) || !CS_NN1(53) || !CS_NN1(54) || !CS_NN1(55)) || \
   (!CS_NN1(56) || !CS_NN1(57) || !CS_NN1(58) || !CS_NN1(59) || !CS_NN1(60) || !CS_NN1(61) || !CS_NN1(62) || !CS_NN1(63))))
#define CS_M1(ch, k, n) ((k) < (n) && (k) < verif_cs_len && verif_cs[k] == (ch))
/* ch occurs among the first n characters of the set */
#define CS_MEMBER_BELOW(ch, n) \
  ((CS_M1(ch, 0, n) || CS_M1(ch, 1, n) || CS_M1(ch, 2, n) || CS_M1(ch, 3, n) || CS_M1(ch, 4, n) || CS_M1(ch, 5, n) || CS_M1(ch, 6, n) || CS_M1(ch, 7, n)) || \
   (CS_M1(ch, 8, n) || CS_M1(ch, 9, n) || CS_M1(ch, 10, n) || CS_M1(ch, 11, n) || CS_M1(ch, 12, n) || CS_M1(ch, 13, n) || CS_M1(ch, 14, n) || CS_M1(ch, 15, n)) || \
   (CS_M1(ch, 16, n) || CS_M1(ch, 17, n) || CS_M1(ch, 18, n) || CS_M1(ch, 19, n) || CS_M1(ch, 20, n) || CS_M1(ch, 21, n) || CS_M1(ch, 22, n) || CS_M1(ch, 23, n)) || \
   (CS_M1(ch, 24, n) || CS_M1(ch, 25, n) || CS_M1(ch, 26, n) || CS_M1(ch, 27, n) || CS_M1(ch, 28, n) || CS_M1(ch, 29, n) || CS_M1(ch, 30, n) || CS_M1(ch, 31, n)) || \
   (CS_M1(ch, 32, n) || CS_M1(ch, 33, n) || CS_M1(ch, 34, n) || CS_M1(ch, 35, n) || CS_M1(ch, 36, n) || CS_M1(ch, 37, n) || CS_M1(ch, 38, n) || CS_M1(ch, 39, n)) || \
   (CS_M1(ch, 40, n) || CS_M1(ch, 41, n) || CS_M1(ch, 42, n) || CS_M1(ch, 43, n) || CS_M1(ch, 44, n) || CS_M1(ch, 45, n) || CS_M1(ch, 46, n) || CS_M1(ch, 47, n)) || \
   (CS_M1(ch, 48, n) || CS_M1(ch, 49, n) || CS_M1(ch, 50, n) || CS_M1(ch, 51, n) || CS_M1(ch, 52, n) || CS_M1(ch, 53, n) || CS_M1(ch, 54, n) || CS_M1(ch, 55, n)) || \
   (CS_M1(ch, 56, n) || CS_M1(ch, 57, n) || CS_M1(ch, 58, n) || CS_M1(ch, 59, n) || CS_M1(ch, 60, n) || CS_M1(ch, 61, n) || CS_M1(ch, 62, n) || CS_M1(ch, 63, n)))
#define CS_MEMBER(ch) CS_MEMBER_BELOW(ch, verif_cs_len)
/* the ghost table */
#define IN_SET(ch) (verif_member[(unsigned char) (ch)] != 0)
#ifdef C12_LINK_ASSUMED
#define CS_LINK(ch) 1
#else
#define CS_LINK(ch) (CS_EXACT && IN_SET(ch) == CS_MEMBER(ch))
#endif

#endif
