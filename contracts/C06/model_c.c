/* C06 -- the C part of the trusted model (kept in C so that every helper can be hidden from
 * counterexample traces; the C++ front end accepts only one __CPROVER_HIDE label per unit). */
#ifndef VERIF_POOL
#define VERIF_POOL 48
#endif
#ifndef VERIF_STR_CAP
#define VERIF_STR_CAP 40
#endif
#define VERIF_WORDS ((VERIF_STR_CAP + 7) / 8)

/* Interning = the hash idealisation made executable: returns the index of the FIRST string
 * interned so far that equals (byte for byte) the argument; the argument is stored as well.
 * Equal strings -> equal index, distinct strings -> distinct indices.  Strings are kept packed
 * (length + bytes in 64-bit words) so that one comparison is a handful of word compares. */
struct verif_packed { unsigned long len; unsigned long w[VERIF_WORDS]; };
static struct verif_packed verif_pool[VERIF_POOL];
static int verif_pool_n = 0;

int verif_intern(const char *buf, unsigned long len) {
  __CPROVER_HIDE:;
  __CPROVER_assert(verif_pool_n < VERIF_POOL, "model: interning pool capacity");
  __CPROVER_assert(len <= VERIF_STR_CAP, "model: interned string capacity");
  struct verif_packed e;
  e.len = len;
  for (int j = 0; j < VERIF_WORDS; ++j) e.w[j] = 0;
  for (int i = 0; i < VERIF_STR_CAP; ++i)
    if ((unsigned long) i < len) e.w[i >> 3] |= ((unsigned long) (unsigned char) buf[i]) << ((i & 7) * 8);
  verif_pool[verif_pool_n] = e;
  int k = verif_pool_n;
  for (int i = verif_pool_n - 1; i >= 0; --i) {
    if (verif_pool[i].len == e.len) {     /* lengths are concrete in every harness: decided during symbolic execution */
      _Bool same = 1;
      for (int j = 0; j < VERIF_WORDS; ++j) same = same && (verif_pool[i].w[j] == e.w[j]);
      if (same) k = i;
    }
  }
  ++verif_pool_n;
  return k;
}

/* index of a property name in the table of the C++ part (-1: not a known property).
 * Lengths first (all concrete), so that only names of the same length are compared byte by byte. */
#define VERIF_MAXNAMES 32
int verif_name_index(const char *key, const char *const *names, int n) {
  __CPROVER_HIDE:;
  static int lens[VERIF_MAXNAMES];
  static int init = 0;
  __CPROVER_assert(n <= VERIF_MAXNAMES, "model: property table capacity");
  if (!init) {
    for (int p = 0; p < n; ++p) { int l = 0; while (names[p][l] != 0) ++l; lens[p] = l; }
    init = 1;
  }
  int kl = 0;
  while (key[kl] != 0) ++kl;
  for (int p = 0; p < n; ++p) {
    if (lens[p] == kl) {
      int i = 0;
      while (i < kl && key[i] == names[p][i]) ++i;
      if (i == kl) return p;
    }
  }
  return -1;
}
