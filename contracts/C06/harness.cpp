using namespace occa;

static const char *named[12] = { "compiler", "compiler_flags", "compiler_linker_flags", "compiler_shared_flags",
  "compiler_env_script", "compiler_language", "okl", "defines", "includes", "headers", "functions", "source" };
static const int named_idx[12] = { P_compiler, P_compiler_flags, P_compiler_linker_flags, P_compiler_shared_flags,
  P_compiler_env_script, P_compiler_language, P_okl, P_defines, P_includes, P_headers, P_functions, P_source };

static void any_configs() {
  for (int c = 0; c < 2; ++c)
    for (int p = 0; p < VERIF_NPROPS; ++p) {
      verif_value &v = verif_cfg[c][p];
      for (int i = 0; i < VERIF_VLEN; ++i) { v.s[i] = nondet_char(); __CPROVER_assume(v.s[i] != 0); }
    }
  /* "with the process environment held fixed": everything hashed that the property does not name is equal */
  for (int p = P_compiler_vendor; p <= P_link_occa; ++p) __CPROVER_assume(verif_veq(verif_cfg[0][p], verif_cfg[1][p]));
}

static void key_of(int c, hash_t &key) {
  VERIF_MODE_DEVICE md;
  device dev;
  dev.modeDevice = &md;
  json props(c, -1), kernelProps;
  hash_t sourceHash = occa::hash(verif_vstr(verif_cfg[c][P_source]));   /* = occa::hash(content) / hashFile() of the caller */
#ifdef VERIF_COMPOSE
  dev.setupKernelInfo(props, sourceHash, kernelProps, key);
#else
  /* quick tier: the per-mode key and the header key, composed as setupKernelInfo composes them */
  key = dev.hash() ^ md.kernelHash(props) ^ kernelHeaderHash(props) ^ sourceHash;
#endif
}

extern "C" void h_keys() {
  any_configs();
  hash_t k1, k2;
  key_of(0, k1);
  key_of(1, k2);
  const bool same_key = (k1 == k2);
  bool eq[12]; int ndiff = 0;
  for (int i = 0; i < 12; ++i) { eq[i] = verif_veq(verif_cfg[0][named_idx[i]], verif_cfg[1][named_idx[i]]); if (!eq[i]) ++ndiff; }
#ifndef CANARY
  __CPROVER_assert(k1.initialized && k2.initialized, "the cache key is an initialized hash");
  /* builds share a cached binary only if their build inputs are identical.  One obligation for the twelve named inputs
     (compiler, compiler_flags, compiler_linker_flags, compiler_shared_flags, compiler_env_script, compiler_language, okl,
     defines, includes, headers, functions, source): a counterexample costs tens of MB of trace, and a composition that
     fails for one pair of inputs fails for all of them; the replay names the inputs that differ. */
  if (same_key) __CPROVER_assert(ndiff == 0, "equal cache keys imply identical build inputs (all twelve named inputs)");
  /* special case stated separately: two configurations that differ in exactly one named input */
#define SENSITIVE(i, NAME) if (ndiff == 1 && !eq[i]) __CPROVER_assert(!same_key, "changing only " NAME " changes the cache key")
  SENSITIVE(0, "compiler"); SENSITIVE(1, "compiler_flags"); SENSITIVE(2, "compiler_linker_flags"); SENSITIVE(3, "compiler_shared_flags");
  SENSITIVE(4, "compiler_env_script"); SENSITIVE(5, "compiler_language"); SENSITIVE(6, "okl"); SENSITIVE(7, "defines");
  SENSITIVE(8, "includes"); SENSITIVE(9, "headers"); SENSITIVE(10, "functions"); SENSITIVE(11, "source");
  /* identical builds resolve to the same cache entry */
  if (ndiff == 0) __CPROVER_assert(same_key, "identical build inputs give identical cache keys");
#else
  __CPROVER_assert(!(same_key && ndiff == 0), "canary: equal keys of identical configurations are reachable");
#endif
}
