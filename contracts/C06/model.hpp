/* C06 -- trusted model (stubs) under which the real key-composition text is verified.
 *
 * 1. The hash idealisation, executable: "distinct byte strings hash to XOR-linearly
 *    independent values, equal strings to equal values".  occa::hash(const std::string&)
 *    interns its argument: the n-th call stores its string; the result is the one-hot
 *    256-bit value e_k where k is the FIRST stored string equal (byte for byte) to the
 *    argument.  Equal strings get the same bit, distinct strings distinct bits, so
 *    a ^ b ^ ... over such values is the symmetric difference of the string sets.
 * 2. occa::json: a node of one of two symbolic build configurations.  props[name] of a
 *    known property name is that configuration's value; its dump is a symbolic byte
 *    string (exactly VERIF_VLEN bytes, any non-zero values).  Any other name is the JSON null
 *    ("null"), as in the real operator[] const.
 * Included inside namespace occa, after the real hash_t members. */

#ifndef VERIF_VLEN
#define VERIF_VLEN 2
#endif
#ifndef VERIF_POOL
#define VERIF_POOL 48
#endif

enum { P_compiler, P_compiler_flags, P_compiler_linker_flags, P_compiler_shared_flags, P_compiler_env_script,
       P_compiler_language, P_okl, P_defines, P_includes, P_headers, P_functions,
       /* hashed by the code but not named by the property (held fixed = part of "process environment") */
       P_compiler_vendor, P_include_occa, P_link_occa,
       VERIF_NJSON,
       P_source = VERIF_NJSON,     /* the kernel source text: not a json property, hashed by the caller */
       VERIF_NPROPS };
static const char *verif_prop_name[VERIF_NJSON] = {
  "compiler", "compiler_flags", "compiler_linker_flags", "compiler_shared_flags", "compiler_env_script",
  "compiler_language", "okl", "defines", "includes", "headers", "functions",
  "compiler_vendor", "include_occa", "link_occa" };

struct verif_value { char s[VERIF_VLEN]; };   /* exactly VERIF_VLEN non-zero bytes: all string lengths stay concrete */
static verif_value verif_cfg[2][VERIF_NPROPS];

static bool verif_veq(const verif_value &a, const verif_value &b) {
  for (int i = 0; i < VERIF_VLEN; ++i) if (a.s[i] != b.s[i]) return false;
  return true;
}
static std::string verif_vstr(const verif_value &v) {
  std::string r;
  for (int i = 0; i < VERIF_VLEN; ++i) r += v.s[i];
  return r;
}
/* ---- hash idealisation (interning lives in contracts/C06/model_c.c) ---- */
hash_t hash(const std::string &str) {
  __CPROVER_HIDE:;
  const int k = verif_intern(str.c_str(), str.size());
  hash_t r;
  for (int w = 0; w < 8; ++w) r.h[w] = ((k >> 5) == w) ? (int) (1u << (k & 31)) : 0;
  r.initialized = true;
  return r;
}
hash_t hash(const char *c) { return hash(std::string(c)); }

/* ---- json ---- */
class json {
 public:
  int cfg;    /* 0 or 1 */
  int prop;   /* index of the property this node is, -1 = the whole property object, -2 = null */
  json() : cfg(0), prop(-2) {}
  json(int cfg_, int prop_) : cfg(cfg_), prop(prop_) {}
  json operator [] (const char *key) const {
    const int i = (prop == -1) ? verif_name_index(key, verif_prop_name, VERIF_NJSON) : -1;
    return json(cfg, i >= 0 ? i : -2);
  }
  json operator [] (const std::string &key) const { return (*this)[key.c_str()]; }
  void dumpToString(std::string &out) const {
    __CPROVER_assert(prop != -1, "model: the whole property object is never dumped");
    if (prop >= 0) out += verif_vstr(verif_cfg[cfg][prop]); else out += "null";
  }
  std::string dump(const int indent = 4) const { std::string out; dumpToString(out); return out; }
  std::string toString() const { return dump(); }
  hash_t hash() const;
};
