/* C13 harness: inductive step of the conditional-inclusion state machine.
   VERIF_DIR : 0 #if  1 #ifdef  2 #ifndef  3 #elif  4 #else  5 #endif  6 initial state
   VERIF_CASE: which class of R-related pre-states (the classes partition them). */
using namespace occa::lang;

enum { RD = ppStatus::reading, IG = ppStatus::ignoring, FI = ppStatus::foundIf,
       FE = ppStatus::foundElse, FN = ppStatus::finishedIf };

/* ---- representation relation R ------------------------------------------
   chain c[0..n] = statusStack ++ [status].  Valid(i) := c[i] is the BASE status
   (== reading: top level of a file or of an @directive body; nothing beneath it is
   ever read) or c[i] is a GROUP status over its saved parent c[i-1] and Valid(i-1).
   The invariant is Valid(n).  One directive reads/writes only c[n] and c[n-1], so the
   window (status, top of stack) decides the step; everything beneath is framed. */
static bool proper(int s) {        /* only the five documented bits; exactly one of reading / ignoring */
  return ((s & ~(RD | IG | FI | FE | FN)) == 0) && (((s & RD) != 0) != ((s & IG) != 0));
}
static bool is_base(int s) { return s == RD; }
static bool is_group(int s, int p) {
  if (!(s & FI) || !proper(s)) return false;
  if (!(is_base(p) || ((p & FI) && proper(p)))) return false;
  if ((p & IG) && !((s & IG) && (s & FN))) return false;   /* inside a skipped region: skipped, and no branch may still be taken */
  if ((s & RD) && (s & FN)) return false;                  /* finishedIf is only set on skipped branches */
  if ((s & FE) && !(s & (RD | FN))) return false;          /* after #else some branch has been taken */
  return true;
}
/* the C view of the innermost open group.  `taken` is normalised to true when the parent is
   inactive (C never evaluates conditions there, so the group can never become active) */
struct view_t { bool parentActive, taken, active, seenElse; };
static void alpha(int s, int p, view_t &v) {
  v.parentActive = (p & RD) != 0;
  v.active       = (s & RD) != 0;
  v.seenElse     = (s & FE) != 0;
  v.taken        = (s & (RD | FN)) != 0;
}

#ifndef VERIF_DIR
#define VERIF_DIR 0
#endif
#ifndef VERIF_CASE
#define VERIF_CASE 0
#endif

extern "C" void h_step() {
  preprocessor_t pp;
  identifierToken directive;

  /* ---- any R-related state ------------------------------------------------ */
  int s0 = nondet_int(), p0 = nondet_int(), q0 = nondet_int();
  int k0 = nondet_int();
  unsigned long below0 = nondet_ulong();
  __CPROVER_assume(0 <= k0 && k0 <= 2);
  __CPROVER_assume(below0 <= (1UL << 62));
  pp.status = s0;
  pp.statusStack.below = below0;
  pp.statusStack.k = k0;
  if (k0 == 1) { pp.statusStack.w[0] = p0; }
  if (k0 == 2) { pp.statusStack.w[0] = q0; pp.statusStack.w[1] = p0; }
  const bool base0 = is_base(s0);
  __CPROVER_assume(base0 || (k0 >= 1 && is_group(s0, p0)));          /* R */
  const bool open0 = !base0;
  view_t v; v.parentActive = v.taken = v.active = v.seenElse = false;
  if (open0) alpha(s0, p0, v);
  const bool active0 = (s0 & RD) != 0;
  int errors0 = nondet_int();
  __CPROVER_assume(0 <= errors0 && errors0 < 1000000);
  pp.errors = errors0;

  /* ---- outcomes of the opaque helpers -------------------------------------- */
  in_parse_ok = nondet_bool(); in_expr_empty = nondet_bool(); in_can_eval = nondet_bool();
  in_cond = nondet_bool(); in_defined = nondet_bool();
  in_tok_kind = nondet_int(); in_tok_type = nondet_int();
  __CPROVER_assume(0 <= in_tok_kind && in_tok_kind <= 3);
  if (in_tok_kind == 1) __CPROVER_assume(in_tok_type == tokenType::newline);
  if (in_tok_kind == 2) __CPROVER_assume(in_tok_type == tokenType::identifier);
  if (in_tok_kind == 3) __CPROVER_assume(in_tok_type != 0 && (in_tok_type & (tokenType::newline | tokenType::identifier)) == 0);
  g_expand = g_parse = g_eval = g_srctok = g_macro = g_skip = g_warnline = g_lines = g_reported = 0;

  /* condition as C sees it */
  bool ok, c;
  if (VERIF_DIR == 0 || VERIF_DIR == 3) { ok = in_parse_ok && !in_expr_empty && in_can_eval; c = in_cond; }
  else { ok = (in_tok_kind == 2); c = (VERIF_DIR == 2) ? !in_defined : in_defined; }
  const bool elif_evaluates = open0 && !v.seenElse && v.parentActive && !v.taken;

  /* ---- case split (classes of pre-states; together they cover R) ------------ */
#if VERIF_DIR <= 2
  __CPROVER_assume((VERIF_CASE == 0) == active0);
#elif VERIF_DIR == 3
  __CPROVER_assume(VERIF_CASE == (!open0 ? 0 : v.seenElse ? 1 : !elif_evaluates ? 2 : 3));
#elif VERIF_DIR == 4
  __CPROVER_assume(VERIF_CASE == (!open0 ? 0 : v.seenElse ? 1 : 2));
#else
  __CPROVER_assume(VERIF_CASE == (!open0 ? 0 : 1));
#endif

  /* ---- one directive, real code --------------------------------------------- */
#if VERIF_DIR == 0
  pp.processIf(directive);
#elif VERIF_DIR == 1
  pp.processIfdef(directive);
#elif VERIF_DIR == 2
  pp.processIfndef(directive);
#elif VERIF_DIR == 3
  pp.processElif(directive);
#elif VERIF_DIR == 4
  pp.processElse(directive);
#else
  pp.processEndif(directive);
#endif

  const int s1 = pp.status;
  const int k1 = pp.statusStack.k;
  const int evals = g_expand + g_parse + g_eval + g_srctok + g_macro;
  const int reported = (pp.errors - errors0) + g_reported;
  __CPROVER_assert(pp.statusStack.below == below0, "frame: statuses beneath the two innermost groups are untouched");
  __CPROVER_assert(pp.errors >= errors0, "error counter never decreases");
  __CPROVER_assert(g_lines <= 1, "a directive never consumes more than its own source line");

#if VERIF_DIR <= 2
  /* ---- #if / #ifdef / #ifndef ------------------------------------------------ */
  __CPROVER_assert(k1 == k0 + 1, "#if/#ifdef/#ifndef: stack depth +1");
  if (k1 == k0 + 1) {
    __CPROVER_assert(pp.statusStack.w[k0] == s0, "#if/#ifdef/#ifndef: the enclosing status is saved on the stack");
    __CPROVER_assert((k0 < 1 || pp.statusStack.w[k0 - 1] == p0) && (k0 < 2 || pp.statusStack.w[0] == q0),
                     "#if/#ifdef/#ifndef: saved statuses of the enclosing groups unchanged");
  }
  __CPROVER_assert(is_group(s1, s0), "#if/#ifdef/#ifndef: R holds afterwards (new group over the old status)");
  view_t n; alpha(s1, s0, n);
  __CPROVER_assert(n.parentActive == active0, "#if/#ifdef/#ifndef: parentActive' == active");
  __CPROVER_assert(!n.seenElse, "#if/#ifdef/#ifndef: seenElse' == false");
  if (!active0) {
    __CPROVER_assert(evals == 0, "#if/#ifdef/#ifndef inside a skipped region: condition is NOT evaluated");
    __CPROVER_assert(reported == 0, "#if/#ifdef/#ifndef inside a skipped region: no error is reported");
    __CPROVER_assert(!n.active && n.taken, "#if/#ifdef/#ifndef inside a skipped region: group is skipped and can never become active");
    __CPROVER_assert(g_lines == 1 && g_skip == 1, "#if/#ifdef/#ifndef inside a skipped region: the directive line is skipped exactly once");
  } else {
    if (ok) {
      __CPROVER_assert(n.active == c, "#if/#ifdef/#ifndef: active' == active && c");
      __CPROVER_assert(n.taken == c, "#if/#ifdef/#ifndef: taken' == c");
      __CPROVER_assert(reported == 0, "#if/#ifdef/#ifndef: a valid condition reports no error");
    } else {
      __CPROVER_assert(reported >= 1, "#if/#ifdef/#ifndef: an invalid condition is reported as an error");
      __CPROVER_assert(!n.active && !n.taken, "#if/#ifdef/#ifndef: an invalid condition counts as false (group open, nothing taken)");
    }
#if VERIF_DIR == 0
    __CPROVER_assert(g_expand == 1 && g_parse == 1 && g_eval == (ok ? 1 : 0), "#if in an active region: condition is evaluated exactly once");
    __CPROVER_assert(g_lines == 1, "#if in an active region: exactly the directive line is consumed");
#else
    __CPROVER_assert(g_srctok == 1 && g_macro == (ok ? 1 : 0), "#ifdef/#ifndef in an active region: the macro is looked up exactly once");
    if (ok || in_tok_kind == 1) __CPROVER_assert(g_lines == 1, "#ifdef/#ifndef in an active region: exactly the directive line is consumed");
#endif
  }
#elif VERIF_DIR == 3 || VERIF_DIR == 4
  /* ---- #elif / #else ----------------------------------------------------------- */
  __CPROVER_assert(k1 == k0, "#elif/#else: stack depth unchanged");
  if (k1 == k0)
    __CPROVER_assert((k0 < 1 || pp.statusStack.w[k0 - 1] == p0) && (k0 < 2 || pp.statusStack.w[0] == q0),
                     "#elif/#else: saved statuses of the enclosing groups unchanged");
  __CPROVER_assert(g_lines == 1, "#elif/#else: exactly the directive line is consumed");
  if (!open0) {
    __CPROVER_assert(pp.errors == errors0 + 1, "#elif/#else without #if: reported as an error");
    __CPROVER_assert(s1 == s0, "#elif/#else without #if: state not corrupted (status unchanged)");
    __CPROVER_assert(evals == 0, "#elif/#else without #if: condition is NOT evaluated");
  } else {
    __CPROVER_assert(is_group(s1, p0), "#elif/#else: R holds afterwards");
    view_t n; alpha(s1, p0, n);
    if (v.seenElse) {
      __CPROVER_assert(pp.errors == errors0 + 1, "#elif/#else after #else: reported as an error");
      __CPROVER_assert(!n.active && n.taken && n.seenElse, "#elif/#else after #else: state not corrupted (rest of the group is skipped)");
      __CPROVER_assert(evals == 0, "#elif/#else after #else: condition is NOT evaluated");
    } else {
#if VERIF_DIR == 3
      if (!elif_evaluates) {
        __CPROVER_assert(evals == 0, "#elif after a taken group or inside a skipped region: condition is NOT evaluated");
        __CPROVER_assert(reported == 0, "#elif after a taken group or inside a skipped region: no error is reported");
        __CPROVER_assert(!n.active && n.taken && !n.seenElse, "#elif after a taken group or inside a skipped region: active' == false, taken' == true");
        __CPROVER_assert(g_skip == 1, "#elif after a taken group or inside a skipped region: the directive line is skipped exactly once");
      } else {
        __CPROVER_assert(g_expand == 1 && g_parse == 1 && g_eval == (ok ? 1 : 0), "#elif of a group with no branch taken yet: condition is evaluated exactly once");
        if (ok) {
          __CPROVER_assert(n.active == c, "#elif: active' == parentActive && !taken && c");
          __CPROVER_assert(n.taken == c, "#elif: taken' == taken || active'");
          __CPROVER_assert(reported == 0, "#elif: a valid condition reports no error");
        } else {
          __CPROVER_assert(reported >= 1, "#elif: an invalid condition is reported as an error");
          __CPROVER_assert(!n.active && !n.taken, "#elif: an invalid condition counts as false");
        }
        __CPROVER_assert(!n.seenElse, "#elif: seenElse' == false");
      }
#else
      __CPROVER_assert(evals == 0, "#else: nothing is evaluated");
      __CPROVER_assert(reported == 0, "#else: no error is reported");
      __CPROVER_assert(n.active == (v.parentActive && !v.taken), "#else: active' == parentActive && !taken");
      __CPROVER_assert(n.taken && n.seenElse, "#else: taken' == true, seenElse' == true");
#endif
    }
  }
#else
  /* ---- #endif --------------------------------------------------------------------- */
  __CPROVER_assert(evals == 0, "#endif: nothing is evaluated");
  __CPROVER_assert(g_lines == 1, "#endif: exactly the directive line is consumed");
  if (!open0) {
    __CPROVER_assert(pp.errors == errors0 + 1, "#endif without #if: reported as an error");
    __CPROVER_assert(s1 == s0 && k1 == k0, "#endif without #if: state not corrupted (status and depth unchanged)");
    __CPROVER_assert((k0 < 1 || pp.statusStack.w[k0 - 1] == p0) && (k0 < 2 || pp.statusStack.w[0] == q0),
                     "#endif without #if: saved statuses unchanged");
  } else {
    __CPROVER_assert(k1 == k0 - 1, "#endif: stack depth -1");
    __CPROVER_assert(s1 == p0, "#endif: the enclosing status is restored exactly (pop)");
    __CPROVER_assert(k0 < 2 || pp.statusStack.w[0] == q0, "#endif: saved statuses of the enclosing groups unchanged");
    __CPROVER_assert(reported == 0, "#endif: no error is reported");
  }
#endif
#ifdef CANARY
  __CPROVER_assert(0, "canary: the end of the step is reachable for this class of states");
#endif
}

/* ---- base case: the state init() establishes satisfies R ---------------------- */
extern "C" void h_init() {
  preprocessor_t pp;
  pp.status = nondet_int();                 /* the constructor leaves `status` uninitialised */
  pp.statusStack.below = nondet_ulong();
  pp.statusStack.k = nondet_int();
  __CPROVER_assume(0 <= pp.statusStack.k && pp.statusStack.k <= VERIF_WIN);
  pp.statusStack.clear();                   /* clear_() */
  pp.init();                                /* real text: first statement of init() */
  __CPROVER_assert(is_base(pp.status), "initial state: status is the base status (reading, no open group)");
  __CPROVER_assert(pp.statusStack.size() == 1, "initial state: stack depth 1");
  /* front-end fidelity of the extracted constants: R reads them as five distinct single bits */
  const int bits[5] = { RD, IG, FI, FE, FN };
  bool distinct_single_bits = true;
  for (int i = 0; i < 5; ++i) {
    if (bits[i] <= 0 || (bits[i] & (bits[i] - 1)) != 0) distinct_single_bits = false;
    for (int j = 0; j < i; ++j) if (bits[i] == bits[j]) distinct_single_bits = false;
  }
  __CPROVER_assert(distinct_single_bits, "fidelity: the five ppStatus constants are distinct single bits");
  __CPROVER_assert(tokenType::none > 0 && tokenType::newline > 0 && tokenType::identifier > 0 &&
                   (tokenType::none & tokenType::newline) == 0 && (tokenType::none & tokenType::identifier) == 0 &&
                   (tokenType::newline & tokenType::identifier) == 0,
                   "fidelity: tokenType none / newline / identifier are disjoint non-zero masks");
#ifdef CANARY
  __CPROVER_assert(0, "canary: the end of the step is reachable for this class of states");
#endif
}
