/* C13 class skeletons (namespace occa::lang).  @...@ placeholders are filled by
   recipes/C13.py with text extracted from the current tree. */
namespace occa {
  namespace lang {
    /* real values, src/occa/internal/lang/preprocessor.cpp (namespace body -> enum) */
@PPSTATUS@
    /* real values, src/occa/internal/lang/token/token.cpp (namespace body -> enum) */
@TOKENTYPE@
    namespace exprNodeType { enum { empty = 1, other = 2 }; }   /* stub: only `empty` is tested */

    class fileOrigin { public: int line; fileOrigin() : line(0) {} };
    class identifierToken;
    class token_t {
     public:
      fileOrigin origin;
      int type_;
      token_t() : type_(0) {}
      int type() const { return type_; }            /* real: pure virtual; the harness picks the type bits */
      static int safeType(token_t *token);          /* real text below */
      void printError(const std::string &message) const {}   /* opaque: prints */
      identifierToken& to_identifierToken();         /* real: template <class TM> TM& to(), a checked downcast */
    };
    class identifierToken : public token_t {
     public:
      std::string value;
      identifierToken() {}
    };
    identifierToken& token_t::to_identifierToken() { return *((identifierToken*) this); }
    typedef std::vector<token_t*> tokenVector;      /* as in preprocessor.hpp */

    class exprNode {
     public:
      udim_t type_; bool can_; bool val_;
      exprNode() : type_(0), can_(false), val_(false) {}
      udim_t type() const { return type_; }
      bool canEvaluate() const { return can_; }
      bool evaluate() const { ++g_eval; return val_; }   /* real: returns primitive, converted to bool by the caller */
    };
    class expressionParser {
     public:
      static exprNode* parse(tokenVector &tokens) {
        ++g_parse;
        if (!in_parse_ok) { ++g_reported; return (exprNode*) 0; }   /* "errors when expr is NULL are handled while forming the expression" */
        exprNode *e = new exprNode();
        e->type_ = in_expr_empty ? exprNodeType::empty : exprNodeType::other;
        e->can_ = in_can_eval;
        e->val_ = in_cond;
        return e;
      }
    };
    class macro_t { public: int x; macro_t() : x(0) {} };

    /* skeleton of preprocessor_t: the two status members (types as in preprocessor.hpp, checked by the
       recipe), the error counter, the functions under contract, and the opaque helpers */
    class preprocessor_t {
     public:
      std::vector<int> statusStack;
      int status;
      int warnings, errors;

      preprocessor_t() : status(0), warnings(0), errors(0) {}

      /* under contract: real text */
      void init();                                  /* real text, cut after its first statement */
      void errorOn(token_t *token, const std::string &message);
      void pushStatus(const int status_);
      int popStatus();
      void swapReadingStatus();
      bool lineIsTrue(identifierToken &directive, bool &isTrue);
      bool getIfdef(identifierToken &directive, bool &isTrue);
      void processIf(identifierToken &directive);
      void processIfdef(identifierToken &directive);
      void processIfndef(identifierToken &directive);
      void processElif(identifierToken &directive);
      void processElse(identifierToken &directive);
      void processEndif(identifierToken &directive);

      /* opaque token-level helpers */
      void skipToNewline() { ++g_skip; ++g_lines; }
      void getExpandedLineTokens(tokenVector &lineTokens) { ++g_expand; ++g_lines; }
      void removeNewline(tokenVector &lineTokens) {}
      void verif_replaceIdentifiers(tokenVector &lineTokens) {}   /* stands for the identifier -> 0 loop of lineIsTrue */
      void warnOnNonEmptyLine(const std::string &message) { ++g_warnline; ++g_lines; }
      void incrementNewline() {}
      void pushOutput(token_t *token) {}
      token_t* getSourceToken() {
        ++g_srctok;
        if (in_tok_kind == 0) return (token_t*) 0;
        identifierToken *t = new identifierToken();
        t->type_ = in_tok_type;
        if (in_tok_kind == 1) ++g_lines;           /* the newline that ends the directive line */
        return t;
      }
      macro_t* getMacro(const std::string &name) {
        ++g_macro;
        return in_defined ? new macro_t() : (macro_t*) 0;
      }
    };

@REAL@
  }
}
