/* C13 model header: ghost state + opaque stand-ins for everything below the
   conditional-inclusion state machine.  Trusted base (listed in the evidence).

   * std::string        : opaque (message texts and macro names are never inspected)
   * std::vector<T>     : WINDOW model.  `below` elements lie beneath the modelled
                          window and are never read or written; the window holds
                          the top `k` (<= VERIF_WIN) elements.  `below` is an
                          arbitrary 62-bit number, so size() = below + k ranges
                          over every nesting depth; VERIF_WIN only bounds how many
                          elements ONE directive may push/pop/read (asserted on
                          every access: "model: ..." obligations).
   * token_t, identifierToken, exprNode, expressionParser, macro_t : carriers of
                          symbolic results chosen by the harness.
   Ghost counters record which token-level helpers ran.                        */
#ifndef VERIF_C13_MODEL
#define VERIF_C13_MODEL
#include <verif_base.h>

#ifndef VERIF_WIN
#define VERIF_WIN 4
#endif

/* ---- symbolic outcomes of the opaque helpers (set by the harness) -------- */
static bool in_parse_ok;     /* expressionParser::parse returns an expression            */
static bool in_expr_empty;   /* ... of type exprNodeType::empty                          */
static bool in_can_eval;     /* exprNode::canEvaluate()                                  */
static bool in_cond;         /* value of the controlling expression                      */
static int  in_tok_kind;     /* getSourceToken(): 0 NULL, 1 newline, 2 identifier, 3 other */
static int  in_tok_type;     /* type bits of that token (constrained by in_tok_kind)     */
static bool in_defined;      /* getMacro(name) != NULL                                   */

/* ---- ghost counters ------------------------------------------------------ */
static int g_expand;    /* getExpandedLineTokens: reads AND macro-expands the condition line */
static int g_parse;     /* expressionParser::parse                                           */
static int g_eval;      /* exprNode::evaluate                                                */
static int g_srctok;    /* getSourceToken (the macro name of #ifdef/#ifndef)                 */
static int g_macro;     /* getMacro                                                          */
static int g_skip;      /* skipToNewline                                                     */
static int g_warnline;  /* warnOnNonEmptyLine                                                */
static int g_lines;     /* source lines consumed by the directive                            */
static int g_reported;  /* errors printed by the expression parser itself (not via errorOn)  */

typedef unsigned long udim_t;

namespace std {
  class string {
   public:
    const char *p;
    string() : p(0) {}
    string(const char *c) : p(c) {}
  };

  template <class T>
  class vector {
   public:
    unsigned long below;
    T w[VERIF_WIN];
    int k;
    vector() : below(0), k(0) {}
    size_t size() const { return below + (unsigned long) k; }
    void push_back(const T &x) {
      __CPROVER_assert(k < VERIF_WIN, "model: push_back stays inside the vector window");
      w[k] = x; ++k;
    }
    T& back() {
      __CPROVER_assert(k > 0, "model: back() reads inside the vector window (non-empty vector)");
      return w[k - 1];
    }
    void pop_back() {
      __CPROVER_assert(k > 0, "model: pop_back() stays inside the vector window (non-empty vector)");
      --k;
    }
    T& operator [] (size_t i) {
      __CPROVER_assert(i >= below && i - below < (unsigned long) k, "model: operator[] reads inside the vector window");
      return w[i - below];
    }
    void clear() { below = 0; k = 0; }
  };
}
#endif
