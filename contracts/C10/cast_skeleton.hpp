/* C10 part B -- skeleton of dtype_t for the SAFETY of the cast rule (canBeCastedTo / isCyclic).
 * The flattened type vectors are whatever the harness chooses (any length 0..VERIF_FLAT, any entries):
 * this over-approximates every result of setFlattenedDtype(), including the empty vector of a
 * zero-length tuple. */
#include <verif_base.h>
#ifndef VERIF_FLAT
#define VERIF_FLAT 3
#endif
namespace occa {
  class dtype_t;
  /* std::vector<const dtype_t*> stub: fixed capacity, index asserted */
  class dtypeVector_t { public:
    const dtype_t *a[VERIF_FLAT + 1]; size_t n;
    size_t size() const { return n; }
    const dtype_t* operator [] (const int i) const { __CPROVER_assert(0 <= i && (size_t) i < n, "std::vector<const dtype_t*> index in range"); return a[i]; }
  };
  class dtype_t { public:
    const dtype_t *ref;
    mutable dtypeVector_t flatDtype;
    /*@SELF@*/
    void setFlattenedDtype() const {}      /* stub: see above */
    bool operator == (const dtype_t &other) const;
    bool operator != (const dtype_t &other) const;
    bool canBeCastedTo(const dtype_t &other) const;
    static bool isCyclic(const dtypeVector_t &vec, const int cycleLength);
  };
  namespace dtype { extern const dtype_t byte; const dtype_t byte; }
}
