/* C10 -- skeleton classes (trusted) around the real text of modeKernel_t::setupRun.
 * Field names and types are checked against the real headers by the recipe.
 * The @NAME@ placeholders are filled with text extracted from /repo each run. */
#include <verif_base.h>
#include <string>

#ifndef VERIF_MAXARGS
#define VERIF_MAXARGS 2
#endif
#define VERIF_NDT 3      /* distinct dtype identities in play: enough to tell "from" and "to" apart plus one more */

/* exception model: OCCA_ERROR / OCCA_FORCE_ERROR are macros in the real code too (occa/defines/errors.hpp: they
   throw occa::exception).  setupRun returns void and calls nothing that raises, so "throw" is "record the site
   and leave the function"; the message operand (stream of <<) is dropped unevaluated. */
int verif_raised;
#define OCCA_ERROR(message, expr) do { if (!(expr)) { verif_raised = __LINE__; return; } } while (0)
#define OCCA_FORCE_ERROR(message) do { verif_raised = __LINE__; return; } while (0)

namespace occa {
  typedef uint64_t udim_t;
  class hash_t { public: int x; };                       /* only appears in dropped message operands */

  /*@PRIMITIVE_TYPE@*/

  /* canBeCastedTo: uninterpreted but consistent predicate on (from, to) dtype identities; the calls are recorded */
  extern bool verif_castable[VERIF_NDT][VERIF_NDT];
  extern int verif_cast_calls;
  class dtype_t { public:
    int id;
    bool canBeCastedTo(const dtype_t &other) const { ++verif_cast_calls; return verif_castable[id][other.id]; }
  };
  bool verif_castable[VERIF_NDT][VERIF_NDT];
  int verif_cast_calls;

  class modeMemory_t { public: const dtype_t *dtype_; };

  class primitive { public:
    int type;
    struct { char *ptr; } value;                         /* the member of the real union that isNull() reads */
    /*@PRIMITIVE_PREDICATES@*/
  };

  class kernelArgData { public:
    primitive value;
    udim_t ptrSize;
    occa::modeMemory_t *modeMemory;
    occa::modeMemory_t* getModeMemory() const;
  };
  /* std::vector<kernelArgData> stub: fixed capacity, index asserted */
  class kernelArgDataVector { public:
    kernelArgData a[VERIF_MAXARGS + 1]; size_t n;
    size_t size() const { return n; }
    kernelArgData& operator [] (const int i) { __CPROVER_assert(0 <= i && (size_t) i < n, "std::vector<kernelArgData> index in range"); return a[i]; }
  };

  namespace lang {
    class argMetadata_t { public: bool isConst; bool isPtr; dtype_t dtype; };
    class argMetadataVector { public:
      argMetadata_t a[VERIF_MAXARGS + 1]; size_t n;
      size_t size() const { return n; }
      argMetadata_t& operator [] (const int i) { __CPROVER_assert(0 <= i && (size_t) i < n, "std::vector<argMetadata_t> index in range"); return a[i]; }
    };
    class kernelMetadata_t { public:
      bool initialized;
      argMetadataVector arguments;
      bool isInitialized() const;
    };
  }

  /* json::get<bool>(key, default): uninterpreted but consistent lookup -- "type_validation" is a free
     boolean of the kernel's properties, every other key is absent (returns the default) */
  class json { public:
    bool type_validation;
    bool get(const char *key, const bool &dflt) const {
      const char *k = "type_validation"; int i = 0;
      while (key[i] != 0 && key[i] == k[i]) ++i;
      return (key[i] == k[i]) ? type_validation : dflt;
    }
  };

  class modeKernel_t { public:
    std::string name;
    occa::json properties;
    hash_t hash;
    kernelArgDataVector arguments;
    lang::kernelMetadata_t metadata;
    void setupRun();
  };
}
