using namespace occa;

static bool any_bool() { return nondet_bool(); }

extern "C" void h_setupRun() {
  modeKernel_t k;
  dtype_t dts[VERIF_NDT];
  modeMemory_t mems[VERIF_MAXARGS + 1];
  for (int d = 0; d < VERIF_NDT; ++d) { dts[d].id = d; for (int e = 0; e < VERIF_NDT; ++e) verif_castable[d][e] = any_bool(); }
  int argc = nondet_int(), metaArgc = nondet_int();
  __CPROVER_assume(0 <= argc && argc <= VERIF_MAXARGS && 0 <= metaArgc && metaArgc <= VERIF_MAXARGS);
  k.arguments.n = argc;
  k.metadata.arguments.n = metaArgc;
  for (int i = 0; i < VERIF_MAXARGS; ++i) {
    int md = nondet_int(), pd = nondet_int();
    __CPROVER_assume(0 <= md && md < VERIF_NDT && 0 <= pd && pd < VERIF_NDT);
    mems[i].dtype_ = &dts[md];                                   /* invariant of a live modeMemory_t: dtype_ points to a dtype */
    k.arguments.a[i].modeMemory = any_bool() ? &mems[i] : (modeMemory_t*) 0;
    k.arguments.a[i].value.type = nondet_int();                  /* any primitive tag bits */
    k.arguments.a[i].value.value.ptr = any_bool() ? (char*) &mems[i] : (char*) 0;
    k.arguments.a[i].ptrSize = nondet_ulong();
    k.metadata.arguments.a[i].isConst = any_bool();
    k.metadata.arguments.a[i].isPtr = any_bool();
    k.metadata.arguments.a[i].dtype.id = pd;
  }
  k.metadata.initialized = any_bool();
  k.properties.type_validation = any_bool();

  /* ---- the property's sentence, evaluated on the inputs ---- */
  const bool validate = k.metadata.initialized && k.properties.type_validation;
  const bool count_differs = (argc != metaArgc);
  bool kind_mismatch = false, not_castable = false;
  int expected_casts = 0;
  if (!count_differs) {
    for (int i = 0; i < VERIF_MAXARGS; ++i) {
      if (i < argc) {
        const kernelArgData &a = k.arguments.a[i];
        const lang::argMetadata_t &p = k.metadata.arguments.a[i];
        const bool is_memory = (a.modeMemory != 0);
        const bool is_null = a.value.isNull();                  /* occa::null / an empty argument: passes for any pointer parameter */
        if ((is_memory || is_null) != p.isPtr) kind_mismatch = true;
        else if (is_memory && !is_null && !verif_castable[a.modeMemory->dtype_->id][p.dtype.id]) not_castable = true;
      }
    }
  }
  const bool compatible = !count_differs && !kind_mismatch && !not_castable;
  modeMemory_t *mem0[VERIF_MAXARGS + 1]; bool isptr0[VERIF_MAXARGS + 1];
  for (int i = 0; i < VERIF_MAXARGS; ++i) { mem0[i] = k.arguments.a[i].modeMemory; isptr0[i] = k.metadata.arguments.a[i].isPtr; }

  verif_raised = 0; verif_cast_calls = 0;
  k.setupRun();
  const bool raised = (verif_raised != 0);

#ifndef CANARY
  if (validate && count_differs) __CPROVER_assert(raised, "raises when the number of arguments differs from the kernel's parameter list");
  if (validate && !count_differs && kind_mismatch) __CPROVER_assert(raised, "raises when memory is passed for a non-pointer parameter or a non-memory value for a pointer parameter");
  if (validate && !count_differs && not_castable) __CPROVER_assert(raised, "raises when a memory object's element type cannot be cast to the parameter's element type");
  if (validate && compatible) __CPROVER_assert(!raised, "every compatible argument list runs (no exception)");
  if (!validate) __CPROVER_assert(!raised, "without metadata or with type_validation off nothing is checked and nothing raises");
  __CPROVER_assert(raised == (validate && !compatible), "raises exactly for the incompatible argument lists");
  if (count_differs || !validate) __CPROVER_assert(verif_cast_calls == 0, "the cast rule is not consulted when the counts differ or validation is off");
  for (int i = 0; i < VERIF_MAXARGS; ++i)
    __CPROVER_assert(k.arguments.a[i].modeMemory == mem0[i] && k.metadata.arguments.a[i].isPtr == isptr0[i] && k.arguments.n == (size_t) argc,
                     "validation does not modify the arguments or the metadata");
#else
  __CPROVER_assert(!(raised && argc == VERIF_MAXARGS && !count_differs && not_castable), "canary: a cast failure at full argument count is reachable");
#endif
}
