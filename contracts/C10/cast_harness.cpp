using namespace occa;

static dtype_t leaves[3];      /* leaf dtypes the flattened vectors point to */

static void any_vector(dtypeVector_t &v) {
  v.n = nondet_ulong();
  __CPROVER_assume(v.n <= VERIF_FLAT);
  for (int i = 0; i < VERIF_FLAT; ++i) {
    int l = nondet_int(); __CPROVER_assume(0 <= l && l < 3);
    v.a[i] = &leaves[l];
  }
}

extern "C" void h_isCyclic() {
  for (int l = 0; l < 3; ++l) { leaves[l].ref = 0; leaves[l].flatDtype.n = 0; }
  dtypeVector_t v; any_vector(v);
  int cycleLength = nondet_int();
  /* call sites (canBeCastedTo): the length of the shorter flattened type, 0 <= cycleLength < size */
  __CPROVER_assume(0 <= cycleLength && (size_t) cycleLength < v.n);
  bool r = dtype_t::isCyclic(v, cycleLength);
#ifndef CANARY
  /* functional contract: true iff the vector is the repetition of its first cycleLength entries */
  if (cycleLength > 0) {
    bool periodic = (v.n % cycleLength == 0);
    if (periodic) for (int j = 0; j < VERIF_FLAT; ++j) if ((size_t) j < v.n && v.a[j] != v.a[j % cycleLength]) periodic = false;
    __CPROVER_assert(r == periodic, "isCyclic: true exactly when the vector repeats its first cycleLength entries");
  } else {
    /* a type without entries (zero-length tuple) against a type with entries: the call must return, and not with "castable" */
    __CPROVER_assert(!r, "isCyclic: a zero cycle length is not a cycle of a non-empty vector");
  }
#else
  __CPROVER_assert(!(r && v.n == VERIF_FLAT), "canary: a cyclic vector of full length is reachable");
#endif
}

extern "C" void h_canBeCastedTo() {
  for (int l = 0; l < 3; ++l) { leaves[l].ref = 0; leaves[l].flatDtype.n = 0; }
  dtype_t from, to;
  from.ref = 0; to.ref = 0;
  any_vector(from.flatDtype); any_vector(to.flatDtype);
  bool r = from.canBeCastedTo(to);
#ifndef CANARY
  /* the lattice itself has no specification but the code; what must hold for the decision of setupRun to exist at all
     is that the call returns (no division by zero, no out-of-range access): the automatic obligations of this group */
  if (from.flatDtype.n == to.flatDtype.n) {
    bool same = true;
    for (int j = 0; j < VERIF_FLAT; ++j) if ((size_t) j < from.flatDtype.n && from.flatDtype.a[j] != to.flatDtype.a[j]) same = false;
    __CPROVER_assert(r == same, "canBeCastedTo: types of equal flattened length cast iff their entries are identical");
  }
#else
  __CPROVER_assert(!(r && from.flatDtype.n == 1 && to.flatDtype.n == VERIF_FLAT), "canary: a cyclic cast (float -> float3 shape) is reachable");
#endif
}
