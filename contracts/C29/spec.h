/* C29 -- specification helpers, written from the C standard, not from libocca.
 * Included AFTER the extracted text. */
#ifndef C29_SPEC_H
#define C29_SPEC_H

_Static_assert(sizeof(int) == 4 && sizeof(long) == 8 && sizeof(void *) == 8 && sizeof(_Bool) == 1, "LP64");
_Static_assert((char) -1 < 0, "plain char is signed");

/* "the same value": bit for bit.  Integers (and bool) of the same type compare with ==;
 * floating values compare through their object representation, so that a NaN payload
 * and the sign of zero must survive a mere copy. */
static inline uint32_t c29_fbits(float f)  { union { float f; uint32_t u; } c; c.f = f; return c.u; }
static inline uint64_t c29_dbits(double f) { union { double f; uint64_t u; } c; c.f = f; return c.u; }
static inline uint64_t c29_sbits(int64_t i) { return (uint64_t) i; }
static inline uint64_t c29_ubits(uint64_t i) { return i; }
#define C29_BITS(x) _Generic((x), float: c29_fbits, double: c29_dbits, \
    _Bool: c29_ubits, uint8_t: c29_ubits, uint16_t: c29_ubits, uint32_t: c29_ubits, uint64_t: c29_ubits, \
    int8_t: c29_sbits, int16_t: c29_sbits, int32_t: c29_sbits, int64_t: c29_sbits)(x)
#define C29_BITS_EQ(a, b) (C29_BITS(a) == C29_BITS(b))

/* equality after a conversion: integers exactly; a floating result is matched exactly
 * (sign of zero included), a NaN by any NaN (C fixes neither sign nor payload) */
static inline _Bool c29_feq(float a, float b)   { return (a != a) ? (b != b) : (a == b && __CPROVER_signf(a) == __CPROVER_signf(b)); }
static inline _Bool c29_deq(double a, double b) { return (a != a) ? (b != b) : (a == b && __CPROVER_signd(a) == __CPROVER_signd(b)); }
static inline _Bool c29_ieq_s(int64_t a, int64_t b)   { return a == b; }
static inline _Bool c29_ieq_u(uint64_t a, uint64_t b) { return a == b; }
#define C29_CONV_EQ(a, e) _Generic((e), float: c29_feq, double: c29_deq, \
    _Bool: c29_ieq_u, uint8_t: c29_ieq_u, uint16_t: c29_ieq_u, uint32_t: c29_ieq_u, uint64_t: c29_ieq_u, \
    int8_t: c29_ieq_s, int16_t: c29_ieq_s, int32_t: c29_ieq_s, int64_t: c29_ieq_s)((a), (e))

/* C 6.3.1.4: a finite floating value converts to an integer type (other than _Bool) iff its
 * truncation is representable; otherwise the behaviour is undefined.  Every other scalar
 * conversion is defined (6.3.1.2 bool, 6.3.1.3 integers modular / implementation-defined,
 * 6.3.1.4p2 integer -> floating rounds, 6.3.1.5 double -> float: IEC 60559).  All bounds below
 * are exactly representable doubles; NaN fails every comparison. */
static inline _Bool c29_def_bool(double d)     { return 1; }
static inline _Bool c29_def_float(double d)    { return 1; }
static inline _Bool c29_def_double(double d)   { return 1; }
static inline _Bool c29_def_int8_t(double d)   { return d > -129.0 && d < 128.0; }
static inline _Bool c29_def_uint8_t(double d)  { return d > -1.0 && d < 256.0; }
static inline _Bool c29_def_int16_t(double d)  { return d > -32769.0 && d < 32768.0; }
static inline _Bool c29_def_uint16_t(double d) { return d > -1.0 && d < 65536.0; }
static inline _Bool c29_def_int32_t(double d)  { return d > -2147483649.0 && d < 2147483648.0; }
static inline _Bool c29_def_uint32_t(double d) { return d > -1.0 && d < 4294967296.0; }
static inline _Bool c29_def_int64_t(double d)  { return d >= -9223372036854775808.0 && d < 9223372036854775808.0; }
static inline _Bool c29_def_uint64_t(double d) { return d > -1.0 && d < 18446744073709551616.0; }
#define C29_CONV_DEFINED(U, v) _Generic((v), float: c29_def_##U((double) (v)), double: c29_def_##U((double) (v)), default: 1)
#endif
