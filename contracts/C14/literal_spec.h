/* C14, literal typing -- "literal text gets the type C++ gives it".
 *
 * Specification of the type and value of a C++ literal, written from the
 * C++ standard (C++17 [lex.icon] incl. Table 7 "Types of integer literals",
 * [lex.fcon], [lex.bool], [lex.ppnumber]) for an LP64 implementation
 * (int 32 bits; long and long long 64 bits) -- NOT from libocca's code.
 *
 * c14_lit_spec(t, n) decides whether the n characters t[0..n) are, as a
 * whole, one literal of the forms below, and if so gives its C++ type as a
 * primitiveType tag and (integers, bool) its value:
 *
 *   integer-literal:   binary-literal | octal-literal | decimal-literal | hexadecimal-literal,
 *                      each followed by an optional integer-suffix
 *     binary-literal:  0b | 0B   binary-digit+
 *     octal-literal:   0   octal-digit*
 *     decimal-literal: nonzero-digit   digit*
 *     hex-literal:     0x | 0X   hexadecimal-digit+
 *     integer-suffix:  u|U [l|L|ll|LL]   |   (l|L|ll|LL) [u|U]          (lL and Ll are not suffixes)
 *   floating-literal (decimal):
 *                      fractional-constant exponent-part? floating-suffix?
 *                    | digit-sequence exponent-part floating-suffix?
 *     fractional-constant: digit-sequence? . digit-sequence | digit-sequence .
 *     exponent-part:   e|E sign? digit-sequence
 *     floating-suffix: f|F            (l|L gives long double, for which occa has no tag: outside the property)
 *   boolean-literal:   true | false
 *
 * Outside (c14_lit_spec says C14_LIT_NONE, the harness then claims nothing):
 * digit separators (C++14), hexadecimal floating literals (C++17),
 * user-defined-literal suffixes, the z/Z suffix (C++23), long double
 * literals, and integer literals that fit none of the types of their list
 * (ill-formed: there is no extended integer type).
 *
 * Type of an integer literal ([lex.icon]/2,3, Table 7): the FIRST type of the
 * list in which its value can be represented
 *      suffix   decimal literal             binary, octal or hexadecimal literal
 *      none     int, long, long long        int, unsigned, long, unsigned long, long long, unsigned long long
 *      u        unsigned, unsigned long, unsigned long long          (both columns)
 *      l        long, long long             long, unsigned long, long long, unsigned long long
 *      ul       unsigned long, unsigned long long                    (both columns)
 *      ll       long long                   long long, unsigned long long
 *      ull      unsigned long long                                   (both columns)
 * On LP64: int -> int32, unsigned -> uint32, long and long long -> int64,
 * unsigned long and unsigned long long -> uint64 (occa's tags name
 * signedness and width, which is what the property statement asks for).
 * Type of a floating literal ([lex.fcon]/1): double unless a suffix says
 * otherwise; f/F: float.
 *
 * Included after the primitiveType_* enumerators extracted from the real header.
 */
#ifndef C14_LITERAL_SPEC_H
#define C14_LITERAL_SPEC_H

enum { C14_LIT_NONE = 0, C14_LIT_INT, C14_LIT_FLOAT, C14_LIT_BOOL };

typedef struct {
  int      kind;      /* C14_LIT_* */
  int      base;      /* integer literals: 2, 8, 10, 16 */
  int      tag;       /* the primitiveType tag of the C++ type of the literal */
  uint64_t value;     /* integer and boolean literals: the value */
  size_t   body;      /* number of characters before the suffix */
} c14_lit_t;

static inline _Bool c14_is_digit(char ch)  { return '0' <= ch && ch <= '9'; }
static inline _Bool c14_is_odigit(char ch) { return '0' <= ch && ch <= '7'; }
static inline _Bool c14_is_bdigit(char ch) { return ch == '0' || ch == '1'; }
static inline _Bool c14_is_xdigit(char ch) {
  return c14_is_digit(ch) || ('a' <= ch && ch <= 'f') || ('A' <= ch && ch <= 'F');
}
static inline unsigned c14_xvalue(char ch) {
  return c14_is_digit(ch) ? (unsigned) (ch - '0') : ('a' <= ch && ch <= 'f') ? (unsigned) (ch - 'a' + 10) : (unsigned) (ch - 'A' + 10);
}

/* [lex.ppnumber], [lex.name]: may the character after the literal follow it without being swallowed
 * into the same preprocessing token?  No identifier character, digit, period or digit separator; no
 * sign directly after e E p P (`0x1e+2` is ONE ill-formed pp-number). */
static inline _Bool c14_lit_ends_here(char last, char next) {
  if (c14_is_digit(next) || ('a' <= next && next <= 'z') || ('A' <= next && next <= 'Z') ||
      next == '_' || next == '.' || next == '\'' || next == '$' || (next & 0x80)) {
    return 0;
  }
  if ((next == '+' || next == '-') && (last == 'e' || last == 'E' || last == 'p' || last == 'P')) {
    return 0;
  }
  return 1;
}

#ifndef C14_LIT_MAX
#  error "C14_LIT_MAX (largest literal length of this harness) must be defined"
#endif

static inline c14_lit_t c14_lit_spec(const char *t, size_t n) {
  c14_lit_t s;
  s.kind = C14_LIT_NONE; s.base = 0; s.tag = 0; s.value = 0; s.body = 0;
  if (n == 0 || n > C14_LIT_MAX) return s;

  /* ---- [lex.bool] ---- */
  if (n == 4 && t[0] == 't' && t[1] == 'r' && t[2] == 'u' && t[3] == 'e') {
    s.kind = C14_LIT_BOOL; s.tag = primitiveType_bool_; s.value = 1; s.body = 4; return s;
  }
  if (n == 5 && t[0] == 'f' && t[1] == 'a' && t[2] == 'l' && t[3] == 's' && t[4] == 'e') {
    s.kind = C14_LIT_BOOL; s.tag = primitiveType_bool_; s.value = 0; s.body = 5; return s;
  }

  size_t i = 0;
  uint64_t v = 0;
  _Bool too_big = 0;       /* the value does not fit in 64 bits */
  _Bool integer = 0;

  /* ---- the digits of an integer literal, or the leading digit-sequence of a floating literal ---- */
  if (t[0] == '0' && n >= 2 && (t[1] == 'x' || t[1] == 'X')) {
    s.base = 16;
    for (i = 2; i < n && c14_is_xdigit(t[i]); ++i) {
      too_big = too_big || (v >> 60) != 0;
      v = (v << 4) | c14_xvalue(t[i]);
    }
    if (i == 2) return s;                      /* 0x without digits */
    integer = 1;
  } else if (t[0] == '0' && n >= 2 && (t[1] == 'b' || t[1] == 'B')) {
    s.base = 2;
    for (i = 2; i < n && c14_is_bdigit(t[i]); ++i) {
      too_big = too_big || (v >> 63) != 0;
      v = (v << 1) | (unsigned) (t[i] - '0');
    }
    if (i == 2) return s;
    integer = 1;
  } else if (c14_is_digit(t[0])) {
    /* decimal-literal, octal-literal, or the digit-sequence that opens a floating literal: read the
       digits in base ten and, in parallel, in base eight */
    uint64_t v8 = 0;
    _Bool too_big8 = 0, all_octal = 1;
    for (i = 0; i < n && c14_is_digit(t[i]); ++i) {
      unsigned d = (unsigned) (t[i] - '0');
      too_big = too_big || v > 1844674407370955161ull || (v == 1844674407370955161ull && d > 5);
      v = v * 10 + d;
      all_octal = all_octal && c14_is_odigit(t[i]);
      too_big8 = too_big8 || (v8 >> 61) != 0;
      v8 = (v8 << 3) | (d & 7);
    }
    _Bool floating = i < n && (t[i] == '.' || t[i] == 'e' || t[i] == 'E');
    if (!floating) {
      if (t[0] == '0') {
        if (!all_octal) return s;              /* 08, 019: not a literal */
        s.base = 8; v = v8; too_big = too_big8;
      } else {
        s.base = 10;
      }
      integer = 1;
    }
  } else if (t[0] != '.') {
    return s;
  }

  if (integer) {
    /* ---- integer-suffix ---- */
    s.body = i;
    _Bool u = 0; int l = 0;
    size_t r = n - i;                          /* length of the suffix */
    if (r > 3) return s;
    if (r >= 1) {
      char a = t[i], b = r >= 2 ? t[i + 1] : 0, c = r >= 3 ? t[i + 2] : 0;
      _Bool au = a == 'u' || a == 'U', al = a == 'l' || a == 'L';
      _Bool bu = b == 'u' || b == 'U', bl = b == 'l' || b == 'L';
      _Bool cu = c == 'u' || c == 'U', cl = c == 'l' || c == 'L';
      if (r == 1 && au) { u = 1; }
      else if (r == 1 && al) { l = 1; }
      else if (r == 2 && au && bl) { u = 1; l = 1; }
      else if (r == 2 && al && bu) { u = 1; l = 1; }
      else if (r == 2 && al && bl && a == b) { l = 2; }
      else if (r == 3 && au && bl && cl && b == c) { u = 1; l = 2; }
      else if (r == 3 && al && bl && a == b && cu) { u = 1; l = 2; }
      else return s;
    }
    if (too_big) return s;                     /* fits no type: ill-formed */
    const _Bool fits_i32 = v <= 2147483647ull, fits_u32 = v <= 4294967295ull,
                fits_i64 = v <= 9223372036854775807ull;
    int tag;
    if (u) {
      tag = (l == 0 && fits_u32) ? primitiveType_uint32_ : primitiveType_uint64_;
    } else if (s.base == 10) {
      if (l == 0 && fits_i32) tag = primitiveType_int32_;
      else if (fits_i64) tag = primitiveType_int64_;
      else return s;                           /* decimal without u never becomes unsigned: ill-formed */
    } else {
      if (l == 0 && fits_i32) tag = primitiveType_int32_;
      else if (l == 0 && fits_u32) tag = primitiveType_uint32_;
      else if (fits_i64) tag = primitiveType_int64_;
      else tag = primitiveType_uint64_;
    }
    s.kind = C14_LIT_INT; s.tag = tag; s.value = v;
    return s;
  }

  /* ---- floating-literal: i digits read so far (possibly none), t[i] is . e or E ---- */
  _Bool digits = i > 0, point = 0, expo = 0;
  if (i < n && t[i] == '.') {
    point = 1;
    ++i;
    size_t f0 = i;
    for (; i < n && c14_is_digit(t[i]); ++i) { }
    digits = digits || i > f0;
  }
  if (!digits) return s;                       /* a lone period */
  if (i < n && (t[i] == 'e' || t[i] == 'E')) {
    expo = 1;
    ++i;
    if (i < n && (t[i] == '+' || t[i] == '-')) ++i;
    size_t e0 = i;
    for (; i < n && c14_is_digit(t[i]); ++i) { }
    if (i == e0) return s;                     /* exponent without digits */
  }
  if (!point && !expo) return s;
  s.body = i;
  if (i == n) { s.kind = C14_LIT_FLOAT; s.tag = primitiveType_double_; return s; }
  if (i + 1 == n && (t[i] == 'f' || t[i] == 'F')) { s.kind = C14_LIT_FLOAT; s.tag = primitiveType_float_; return s; }
  return s;                                    /* l/L: long double; anything else: not a literal */
}

#endif
