/* C14 part 2 -- class skeletons for the three evaluate() functions under
 * contract (trusted base, DESIGN 4.3).  Pasted AFTER the real `bitfield`
 * class (bits.hpp) and BEFORE the real rawOperatorType / operatorType
 * constant definitions (operator.cpp) and the extracted evaluate() bodies.
 *
 * Flattening (CBMC's C++ front end miscompiles 3-level hierarchies and virtual
 * destructors): exprNode <- exprOpNode <- binaryOpNode becomes one class per
 * node kind holding exactly the members the extracted bodies use (`op`,
 * `leftValue`, `rightValue`, ...), with the real names and types; children are
 * ghost nodes whose evaluate() counts how often it ran.
 * The member `op` is `const operator_t &op` in the real exprOpNode; CBMC 6.11 rejects the
 * initialisation of a const-reference member ("bad reference initializer"), so the skeleton
 * drops the const (no run-time meaning; the extracted bodies cast it away anyway).
 */
#ifndef C14_EXPR_SKELETON_HPP
#define C14_EXPR_SKELETON_HPP

namespace occa {
  /* ---- primitive: only what tree evaluation touches ---- */
  extern int verif_raised_;   /* ghost: an OCCA_ERROR would have been thrown */
  class primitive {
  public:
    int type;          /* tag, as in the real class */
    long bits;         /* stands for the value union */
    bool truth;        /* what the real to<bool>() yields for (type, bits) when the tag is arithmetic */
    primitive() : type(primitiveType::none), bits(0), truth(false) {}
    primitive(const bool value_) : type(primitiveType::bool_), bits(value_), truth(value_) {}
    /* real: operator bool() { return to<bool>(); } -- to<bool>() raises "Type not set" for none/ptr tags */
    operator bool () const {
      if (!(type & (primitiveType::bool_ | primitiveType::isInteger | primitiveType::isFloat))) verif_raised_ = 1;
      return truth;
    }
    /* the real one-line tag predicates, extracted from primitive.hpp by the recipe */
/*@PRIMITIVE_PREDICATES@*/
  };
  static inline bool same_primitive(const primitive &a, const primitive &b) {
    return a.type == b.type && a.bits == b.bits && a.truth == b.truth;
  }

  namespace lang {
    typedef udim_t   rawOpType_t;
    typedef bitfield opType_t;

    class operator_t {
    public:
      opType_t opType;
      int precedence;
    };

    /* ghost record of the operator application */
    extern int       ghost_op_calls;
    extern primitive ghost_op_left, ghost_op_right, ghost_op_result;

    class unaryOperator_t : public operator_t {
    public:
      primitive operator () (primitive &value) const {
        ++ghost_op_calls; ghost_op_left = value; return ghost_op_result;
      }
    };

    class binaryOperator_t : public operator_t {
    public:
      primitive operator () (primitive &leftValue, primitive &rightValue) const {
        ++ghost_op_calls; ghost_op_left = leftValue; ghost_op_right = rightValue; return ghost_op_result;
      }
    };

    /* ghost child: evaluate() bumps a counter and returns a fixed value */
    class exprNode {
    public:
      int evals;
      primitive val;
      primitive evaluate() const { ++(const_cast<exprNode*>(this)->evals); return val; }
    };

    class binaryOpNode {
    public:
      operator_t &op;   /* real: const operator_t &op -- see note on top */
      exprNode *leftValue, *rightValue;
      binaryOpNode(operator_t &op_, exprNode *l, exprNode *r) : op(op_), leftValue(l), rightValue(r) {}
      primitive evaluate() const;
    };

    class ternaryOpNode {
    public:
      operator_t &op;   /* real: const operator_t &op -- see note on top */
      exprNode *checkValue, *trueValue, *falseValue;
      ternaryOpNode(operator_t &op_, exprNode *c, exprNode *t, exprNode *f) :
        op(op_), checkValue(c), trueValue(t), falseValue(f) {}
      primitive evaluate() const;
    };

    class leftUnaryOpNode {
    public:
      operator_t &op;   /* real: const operator_t &op -- see note on top */
      exprNode *value;
      leftUnaryOpNode(operator_t &op_, exprNode *v) : op(op_), value(v) {}
      primitive evaluate() const;
    };
  }
}
#endif
