/* C14 -- specification of "what C++ computes" for one operator applied to two
 * (or one) scalar operands, written from the C/C++ standards, NOT from
 * libocca's code.
 *
 * The expected value of   x OP y   is the expression itself, evaluated by
 * CBMC's C semantics on operands of the concrete C types.  For the operand
 * types in scope (bool, the eight fixed-width integer types, float, double)
 * integer promotions [conv.prom] and usual arithmetic conversions
 * [expr.arith.conv] are the same in C and C++; the only difference is that
 * relational, equality and logical operators and `!` yield `bool` in C++ and
 * `int` in C, so the harness casts those results to _Bool.
 *
 * Included AFTER the extracted text (needs `primitive` and the
 * primitiveType_* enumerators extracted from the real header).
 */
#ifndef C14_SPEC_H
#define C14_SPEC_H

/* tag of the C++ type of an expression: "signedness and width" of the
 * property statement.  LP64: int32_t=int, int64_t=long (checked below). */
#define C14_TAGOF(e) _Generic((e),            \
    _Bool:    primitiveType_bool_,            \
    int8_t:   primitiveType_int8_,            \
    uint8_t:  primitiveType_uint8_,           \
    int16_t:  primitiveType_int16_,           \
    uint16_t: primitiveType_uint16_,          \
    int32_t:  primitiveType_int32_,           \
    uint32_t: primitiveType_uint32_,          \
    int64_t:  primitiveType_int64_,           \
    uint64_t: primitiveType_uint64_,          \
    float:    primitiveType_float_,           \
    double:   primitiveType_double_)

_Static_assert(sizeof(int) == 4 && sizeof(long) == 8 && sizeof(void *) == 8, "LP64");
_Static_assert(_Generic((int32_t)0, int: 1, default: 0) && _Generic((int64_t)0, long: 1, default: 0) &&
               _Generic((uint64_t)0, unsigned long: 1, default: 0), "fixed-width typedefs as on the host");

#ifndef C14_NO_PRIMITIVE
/* "the resulting value equals what C++ computes": the NUMBER held by the
 * result -- read through the union member its own tag designates -- equals
 * the expected value, compared exactly across types (no conversion that could
 * wrap or round).  This is deliberately independent of the type obligation:
 * `1 << 2L` folded to the int64 4 has the right value and the wrong type;
 * `0xFFFFFFFFu << 1L` folded to the int64 8589934590 has both wrong.
 * Floating results: a NaN is matched by any NaN (C++ does not fix the
 * payload), everything else bit for bit (so -0.0 and +0.0 are told apart);
 * an integer-tagged result never equals a floating expected value and vice
 * versa (that is a type confusion, not a value). */
static inline _Bool c14_num_eq_s(primitive r, int64_t e) {
  switch (r.type) {
  case primitiveType_bool_:   return e == (r.value.bool_ ? 1 : 0);
  case primitiveType_int8_:   return (int64_t) r.value.int8_  == e;
  case primitiveType_int16_:  return (int64_t) r.value.int16_ == e;
  case primitiveType_int32_:  return (int64_t) r.value.int32_ == e;
  case primitiveType_int64_:  return r.value.int64_ == e;
  case primitiveType_uint8_:  return e >= 0 && (uint64_t) e == (uint64_t) r.value.uint8_;
  case primitiveType_uint16_: return e >= 0 && (uint64_t) e == (uint64_t) r.value.uint16_;
  case primitiveType_uint32_: return e >= 0 && (uint64_t) e == (uint64_t) r.value.uint32_;
  case primitiveType_uint64_: return e >= 0 && (uint64_t) e == r.value.uint64_;
  default: return 0;
  }
}
static inline _Bool c14_num_eq_u(primitive r, uint64_t e) {
  switch (r.type) {
  case primitiveType_bool_:   return e == (r.value.bool_ ? 1u : 0u);
  case primitiveType_int8_:   return r.value.int8_  >= 0 && (uint64_t) r.value.int8_  == e;
  case primitiveType_int16_:  return r.value.int16_ >= 0 && (uint64_t) r.value.int16_ == e;
  case primitiveType_int32_:  return r.value.int32_ >= 0 && (uint64_t) r.value.int32_ == e;
  case primitiveType_int64_:  return r.value.int64_ >= 0 && (uint64_t) r.value.int64_ == e;
  case primitiveType_uint8_:  return (uint64_t) r.value.uint8_  == e;
  case primitiveType_uint16_: return (uint64_t) r.value.uint16_ == e;
  case primitiveType_uint32_: return (uint64_t) r.value.uint32_ == e;
  case primitiveType_uint64_: return r.value.uint64_ == e;
  default: return 0;
  }
}
static inline _Bool c14_num_eq_f(primitive r, double e) {   /* float -> double is exact */
  double a;
  switch (r.type) {
  case primitiveType_float_:  a = (double) r.value.float_; break;
  case primitiveType_double_: a = r.value.double_; break;
  default: return 0;
  }
  /* same bit pattern, NaNs identified; written without type punning so that the
     SMT back ends (floating-point theory) can take it */
  return __CPROVER_isnand(e) ? __CPROVER_isnand(a)
                             : (a == e && __CPROVER_signd(a) == __CPROVER_signd(e));
}
#define C14_SAME(r, e) _Generic((e),                                              \
    _Bool: c14_num_eq_u,                                                          \
    int8_t: c14_num_eq_s, int16_t: c14_num_eq_s, int32_t: c14_num_eq_s, int64_t: c14_num_eq_s,     \
    uint8_t: c14_num_eq_u, uint16_t: c14_num_eq_u, uint32_t: c14_num_eq_u, uint64_t: c14_num_eq_u, \
    float: c14_num_eq_f, double: c14_num_eq_f)((r), (e))

#endif /* C14_NO_PRIMITIVE */

/* ---- "the C++ result is defined" ([expr.pre]/4, [expr.mul]/4, [expr.shift]) ----
 * All macros take the operands with their own C types; the type the operation
 * is carried out in is obtained with __typeof__ from the expression itself.
 * After promotion an integer result is int, unsigned, long or unsigned long. */
#define C14_SIGNED(e) _Generic((e), int: 1, long: 1, default: 0)
#define C14_MIN(e)    _Generic((e), int: (-2147483647 - 1), long: (-9223372036854775807L - 1), default: 0)
#define C14_MAX(e)    _Generic((e), int: 2147483647, long: 9223372036854775807L, \
                                    unsigned: 4294967295u, unsigned long: 18446744073709551615ul)
#define C14_WIDTH(e)  ((int)(8 * sizeof(e)))

/* + - * on integers: no signed overflow (unsigned arithmetic is modular).  The builtins compute the
 * infinitely precise result of the operand VALUES and test whether it fits the type of t_; the unary +
 * only promotes (value preserving; CBMC rejects _Bool arguments). */
#define C14_DEF_add(x, y)  ({ __typeof__((x) + (y)) t_; !(C14_SIGNED(t_) && __builtin_add_overflow(+(x), +(y), &t_)); })
#define C14_DEF_sub(x, y)  ({ __typeof__((x) - (y)) t_; !(C14_SIGNED(t_) && __builtin_sub_overflow(+(x), +(y), &t_)); })
#define C14_DEF_mult(x, y) ({ __typeof__((x) * (y)) t_; !(C14_SIGNED(t_) && __builtin_mul_overflow(+(x), +(y), &t_)); })
/* / % on integers: divisor non-zero and not MIN / -1 */
#define C14_DEF_div(x, y)  ({ __typeof__((x) / (y)) a_ = (x), b_ = (y); \
                              b_ != 0 && !(C14_SIGNED(a_) && a_ == C14_MIN(a_) && b_ == (__typeof__(a_))-1); })
#define C14_DEF_mod(x, y)  C14_DEF_div(x, y)
/* unary minus: -MIN overflows */
#define C14_DEF_negative(x) ({ __typeof__(-(x)) a_ = (x); !(C14_SIGNED(a_) && a_ == C14_MIN(a_)); })
/* shifts: count non-negative and smaller than the width of the PROMOTED LEFT
 * operand; << on a signed left operand needs a non-negative value whose
 * shifted value is representable in the result type (C++11/14 wording, the
 * strictest; C++20 defines more).  >> of a negative value is implementation-
 * defined (arithmetic on every supported compiler, and required by C++20). */
#define C14_DEF_leftShift(x, y)  ({ __typeof__(+(x)) a_ = (x); __typeof__(+(y)) n_ = (y); \
                              n_ >= 0 && n_ < C14_WIDTH(a_) && \
                              (!C14_SIGNED(a_) || (a_ >= 0 && a_ <= (C14_MAX(a_) >> n_))); })
#define C14_DEF_rightShift(x, y) ({ __typeof__(+(x)) a_ = (x); __typeof__(+(y)) n_ = (y); \
                              n_ >= 0 && n_ < C14_WIDTH(a_); })
/* everything else (comparisons, logical, bitwise, + ! ~, and all floating
 * arithmetic under IEC 60559) is defined for every operand value */
#define C14_DEF_always(x, y) 1

#endif
