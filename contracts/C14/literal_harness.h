/* C14, literal typing -- models of what primitive::load calls but is not under
 * contract (first part), and the harness (second part).  Included twice by
 * the generated translation unit: before the extracted text with
 * C14_LITERAL_MODELS, after it with C14_LITERAL_HARNESS.
 */

#ifdef C14_LITERAL_MODELS
/* ------------------------------------------------------------------ inputs (globals so that the counterexample names them) */
char   c14_text[C14_LIT_MAX + 2];   /* the literal, the character after it, arbitrary text, NUL */
size_t c14_n;                       /* length of the literal */

/* ------------------------------------------------------------------ exception model
 * OCCA_ERROR is a macro in the real code too (occa/defines/errors.hpp; throws occa::exception when the
 * condition is false; the message operands are not evaluated here).  A raise is an obligation failure
 * first ("no error for a literal C++ defines"), then the path ends. */
#define OCCA_ERROR(message, expr)                                                                   \
  do { if (!(expr)) { verif_raised = 1;                                                             \
         __CPROVER_assert(0, "literal: no error is raised inside parseInt/parseBinary for a literal C++ defines"); \
         __CPROVER_assume(0); } } while (0)

/* ------------------------------------------------------------------ std::string(first, count) [+ "suffix"], used as .c_str()
 * A NUL-terminated copy.  (count < 0 would be a std::length_error in C++.) */
#define C14_STR_CAP (C14_LIT_MAX + 8)
static char        c14_strbuf[C14_STR_CAP];
static const char *c14_str_first;      /* ghost: the range the last string was built from */
static long        c14_str_count;

static const char *verif_string(const char *first, long count, const char *suffix) {
  __CPROVER_assert(count >= 0 && count + 4 < C14_STR_CAP, "literal: std::string(first, count) is built from a range inside the buffer");
  long k = 0;
  for (; k < count; ++k) c14_strbuf[k] = first[k];
  for (long j = 0; suffix[j] != 0 && j < 4; ++j, ++k) c14_strbuf[k] = suffix[j];
  c14_strbuf[k] = 0;
  c14_str_first = first;
  c14_str_count = count;
  return c14_strbuf;
}

/* ------------------------------------------------------------------ parseFloat / parseDouble: ASSUMED contracts (libc)
 * Real bodies: parseDouble = sscanf(c, "%lf", &ret), i.e. strtod(text): the double nearest to the
 * longest prefix of the text that is a decimal floating constant; parseFloat = ::atof(text) = strtod(text)
 * or, once repaired, ::strtof(text): the FLOAT nearest to that prefix (C14_PARSEFLOAT_IS_STRTOF is read
 * off the real body by the recipe).  The decimal -> binary conversion is not modelled: strtod(literal) and
 * strtof(literal) are two unconstrained values per run, and NO relation between them is assumed --
 * (float) strtod(text) differs from strtof(text) when the first rounding lands on the midpoint of two
 * floats.  The harness checks WHICH text reaches the conversion and what happens to the returned value. */
static double c14_fp_value;            /* set by the harness: strtod(the literal) */
static float  c14_fp_value_f;          /* set by the harness: strtof(the literal) = the value of an f-suffixed literal in C++ */
static int    c14_fp_calls;            /* conversions asked for the literal itself (text starting at c14_text) */
static long   c14_fp_count;
static double c14_fp_model(const char *s, _Bool to_float) {
  __CPROVER_assert(s == c14_strbuf, "literal: parseFloat/parseDouble receive a string built by std::string(first, count)");
  if (c14_str_first == c14_text) {
    ++c14_fp_calls; c14_fp_count = c14_str_count;
    return to_float ? (double) c14_fp_value_f : c14_fp_value;
  }
  double other;                        /* the exponent text converted on its own: only its type tag is read afterwards */
  return other;
}
static double occa_parseFloat(const char *s)  { return c14_fp_model(s, C14_PARSEFLOAT_IS_STRTOF); }
static double occa_parseDouble(const char *s) { return c14_fp_model(s, 0); }

/* ------------------------------------------------------------------ primitive::source (a std::string member): ghost record */
static const char *c14_src_first; static long c14_src_count; static const char *c14_src_lit;
static void verif_set_source(const char *first, long count) { c14_src_first = first; c14_src_count = count; c14_src_lit = 0; }
static void verif_set_source_lit(const char *lit)           { c14_src_first = 0; c14_src_count = 0; c14_src_lit = lit; }

/* ------------------------------------------------------------------ the recursive call primitive::load(++c) on the exponent
 * primitive::load calls itself on the text after e/E and reads only the type tag of what comes back
 * (`float_ = exp.type & isFloat`) and the cursor.  Contract of that call, for the exponent texts of a
 * well-formed floating literal:
 *   pre:   the text at the cursor is   sign? digit+ (f|F)?   followed by a character that ends the
 *          token (c14_lit_ends_here: no letter, digit, period, ...), with at most C14_EXP_MAX characters;
 *   post:  the cursor is advanced over exactly that text; the result's tag has the isFloat bit iff the
 *          f/F is there; no error is raised; no conversion of the LITERAL's text is asked for.
 * Group literal/exponent-contract proves this contract of the real text of load (entry h_exponent);
 * the groups that reach an exponent use it in place of the call: a violated precondition fails there. */
#ifndef C14_EXP_MAX
#  define C14_EXP_MAX C14_LIT_MAX
#endif
typedef struct { _Bool ok; size_t len; _Bool f; } c14_exp_t;
static c14_exp_t c14_exponent_spec(const char *s) {
  c14_exp_t e; e.ok = 0; e.len = 0; e.f = 0;
  size_t i = 0;
  if (s[i] == '+' || s[i] == '-') ++i;
  size_t d0 = i;
  for (; i < C14_EXP_MAX && '0' <= s[i] && s[i] <= '9'; ++i) { }
  if (i == d0) return e;
  if (s[i] == 'f' || s[i] == 'F') { e.f = 1; ++i; }
  if (i > C14_EXP_MAX) return e;
  if (!c14_lit_ends_here(s[i - 1], s[i])) return e;
  e.ok = 1; e.len = i;
  return e;
}

static primitive primitive_load_exponent(const char **c_, const bool includeSign)
#if defined(C14_LIT_NO_EXPONENT)
{ /* integer, boolean and exponent texts contain no exponent: the call must not be reached */
  __CPROVER_assert(0, "literal: no (further) exponent is parsed for this text (the recursive call is not reached)");
  __CPROVER_assume(0);
  return primitive_ctor_none();
}
#else
{ /* replaced by its contract */
  c14_exp_t e = c14_exponent_spec(*c_);
  __CPROVER_assert(e.ok && includeSign, "literal: the recursive call on the exponent meets the precondition of its contract (sign? digits (f|F)?, then the end of the token)");
  __CPROVER_assume(e.ok);
  *c_ += e.len;
  primitive r;                                             /* unconstrained but for the isFloat bit of the tag */
  __CPROVER_assume(((r.type & primitiveType_isFloat) != 0) == e.f);
  c14_str_first = 0; c14_str_count = -1;                   /* scratch state the inner call may have used */
  c14_src_first = 0; c14_src_count = -1; c14_src_lit = 0;
  return r;
}
#endif
#endif /* C14_LITERAL_MODELS */


#ifdef C14_LITERAL_HARNESS
_Bool nondet_bool(void); char nondet_char(void); size_t nondet_size(void); double nondet_double(void); float nondet_float(void);

static c14_lit_t c14_spec;

/* the spelling recorded in primitive::source is exactly the literal */
static _Bool c14_source_is_literal(void) {
  if (c14_src_lit) {
    size_t k = 0;
    for (; k < 6 && c14_src_lit[k] != 0; ++k) if (k >= c14_n || c14_src_lit[k] != c14_text[k]) return 0;
    return k == c14_n;
  }
  return c14_src_first == c14_text && c14_src_count == (long) c14_n;
}

void h_literal(void) {
  /* ---- every text (all byte values) of the shape of this group ---- */
  for (size_t k = 0; k < C14_LIT_MAX + 1; ++k) c14_text[k] = nondet_char();
  c14_text[C14_LIT_MAX + 1] = 0;
  C14_SHAPE_SETUP
  c14_n = nondet_size();
  if (c14_n < 1 || c14_n > C14_LIT_MAX) return;
#ifndef C14_LIT_TAIL
  /* the buffer ends after the character that follows the literal (arbitrary text after it: group any-text) */
  for (size_t k = 0; k < C14_LIT_MAX + 1; ++k) if (k > c14_n) c14_text[k] = 0;
#endif
  /* ---- precondition of the property: the text is a literal C++ defines (no assumption: a guard) ---- */
  c14_spec = c14_lit_spec(c14_text, c14_n);
  if (c14_spec.kind == C14_LIT_NONE) return;
  if (!c14_lit_ends_here(c14_text[c14_n - 1], c14_text[c14_n])) return;
  if (!(C14_SHAPE_FILTER)) return;

  const _Bool includeSign = nondet_bool();     /* tokenizer: shallowPeek passes false, getPrimitiveToken true */
  const char *cursor = c14_text;
  c14_fp_value = nondet_double(); c14_fp_value_f = nondet_float(); c14_fp_calls = 0; c14_fp_count = -1;
  c14_src_first = 0; c14_src_count = -1; c14_src_lit = 0;
  verif_raised = 0;

  primitive r = primitive_load(&cursor, includeSign);

#ifndef CANARY
  __CPROVER_assert(!verif_raised, "literal: no error is raised for a literal C++ defines");
  __CPROVER_assert(cursor == c14_text + c14_n, "literal: the cursor consumed exactly the literal");
  __CPROVER_assert(c14_source_is_literal(), "literal: the recorded source spelling is exactly the literal text");
  if (c14_spec.kind == C14_LIT_INT) {
    size_t sl = c14_n - c14_spec.body;
    _Bool has_u = 0;
    for (size_t k = 0; k < 3; ++k) if (k < sl && (c14_text[c14_spec.body + k] == 'u' || c14_text[c14_spec.body + k] == 'U')) has_u = 1;
    if (has_u) {
      __CPROVER_assert(r.type == c14_spec.tag, "integer literal with u suffix: has the type C++ gives it (first of unsigned, unsigned long that holds the value; unsigned long with l/ll)");
      __CPROVER_assert(c14_num_eq_u(r, c14_spec.value), "integer literal with u suffix: has the value of the literal");
    } else if (c14_spec.base == 10) {
      __CPROVER_assert(r.type == c14_spec.tag, "decimal literal without u suffix: has the type C++ gives it (first of int, long that holds the value; long with l/ll)");
      __CPROVER_assert(c14_num_eq_u(r, c14_spec.value), "decimal literal without u suffix: has the value of the literal");
    } else {
      __CPROVER_assert(r.type == c14_spec.tag, "binary/octal/hexadecimal literal without u suffix: has the type C++ gives it (first of int, unsigned, long, unsigned long that holds the value; from long on with l/ll)");
      __CPROVER_assert(c14_num_eq_u(r, c14_spec.value), "binary/octal/hexadecimal literal without u suffix: has the value of the literal");
    }
  } else if (c14_spec.kind == C14_LIT_BOOL) {
    __CPROVER_assert(r.type == c14_spec.tag, "boolean literal: has the type bool");
    __CPROVER_assert(c14_num_eq_u(r, c14_spec.value), "boolean literal: has the value of the literal");
  } else {
    __CPROVER_assert(r.type == c14_spec.tag, "floating literal: has the type C++ gives it (double; float with f suffix)");
    __CPROVER_assert(c14_fp_calls == 1 && c14_fp_count >= (long) c14_spec.body && c14_fp_count <= (long) c14_n,
                     "floating literal: the text handed once to the decimal-to-binary conversion (parseFloat/parseDouble) is the literal");
    if (c14_fp_calls == 1) {
      if (c14_spec.tag == primitiveType_float_) {
        __CPROVER_assert(c14_num_eq_f(r, (double) c14_fp_value_f), "floating literal with f suffix: has the value of the literal, the float nearest to the text (strtof), not a double rounded again");
      } else {
        __CPROVER_assert(c14_num_eq_f(r, c14_fp_value), "floating literal without suffix: has the value of the literal, the double nearest to the text (strtod)");
      }
    }
  }
#else
  /* must fail: the state after the call is reachable for each kind of literal this group admits */
  __CPROVER_assert(c14_spec.kind != C14_LIT_INT,   "canary: an integer literal reaches the end of the harness");
  __CPROVER_assert(c14_spec.kind != C14_LIT_FLOAT, "canary: a floating literal reaches the end of the harness");
  __CPROVER_assert(c14_spec.kind != C14_LIT_BOOL,  "canary: a boolean literal reaches the end of the harness");
#endif
}

/* ------------------------------------------------------------------ proof of the exponent contract on the real text of load */
void h_exponent(void) {
  for (size_t k = 0; k < C14_LIT_MAX + 1; ++k) c14_text[k] = nondet_char();
  c14_text[C14_LIT_MAX + 1] = 0;
  /* the exponent starts behind at least one digit and the e: not at the start of the buffer */
  const char *const start = c14_text + 2;
  c14_exp_t e = c14_exponent_spec(start);
  if (!e.ok || 2 + e.len > C14_LIT_MAX) return;
  for (size_t k = 0; k < C14_LIT_MAX + 1; ++k) if (k > 2 + e.len) c14_text[k] = 0;
  const char *cursor = start;
  c14_fp_value = nondet_double(); c14_fp_value_f = nondet_float(); c14_fp_calls = 0; c14_fp_count = -1;
  verif_raised = 0;

  primitive r = primitive_load(&cursor, 1);

#ifndef CANARY
  __CPROVER_assert(!verif_raised, "exponent contract: no error is raised");
  __CPROVER_assert(cursor == start + e.len, "exponent contract: the cursor is advanced over exactly sign? digits (f|F)?");
  __CPROVER_assert(((r.type & primitiveType_isFloat) != 0) == e.f, "exponent contract: the result tag has the isFloat bit iff the exponent carries f/F");
  __CPROVER_assert(c14_fp_calls == 0, "exponent contract: no conversion of the literal's own text is asked for");
#else
  __CPROVER_assert(!e.f, "canary: an exponent with f reaches the end of the harness");
  __CPROVER_assert(e.f,  "canary: an exponent without f reaches the end of the harness");
#endif
}
#endif /* C14_LITERAL_HARNESS */
