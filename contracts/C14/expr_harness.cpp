/* C14 part 2 -- harness: operands that C++ does not evaluate are not evaluated.
 * Contracts are stated on the ghost evaluation counters of the child nodes and on
 * the ghost record of the operator application (expr_skeleton.hpp). */
namespace occa { int verif_raised_; }
namespace occa { namespace lang {
  int       ghost_op_calls;
  primitive ghost_op_left, ghost_op_right, ghost_op_result;
}}
using namespace occa;
using namespace occa::lang;

extern "C" int c14_cond_tag(int ta, int tb);   /* condtag.c: tag of `c ? (TA)x : (TB)y` by CBMC's C typing */
extern "C" int c14_tag_at(int i);
extern "C" int c14_ntags(void);

/* any value a primitive can hold: exactly one tag (none, the eleven arithmetic tags, ptr) */
static void any_primitive(primitive &p) {
  int i = nondet_int();
  p.type = (0 <= i && i < c14_ntags()) ? c14_tag_at(i) : (nondet_bool() ? primitiveType::none : primitiveType::ptr);
  p.bits = nondet_long(); p.truth = nondet_bool();
}
static bool arithmetic(const primitive &p) {
  return p.type & (primitiveType::bool_ | primitiveType::isInteger | primitiveType::isFloat);
}
static void child(exprNode &n) { n.evals = 0; any_primitive(n.val); }
/* every entry of namespace op has exactly one raw operator bit (operator.cpp) */
static bitfield any_single_op() {
  unsigned k = nondet_uint() % 64u;
  return nondet_bool() ? bitfield(((udim_t) 1) << k, 0) : bitfield(0, ((udim_t) 1) << k);
}

extern "C" void h_binary() {
  exprNode l, r; child(l); child(r);
  binaryOperator_t o; o.opType = any_single_op(); o.precedence = 0;
  const bool is_and = (o.opType == operatorType::and_);
  const bool is_or  = (o.opType == operatorType::or_);
  ghost_op_calls = 0; any_primitive(ghost_op_result); verif_raised_ = 0;
  binaryOpNode node(o, &l, &r);
  primitive res = node.evaluate();
  __CPROVER_assert(!verif_raised_, "binary: tree evaluation itself raises no error");
  const bool applied = (ghost_op_calls == 1) && same_primitive(ghost_op_left, l.val) &&
                       same_primitive(ghost_op_right, r.val) && same_primitive(res, ghost_op_result);
  __CPROVER_assert(l.evals == 1, "binary: the left operand is evaluated exactly once");
  if (is_and && arithmetic(l.val) && !l.val.truth) {
    __CPROVER_assert(r.evals == 0, "&&: the right operand is not evaluated when the left operand is false");
    __CPROVER_assert(res.type == primitiveType::bool_ && !res.truth, "&&: false && x is the bool false");
  } else if (is_or && arithmetic(l.val) && l.val.truth) {
    __CPROVER_assert(r.evals == 0, "||: the right operand is not evaluated when the left operand is true");
    __CPROVER_assert(res.type == primitiveType::bool_ && res.truth, "||: true || x is the bool true");
  } else if (is_and || is_or) {
    /* left operand does not decide: the right one is evaluated once; the result is the operator applied to
       both values, or directly the bool value of the right operand */
    __CPROVER_assert(r.evals == 1, "&& ||: the right operand is evaluated exactly once when the left one does not decide");
    __CPROVER_assert(applied || (ghost_op_calls == 0 && res.type == primitiveType::bool_ && res.truth == r.val.truth),
                     "&& ||: result is the operator applied to both operand values");
  } else {
    __CPROVER_assert(r.evals == 1, "binary: the right operand is evaluated exactly once");
    __CPROVER_assert(applied, "binary: result is the operator applied to both operand values");
  }
#ifdef CANARY
  __CPROVER_assert(!(is_and && arithmetic(l.val) && !l.val.truth), "canary: false && x case reachable");
#endif
}

extern "C" void h_ternary() {
  exprNode c, t, f; child(c); child(t); child(f);
  const bool arith = arithmetic(t.val) && arithmetic(f.val);
  if (!arithmetic(c.val)) return;    /* the condition must be contextually convertible to bool */
  operator_t o; o.opType = operatorType::ternary; o.precedence = 0;
  ternaryOpNode node(o, &c, &t, &f);
  primitive res = node.evaluate();
  __CPROVER_assert(c.evals == 1, "?: the condition is evaluated exactly once");
  if (c.val.truth) {
    __CPROVER_assert(t.evals == 1 && f.evals == 0, "?: only the second operand is evaluated when the condition is true");
    __CPROVER_assert(res.bits == t.val.bits && res.truth == t.val.truth, "?: the value is the second operand's when the condition is true");
  } else {
    __CPROVER_assert(t.evals == 0 && f.evals == 1, "?: only the third operand is evaluated when the condition is false");
    __CPROVER_assert(res.bits == f.val.bits && res.truth == f.val.truth, "?: the value is the third operand's when the condition is false");
  }
  if (arith) {
    __CPROVER_assert(res.type == c14_cond_tag(t.val.type, f.val.type),
                     "?: the result type is the common type of the second and third operands");
  }
#ifdef CANARY
  __CPROVER_assert(!(arith && c.val.truth), "canary: ternary true case reachable");
#endif
}

extern "C" void h_leftUnary() {
  exprNode v; child(v);
  unaryOperator_t o; o.opType = any_single_op(); o.precedence = 0;
  ghost_op_calls = 0; any_primitive(ghost_op_result);
  leftUnaryOpNode node(o, &v);
  primitive res = node.evaluate();
  __CPROVER_assert(v.evals == 1, "unary: the operand is evaluated exactly once");
  __CPROVER_assert(ghost_op_calls == 1 && same_primitive(ghost_op_left, v.val) && same_primitive(res, ghost_op_result),
                   "unary: result is the operator applied to the operand value");
#ifdef CANARY
  __CPROVER_assert(v.evals != 1, "canary: unary reachable");
#endif
}
